#!/bin/bash
# usage: mutant_batch.sh <dir-or-patches...> — apply each breaking mutant, run ALL checks, list the ones that report it
REPO=${REPO:-/repo}; export VERIF_REPO=$REPO
cd ${VDIR:-/verif}
FILES=(); for a in "$@"; do if [ -d "$a" ]; then FILES+=("$a"/*.diff); else FILES+=("$a"); fi; done
IDS=$(ls rules | sed -n 's/^c\([0-9][0-9]\)\.py$/C\1/p')
for P in "${FILES[@]}"; do
  P=$(readlink -f "$P")
  git -C $REPO diff --quiet || { echo "$REPO dirty"; exit 2; }
  git -C $REPO apply "$P" || { echo "NOAPPLY $(basename $P)"; continue; }
  ./check C18 >/dev/null 2>&1
  out=$(echo $IDS | tr ' ' '\n' | xargs -P 8 -I{} sh -c './check {} 2>&1 | grep -E "violated:|TOOL-FAILURE" | sed "s/^/{} /"')
  git -C $REPO checkout -- . ; git -C $REPO clean -fdq -e target
  if [ -z "$out" ]; then echo "MISSED  $(basename $P)"; else echo "caught  $(basename $P): $(echo "$out" | sed 's/ *violated: rule=[^ ]* *[^k]*key=/ /' | tr '\n' ';' | cut -c1-260)"; fi
done
