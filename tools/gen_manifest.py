#!/usr/bin/env python3
"""Regenerates MANIFEST.json from the table below; a property is claimed iff rules/<id>.py exists."""
import json
import os
import subprocess

VERIF = os.path.dirname(os.path.dirname(os.path.abspath(__file__)))

TB = ("rustc nightly front-end (MIR construction, trait/method resolution, const evaluation); the mirfacts extractor; "
      "frozen spec tables in /verif/tables; third-party crates behave as documented")

P = {
    "C01": dict(
        technique="MIR dataflow + CFG cut-set (must-pass) rules over RpIdVerifier/Client",
        text="Decides the structural clauses of RP-ID binding on every path of the compiled program: https gate, DNS-host source, localhost gate, "
             "label-aware suffix test (separator evidence), registrable-domain gate in web arm, Android arm and is_valid_rp_id (applied to the ASCII/punycode form the table is keyed in, with empty labels rejected over the whole name), and that the "
             "authenticator request's rp id derives only from the validated result and is cut by validation success. Does not decide url/idna string semantics.",
        ref="DESIGN.md §3 C01"),
    "C02": dict(
        technique="MIR value-flow slices from response fields to their sources; resolved-callee identity",
        text="Decides provenance clauses of registration: clientData type/challenge/origin/hash sources (the origin rendered as the URL's ASCII serialisation), both authenticator-data copies from one value reaching the attestation object unaltered, id/rawId from one "
             "credential id, public vs private COSE key routing, rpIdHash source, first-match algorithm choice, exactly one save, and that the shipped stores write exactly the record they are given under its own id (shared clause C07 R8). Not crypto validity.",
        ref="DESIGN.md §3 C02"),
    "C03": dict(
        technique="MIR byte-layout extraction of the signature target + value-flow slices + decision table of the error mapping",
        text="Decides that the signed buffer is authData||clientDataHash of the same authData that is returned, that the key comes from the credential that is returned, "
             "clientData type is webauthn.get with the caller's origin rendered as the URL's ASCII serialisation, no attested data in assertions, and the NoCredentials->CredentialNotFound mapping. Not ECDSA correctness.",
        ref="DESIGN.md §3 C03"),
    "C04": dict(
        technique="CFG must-pass (consent dominates effects) + decision-table extraction of the consent helper",
        text="Decides that every store call, key generation, signature and Ok return of both ceremonies is cut by the success edge of the user check, the complete decision "
             "table of the consent helper (requested/capability/reported -> Err/flags), flag provenance, shown-credential = signing credential, and that a wire request whose options omit up asks for presence (shared clause C13 R4).",
        ref="DESIGN.md §3 C04"),
    "C05": dict(
        technique="MIR value-flow of lookup arguments + per-impl store-contract rule (parameter must be used in a comparison)",
        text="Decides lookup arguments (allow/exclude list, rp id) at both call sites, first-result selection, the exclusion outcome table, and for every CredentialStore impl in "
             "the workspace that wrappers forward ids/rp_id unchanged, leaf stores use rp_id and match listed ids by equality of the whole id. Shipped leaf stores ignoring rp_id are recorded known findings.",
        ref="DESIGN.md §3 C05"),
    "C06": dict(
        technique="taint analysis over MIR value flow + impl-table and type-reachability rules",
        text="Decides that no secret source (private scalar, PRF secrets) reaches an outbound sink except via declared declassifiers, public/private routing of CoseKeyPair, "
             "that secret holders implement no Debug/Display/Serialize (Passkey Debug projects only kty/counter), and that no outbound type can contain a secret type.",
        ref="DESIGN.md §3 C06"),
    "C07": dict(
        technique="CFG path rules on the pre-borrowck coroutine MIR (await/yield/cancellation edges), error-discipline rule",
        text="Decides: save is the last fallible/suspending step of registration; store results are propagated (never dropped or turned into Ok); mutation sites are exactly "
             "save/update; cancellation edges lie before the save or inside it; assertion Ok is cut by update success when a counter exists; the shipped leaf stores write the given record under its own id through one accepted writer and touch the container in no other way.",
        ref="DESIGN.md §3 C07"),
    "C08": dict(
        technique="MIR arithmetic rule (no wrapping/panicking op on counter-derived operands) + value-flow (reported = stored)",
        text="Decides: initial counter constant, non-wrapping non-panicking increment by the constant 1, reported counter and stored counter derive from the same definition (and the authenticator-data container keeps the counter it is given), "
             "no rewrite when the credential has no counter. Not whole-history monotonicity.",
        ref="DESIGN.md §3 C08"),
    "C09": dict(
        technique="byte-layout extraction (salt), resolved generic args (Hmac<Sha256>), edge-sensitive value-flow (uv-gated key selection)",
        text="Decides the PRF salt layout and constants, HMAC instantiation and key/data roles, secret selection by the uv edge, uv argument provenance at both ceremonies, "
             "per-credential salt selection, 'enabled' consistency, that client-side validation cuts the authenticator call, and that the hashing flag is handed on unchanged from the entry conversions to every converter call (closures and helpers included).",
        ref="DESIGN.md §3 C09"),
    "C10": dict(
        technique="translation validation of the generated table (const-evaluated by rustc) against public_suffix_list.dat + table well-formedness + reader bit-layout walk",
        text="Decides that the compiled trie equals the trie built from the shipped .dat (every rule), the index/sortedness preconditions of the lookup, and that the reader's "
             "bit-field order equals the generator's. Does not decide that the walk implements the PSL algorithm on all strings.",
        ref="DESIGN.md §3 C10", category="translation_validation"),
    "C11": dict(
        technique="decision-table extraction from MIR switch trees + table algebra over the full finite product",
        text="Decides map_rk, is_passkey_discoverable, get_info.rk tables, rk refusal, stored user handle condition, credProps value, assertion user handle presence, lock wrappers forwarding get_info to the wrapped store, the user handle surviving the counter write-back (shared clause C07 R7); the "
             "composition is evaluated over the complete finite product from the extracted tables.",
        ref="DESIGN.md §3 C11"),
    "C12": dict(
        technique="byte-layout extraction of writer, reader constant agreement, flag-bit constants (const-evaluated)",
        text="Decides writer layout and widths/endianness, reader split constants agree with the writer, flag bit values and rejecting from_bits, AT/ED set exactly with their sections, "
             "u16 length refusal, and that no outcome of the attested-data reader depends on a test of the decoded length (the reader accepts every length the writer emits). Not round-trip equality for all values.",
        ref="DESIGN.md §3 C12"),
    "C13": dict(
        technique="discriminant tables of the macro-generated Ident enums (compiler facts) vs CTAP numbering; status-code partition by set algebra",
        text="Decides member numbering/order, optional-member omission and defaults, duplicate/missing-key handling in the generated visitor, Options defaults on both sides (a member the encoder leaves out is left out only at the value the decoder substitutes), and that the 256 "
             "status bytes partition into exactly one class each and convert back; client mapping of NoCredentials.",
        ref="DESIGN.md §3 C13"),
    "C14": dict(
        technique="error-absorption summaries of deserialize_with helpers + visitor method tables + emit-order extraction",
        text="Partial: decides which members are lenient (absorbing helpers / multi-representation visitors), the base64url-then-base64 order, and the fixed emission order of "
             "client data. Does not decide value equality of parses or re-parse round trips.",
        ref="DESIGN.md §3 C14"),
    "C15": dict(
        technique="panic-site / allocation-site enumeration over the decoder call closure with length-guard discharge (MIR Assert terminators, partial std functions)",
        text="Decides, for every public decoder's workspace-local call closure: each panic site is discharged by a dominating length guard, a table fact or a one-line allow row; "
             "each allocation size derives from held data or is clamped; no absorbing element loop; no recursion; no other decoder calls a function with an open panic site. Third-party internals are trusted.",
        ref="DESIGN.md §3 C15"),
    "C16": dict(
        technique="frame rule (channel-keyed state only) via value-flow, constant agreement sender/receiver, sequence discipline rule",
        text="Partial: decides per-channel non-interference structurally, continuation-without-init yields nothing, header/payload constants agree on both sides and with CTAPHID, "
             "sequence numbering discipline, full-packet writes, size refusal, and — for each of the 65536 declared lengths — that the message of an initialisation packet is delivered by that call exactly when it fits (<= 57 bytes) and parked otherwise. Does not decide the identity of fragment∘reassemble for every length and content.",
        ref="DESIGN.md §3 C16"),
    "C17": dict(
        technique="byte-layout extraction of signature bases and response encoders vs the U2F raw-message tables; writer/reader agreement of the stored rp_id",
        text="Decides registration/authentication signature base layouts, stored credential fields, same conversion chain for rp_id at store and lookup, response encodings, "
             "status words and request framing constants, and that a re-registration replaces the stored record (shared clause C07 R8). Not signature validity.",
        ref="DESIGN.md §3 C17"),
    "C18": dict(
        technique="resolved call graph (Instance::try_resolve): forwarding target, self-cycle, transparency slices, sealedness",
        text="Fully decides the structural content: each Ctap2Api impl method makes exactly one workspace call which method resolution binds to the inherent method of the same "
             "name, passes its own parameters, returns the awaited result unmodified, cannot reach itself, and the trait is sealed (single impl).",
        ref="DESIGN.md §3 C18"),
    "C19": dict(
        technique="lock-discipline effect analysis on the wrapper impls + guard-liveness across yields + read-modify-write atomicity rule",
        text="Partial: decides one acquisition per wrapper method held only across the delegated call, exclusive acquisition for mutators, no guard live across a ceremony "
             "suspension point, and flags the counter read/await/write window (recorded known finding). Does not explore schedules.",
        ref="DESIGN.md §3 C19"),
}

NOT_BUILT = "rules not built yet in this round (planned in DESIGN.md §3); not claimed until a check exists"


def main():
    checks = []
    na = []
    for pid in sorted(P):
        if os.path.exists(os.path.join(VERIF, "rules", pid.lower() + ".py")):
            m = P[pid]
            checks.append({
                "property_id": pid,
                "quick_cmd": "./check %s --tier quick" % pid,
                "thorough_cmd": "./check %s --tier thorough" % pid,
                "evidence_file": "/verif/evidence/%s.json" % pid,
                "replay_cmd_template": "./check %s --explain {path}" % pid,
                "engine": "mirfacts+rules",
                "level_claimed": {"category": m.get("category", "other"), "text": m["text"], "design_ref": m["ref"]},
                "level_note": TB,
                "technique": "static analysis: " + m["technique"],
            })
        else:
            na.append({"property_id": pid, "reason": NOT_BUILT})
    commits = subprocess.run(["git", "-C", "/repo", "log", "--format=%h %s", "c92d538..HEAD"], capture_output=True, text=True).stdout.strip().splitlines()
    man = {
        "version": 1,
        "setup_cmd": "./setup.sh",
        "hooks": {
            "guard": "passkey_rs_verif",
            "enable": "none needed: the analysis reads the unmodified build (cargo +nightly check with a rustc wrapper); the guard is declared but unused",
            "baseline_off_cmd": "cd /repo && cargo nextest run --workspace --no-fail-fast --test-threads 8 --offline || cargo test --workspace --no-fail-fast --offline",
            "source_commits": commits,
            "add_only": False,
        },
        "engines": [
            {"name": "mirfacts", "path": "engines/mirfacts", "serves_properties": sorted(P), "kind_free_text": "rustc_private driver dumping pre-borrowck MIR, ADTs, impls, evaluated consts"},
            {"name": "rules", "path": "rules", "serves_properties": sorted(P), "kind_free_text": "Python rule engine: CFG cuts, await collapse, value-flow slices, decision tables"},
        ],
        "checks": checks,
        "notes": "Static analysis only. Exit 0 held / 1 VIOLATION (also anchor-missing, below-floor) / 2 tool failure (tree does not build). "
                 "source_commits are unguarded `fix:` repairs of genuine defects (see known_findings.json, DESIGN.md §5); no hooks are needed.",
        "not_applicable": na,
    }
    with open(os.path.join(VERIF, "MANIFEST.json"), "w") as fh:
        json.dump(man, fh, indent=1)
    print("claimed:", [c["property_id"] for c in checks])


if __name__ == "__main__":
    main()
