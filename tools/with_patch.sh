#!/bin/bash
# usage: with_patch.sh <patch> <cmd...>  — apply patch to /repo, run cmd in /verif, undo
P=$(readlink -f "$1"); shift
git -C /repo diff --quiet || { echo "/repo dirty"; exit 2; }
git -C /repo apply "$P" || exit 2
trap 'git -C /repo checkout -- . ; git -C /repo clean -fdq -e target' EXIT
cd /verif && "$@"
