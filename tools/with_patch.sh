#!/bin/bash
# usage: with_patch.sh <patch> <cmd...>  — apply patch to $REPO, run cmd in /verif, undo
REPO=${REPO:-/repo}; export VERIF_REPO=$REPO
P=$(readlink -f "$1"); shift
git -C $REPO diff --quiet || { echo "$REPO dirty"; exit 2; }
git -C $REPO apply "$P" || exit 2
trap 'git -C $REPO checkout -- . ; git -C $REPO clean -fdq -e target' EXIT
cd ${VDIR:-/verif} && "$@"
