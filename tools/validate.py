#!/usr/bin/env python3
"""Validate MANIFEST.json and evidence files against the harness schemas (uses the tooling venv's jsonschema)."""
import json, glob, sys
import jsonschema
ok = True
jsonschema.validate(json.load(open('/verif/MANIFEST.json')), json.load(open('/root/.vp/MANIFEST.schema.json')))
es = json.load(open('/root/.vp/EVIDENCE.schema.json'))
for f in sorted(glob.glob('/verif/evidence/C*.json')):
    try:
        jsonschema.validate(json.load(open(f)), es)
    except Exception as e:
        ok = False; print("INVALID", f, str(e)[:300])
print("valid" if ok else "invalid")
sys.exit(0 if ok else 1)
