#!/usr/bin/env python3
"""keep_seed.py <name> <worktree> <property> <crate> <test> <needs> <caught_by...>  — store a confirmed seeded change under /verif/seeded/<name>/"""
import json, os, shutil, sys
name, wt, prop, crate, test, needs = sys.argv[1:7]
caught = sys.argv[7:]
d = "/verif/seeded/%s" % name
os.makedirs(d, exist_ok=True)
for f in os.listdir(os.path.join(wt, "seeded")):
    shutil.copy(os.path.join(wt, "seeded", f), os.path.join(d, f))
meta = {
    "property": prop,
    "breaks": open(os.path.join(d, "patch.diff")).read().split("\n")[0],
    "needs_to_manifest": needs,
    "confirmed": {
        "ran": ["tools/confirm_seed.sh %s %s %s" % (wt, crate, test)],
        "with_patch": "workspace builds (--all-features), full suite passes (101 incl. doc-tests), demo test FAILS",
        "without_patch": "demo test PASSES",
        "demo_cmd": "git apply seeded/demo.diff && cargo test -p %s --offline --test %s" % (crate, test),
    },
    "detected_by": caught,
}
json.dump(meta, open(os.path.join(d, "meta.json"), "w"), indent=1)
print("kept", d)
