#!/bin/bash
# usage: confirm_seed2.sh <worktree> <seed-subdir> — like confirm_seed.sh, but reads crate/test from the demo diff
# (demo.diff adds <crate>/tests/<name>.rs). With patch -> builds, suite passes, demo FAILS; without -> demo PASSES.
set -u
WT="$1"; SD="${2:-seeded}"
cd "$WT" || exit 2
export CARGO_TARGET_DIR="$WT/target" CARGO_NET_OFFLINE=true
F=$(grep -m1 '^+++ b/' $SD/demo.diff | sed 's#^+++ b/##'); CR=$(echo $F | cut -d/ -f1); TN=$(basename $F .rs)
git checkout -q -- . ; git clean -fdq -e target -e seeded -e seeded2 -e silent
git apply $SD/patch.diff || { echo "PATCH-NOAPPLY"; exit 1; }
cargo build --workspace --all-features --offline >/dev/null 2>&1 && echo "build(with patch): ok" || { echo "build(with patch): FAIL"; git checkout -q -- .; exit 1; }
R=$(cargo test --workspace --offline 2>&1 | grep -E "^test result" | awk '{p+=$4; f+=$6} END {print p" passed "f" failed"}')
echo "suite(with patch): $R"
git apply $SD/demo.diff || { echo "DEMO-NOAPPLY"; git checkout -q -- .; exit 1; }
D1=$(cargo test -p "$CR" --offline --test "$TN" 2>&1 | grep -E "^test result" | tail -1)
echo "demo(with patch) [$CR --test $TN]: $D1"
git apply -R $SD/patch.diff
D2=$(cargo test -p "$CR" --offline --test "$TN" 2>&1 | grep -E "^test result" | tail -1)
echo "demo(without patch): $D2"
git checkout -q -- . ; git clean -fdq -e target -e seeded -e seeded2 -e silent
