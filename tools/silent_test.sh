#!/bin/bash
# usage: silent_test.sh [patch ...]   — behaviour-preserving patches: apply each to $REPO, run ALL checks, undo.
# Every check must stay silent (OK). Prints one line per (patch, check) that is not OK.
set -u
REPO=${REPO:-/repo}; export VERIF_REPO=$REPO
cd ${VDIR:-/verif}
PATCHES=("$@"); [ ${#PATCHES[@]} -eq 0 ] && PATCHES=(mutants/silent/*.diff)
IDS=$(ls rules | sed -n 's/^c\([0-9][0-9]\)\.py$/C\1/p')
bad=0
for P in "${PATCHES[@]}"; do
  P=$(readlink -f "$P")
  git -C $REPO diff --quiet || { echo "$REPO has local changes; refusing"; exit 2; }
  git -C $REPO apply "$P" || { echo "NOAPPLY $P"; bad=1; continue; }
  ./check C18 >/dev/null 2>&1   # warm the fact cache once for this tree
  out=$(echo $IDS | tr ' ' '\n' | xargs -P 8 -I{} sh -c './check {} 2>&1 | grep -E "violated:|^OK|TOOL-FAILURE|Traceback" | sed "s/^/{} /"')
  git -C $REPO checkout -- . ; git -C $REPO clean -fdq -e target
  n_ok=$(echo "$out" | grep -c " OK property")
  echo "== $(basename $P): $n_ok/19 OK"
  echo "$out" | grep -v " OK property" | cut -c1-240
  [ "$n_ok" -eq 19 ] || bad=1
done
exit $bad
