#!/bin/bash
# run every check on /repo's current tree in parallel; print one line per check
cd /verif
./check C18 >/dev/null 2>&1
ls rules | sed -n 's/^c\([0-9][0-9]\)\.py$/C\1/p' | xargs -P 8 -I{} sh -c './check {} 2>&1 | grep -E "violated:|^OK|TOOL-FAILURE|Error|error" | sed "s/^/{} /"' | sort | cut -c1-220
