#!/bin/bash
# usage: confirm_seed.sh <worktree> <crate> <test-name>
# Confirms in the scratch worktree: with patch -> builds, full suite passes, demo FAILS; without patch -> demo PASSES.
set -u
WT="$1"; CR="$2"; TN="$3"
cd "$WT" || exit 2
export CARGO_TARGET_DIR="$WT/target" CARGO_NET_OFFLINE=true
git checkout -q -- . ; git clean -fdq -e target -e seeded
git apply seeded/patch.diff || { echo "PATCH-NOAPPLY"; exit 1; }
cargo build --workspace --all-features --offline >/dev/null 2>&1 && echo "build(with patch): ok" || { echo "build(with patch): FAIL"; git checkout -q -- .; exit 1; }
R=$(cargo test --workspace --offline 2>&1 | grep -E "^test result" | awk '{p+=$4; f+=$6} END {print p" passed "f" failed"}')
echo "suite(with patch): $R"
git apply seeded/demo.diff || { echo "DEMO-NOAPPLY"; git checkout -q -- .; exit 1; }
D1=$(cargo test -p "$CR" --offline --test "$TN" 2>&1 | grep -E "^test result" | tail -1)
echo "demo(with patch): $D1"
git apply -R seeded/patch.diff
D2=$(cargo test -p "$CR" --offline --test "$TN" 2>&1 | grep -E "^test result" | tail -1)
echo "demo(without patch): $D2"
git checkout -q -- . ; git clean -fdq -e target -e seeded
