#!/bin/bash
# usage: seed_test.sh [dir ...] — every kept seeded change (and fire mutant) must make the check of its property fail.
REPO=${REPO:-/repo}; export VERIF_REPO=$REPO
cd ${VDIR:-/verif}
DIRS=("$@"); [ ${#DIRS[@]} -eq 0 ] && DIRS=(seeded/*/ mutants/fire/*.diff)
bad=0
for d in "${DIRS[@]}"; do
  if [ -d "$d" ]; then P=$(readlink -f "$d/patch.diff"); ID=$(python3 -c "import json;print(json.load(open('$d/meta.json'))['property'])"); NAME=$(basename "$d")
  else P=$(readlink -f "$d"); NAME=$(basename "$d" .diff); ID=${NAME%%-*}; fi
  git -C $REPO diff --quiet || { echo "$REPO dirty"; exit 2; }
  git -C $REPO apply "$P" || { echo "NOAPPLY $NAME"; bad=1; continue; }
  out=$(./check "$ID" 2>&1)
  git -C $REPO checkout -- . ; git -C $REPO clean -fdq -e target
  if echo "$out" | grep -q "^VIOLATION property=$ID"; then
    echo "caught  $NAME by $(echo "$out" | grep 'violated:' | sed 's/.*key=//' | tr '\n' ' ' | cut -c1-150)"
  else
    echo "MISSED  $NAME: $(echo "$out" | tail -1 | cut -c1-200)"; bad=1
  fi
done
exit $bad
