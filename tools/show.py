#!/usr/bin/env python3
"""Diagnostic: pretty-print the MIR facts of bodies whose path contains a substring."""
import sys, os
sys.path.insert(0, os.path.join(os.path.dirname(os.path.abspath(__file__)), ".."))
from rules import core
cfg = os.environ.get("CFG", "all")
p = core.load_program(cfg)
pat = sys.argv[1] if len(sys.argv) > 1 else ""
if len(sys.argv) > 2 and sys.argv[2] == "-l":
    for k in sorted(p.bodies):
        if pat in k: print(k, p.bodies[k].where())
else:
    for k in sorted(p.bodies):
        if pat in k:
            core.dump_body(p.bodies[k]); print()
