#!/bin/bash
# usage: try_seed.sh <patch.diff> <ID> [<ID>...]   — apply a seeded change to /repo, run the checks, undo it.
set -u
P=$(readlink -f "$1"); shift
cd /repo || exit 2
git diff --quiet || { echo "/repo has local changes; refusing"; exit 2; }
git apply "$P" || { echo "patch does not apply"; exit 2; }
trap 'git -C /repo checkout -- . ; git -C /repo clean -fdq -e target' EXIT
cd /verif
for id in "$@"; do
  echo "=== $id"
  ./check "$id" 2>&1 | grep -E "violated:|VIOLATION|^OK|TOOL-FAILURE|KNOWN" | cut -c1-260
done
