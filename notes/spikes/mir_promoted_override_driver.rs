#![feature(rustc_private)]
extern crate rustc_driver;
extern crate rustc_hir;
extern crate rustc_interface;
extern crate rustc_middle;
extern crate rustc_session;
extern crate rustc_span;
extern crate rustc_data_structures;
extern crate rustc_index;

use rustc_driver::{Callbacks, Compilation};
use rustc_hir::def_id::LocalDefId;
use rustc_interface::interface::{Compiler, Config};
use rustc_middle::mir::{self, TerminatorKind};
use rustc_middle::ty::{self, TyCtxt};
use rustc_middle::util::Providers;
use std::sync::Mutex;

static OUT: Mutex<Vec<String>> = Mutex::new(Vec::new());

struct Cb;

fn analyse<'tcx>(tcx: TyCtxt<'tcx>, def: LocalDefId, body: &mir::Body<'tcx>) {
    let name = tcx.def_path_str(def.to_def_id());
    let mut out: Vec<String> = Vec::new();
    out.push(format!("FN {name} blocks={}", body.basic_blocks.len()));
    let doms = body.basic_blocks.dominators();
    let _ = doms;
    for (bb, data) in body.basic_blocks.iter_enumerated() {
        if let Some(term) = &data.terminator {
            match &term.kind {
                TerminatorKind::Call { func, .. } => {
                    if let Some((did, args)) = func.const_fn_def() {
                        let typing_env = ty::TypingEnv::post_analysis(tcx, def.to_def_id());
                        let resolved = ty::Instance::try_resolve(tcx, typing_env, did, args)
                            .ok()
                            .flatten()
                            .map(|i| tcx.def_path_str(i.def_id()))
                            .unwrap_or_else(|| "?".into());
                        out.push(format!(
                            "  {:?} CALL {} => {} @ {:?}",
                            bb,
                            tcx.def_path_str_with_args(did, args),
                            resolved,
                            term.source_info.span
                        ));
                    } else {
                        out.push(format!("  {:?} CALL <indirect> {:?}", bb, func));
                    }
                }
                TerminatorKind::Yield { .. } => out.push(format!("  {:?} YIELD", bb)),
                TerminatorKind::Assert { msg, .. } => {
                    out.push(format!("  {:?} ASSERT {:?}", bb, msg))
                }
                _ => {}
            }
        }
    }
    OUT.lock().unwrap().extend(out);
}


fn my_mir_promoted<'tcx>(
    tcx: TyCtxt<'tcx>,
    def: LocalDefId,
) -> (
    &'tcx rustc_data_structures::steal::Steal<mir::Body<'tcx>>,
    &'tcx rustc_data_structures::steal::Steal<rustc_index::IndexVec<mir::Promoted, mir::Body<'tcx>>>,
) {
    let r = (rustc_interface::passes::DEFAULT_QUERY_PROVIDERS.queries.mir_promoted)(tcx, def);
    {
        let body = r.0.borrow();
        analyse(tcx, def, &body);
    }
    r
}

impl Callbacks for Cb {
    fn config(&mut self, config: &mut Config) {
        config.override_queries = Some(|_sess, providers: &mut Providers| {
            providers.queries.mir_promoted = my_mir_promoted;
        });
    }
    fn after_analysis<'tcx>(&mut self, _c: &Compiler, tcx: TyCtxt<'tcx>) -> Compilation {
        for def in tcx.hir_body_owners() {
            let kind = tcx.def_kind(def);
            use rustc_hir::def::DefKind::*;
            if false && matches!(kind, Fn | AssocFn | Closure) {
                let (steal, _) = tcx.mir_promoted(def);
                if steal.is_stolen() {
                    OUT.lock().unwrap().push(format!("STOLEN {}", tcx.def_path_str(def.to_def_id())));
                    continue;
                }
                let body = steal.borrow();
                analyse(tcx, def, &body);
            }
        }
        let krate = tcx.crate_name(rustc_hir::def_id::LOCAL_CRATE);
        let out = OUT.lock().unwrap();
        if let Ok(dir) = std::env::var("SPIKE_OUT") {
            std::fs::write(format!("{dir}/{krate}-{}.facts", std::process::id()), out.join("\n")).unwrap();
        }
        Compilation::Continue
    }
}

fn main() {
    let mut args: Vec<String> = std::env::args().collect();
    // RUSTC_WORKSPACE_WRAPPER: argv[1] is the real rustc path
    args.remove(1);
    rustc_driver::run_compiler(&args, &mut Cb);
}
