use syn::visit::Visit;
struct V(usize);
impl<'ast> Visit<'ast> for V {
    fn visit_item_enum(&mut self, i: &'ast syn::ItemEnum) {
        if i.ident == "Ident" { self.0 += 1; 
            let v: Vec<String> = i.variants.iter().map(|v| format!("{}={}", v.ident, v.discriminant.as_ref().map(|(_, e)| quote::quote!(#e).to_string()).unwrap_or_default())).collect();
            println!("{}", serde_json::json!(v));
        }
        syn::visit::visit_item_enum(self, i);
    }
}
fn main() {
    let src = std::fs::read_to_string(std::env::args().nth(1).unwrap()).unwrap();
    let f = syn::parse_file(&src).expect("parse");
    let mut v = V(0);
    v.visit_file(&f);
    println!("ident enums: {}", v.0);
}
