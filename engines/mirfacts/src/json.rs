//! Minimal JSON value + serializer (no dependencies).
use std::fmt::Write;

pub enum J {
    Null,
    Bool(bool),
    Num(i128),
    Str(String),
    Arr(Vec<J>),
    Obj(Vec<(String, J)>),
}

impl J {
    pub fn s(x: impl Into<String>) -> J {
        J::Str(x.into())
    }
    pub fn n(x: i128) -> J {
        J::Num(x)
    }
    pub fn obj(v: Vec<(&'static str, J)>) -> J {
        J::Obj(v.into_iter().map(|(k, v)| (k.to_string(), v)).collect())
    }
    pub fn to_string(&self) -> String {
        let mut s = String::new();
        self.write(&mut s);
        s
    }
    fn write(&self, out: &mut String) {
        match self {
            J::Null => out.push_str("null"),
            J::Bool(b) => out.push_str(if *b { "true" } else { "false" }),
            J::Num(n) => {
                let _ = write!(out, "{}", n);
            }
            J::Str(s) => esc(s, out),
            J::Arr(v) => {
                out.push('[');
                for (i, x) in v.iter().enumerate() {
                    if i > 0 {
                        out.push(',');
                    }
                    x.write(out);
                }
                out.push(']');
            }
            J::Obj(v) => {
                out.push('{');
                for (i, (k, x)) in v.iter().enumerate() {
                    if i > 0 {
                        out.push(',');
                    }
                    esc(k, out);
                    out.push(':');
                    x.write(out);
                }
                out.push('}');
            }
        }
    }
}

fn esc(s: &str, out: &mut String) {
    out.push('"');
    for c in s.chars() {
        match c {
            '"' => out.push_str("\\\""),
            '\\' => out.push_str("\\\\"),
            '\n' => out.push_str("\\n"),
            '\r' => out.push_str("\\r"),
            '\t' => out.push_str("\\t"),
            c if (c as u32) < 0x20 => {
                let _ = write!(out, "\\u{:04x}", c as u32);
            }
            c => out.push(c),
        }
    }
    out.push('"');
}
