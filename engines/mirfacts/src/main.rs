//! mirfacts — rustc_private driver that dumps the resolved program of every
//! workspace crate as JSON facts (MIR before borrowck, ADTs, impls, consts).
//!
//! Used as RUSTC_WORKSPACE_WRAPPER under `cargo +nightly check`. It never runs
//! any of the analysed code; it only reads what the compiler front-end built.
#![feature(rustc_private)]
#![allow(clippy::all)]

extern crate rustc_abi;
extern crate rustc_data_structures;
extern crate rustc_driver;
extern crate rustc_hir;
extern crate rustc_index;
extern crate rustc_interface;
extern crate rustc_middle;
extern crate rustc_session;
extern crate rustc_span;

mod json;
use json::J;

use rustc_driver::{Callbacks, Compilation};
use rustc_hir::def::DefKind;
use rustc_hir::def_id::{DefId, LocalDefId, LOCAL_CRATE};
use rustc_interface::interface::{Compiler, Config};
use rustc_middle::mir::{
    self, AggregateKind, AssertKind, BinOp, Body, Const, ConstValue, Operand, PlaceRef,
    ProjectionElem, Rvalue, StatementKind, TerminatorKind,
};
use rustc_middle::ty::{self, Ty, TyCtxt, TyKind};
use rustc_middle::util::Providers;
use rustc_span::Span;
use std::sync::Mutex;

static BODIES: Mutex<Vec<String>> = Mutex::new(Vec::new());

fn span_obj(tcx: TyCtxt<'_>, span: Span) -> J {
    let sm = tcx.sess.source_map();
    let src = span.source_callsite();
    let lo = sm.lookup_char_pos(src.lo());
    let hi = sm.lookup_char_pos(src.hi());
    let file = match &lo.file.name {
        rustc_span::FileName::Real(r) => match r.local_path() {
            Some(p) => p.to_string_lossy().to_string(),
            None => format!("{:?}", lo.file.name),
        },
        other => format!("{:?}", other),
    };
    J::obj(vec![
        ("file", J::s(file)),
        ("line", J::n(lo.line as i128)),
        ("col", J::n(lo.col.0 as i128 + 1)),
        ("end_line", J::n(hi.line as i128)),
        ("exp", J::Bool(span.from_expansion())),
    ])
}

fn line_of(tcx: TyCtxt<'_>, span: Span) -> i128 {
    let sm = tcx.sess.source_map();
    sm.lookup_char_pos(span.source_callsite().lo()).line as i128
}

fn ty_str<'tcx>(ty: Ty<'tcx>) -> String {
    ty::print::with_no_trimmed_paths!(format!("{}", ty))
}

fn def_path(tcx: TyCtxt<'_>, did: DefId) -> String {
    ty::print::with_no_trimmed_paths!(tcx.def_path_str(did))
}

/// Canonical, crate-independent identity of a definition (real module path, impl blocks numbered).
fn def_id_str(tcx: TyCtxt<'_>, did: DefId) -> String {
    format!("{}{}", tcx.crate_name(did.krate), tcx.def_path(did).to_string_no_crate_verbose())
}

/// ADT def path if the (peeled) type is an ADT.
fn ty_adt<'tcx>(tcx: TyCtxt<'tcx>, ty: Ty<'tcx>) -> Option<String> {
    match ty.peel_refs().kind() {
        TyKind::Adt(adt, _) => Some(def_path(tcx, adt.did())),
        _ => None,
    }
}

fn place_json<'tcx>(tcx: TyCtxt<'tcx>, body: &Body<'tcx>, place: PlaceRef<'tcx>) -> J {
    let mut proj: Vec<J> = Vec::new();
    let mut s = format!("_{}", place.local.as_usize());
    for (base, elem) in place.iter_projections() {
        let base_ty = base.ty(&body.local_decls, tcx);
        match elem {
            ProjectionElem::Deref => {
                proj.push(J::obj(vec![("k", J::s("deref"))]));
                s = format!("(*{})", s);
            }
            ProjectionElem::Field(f, fty) => {
                let idx = f.as_usize();
                let name = match base_ty.ty.kind() {
                    TyKind::Adt(adt, _) => {
                        let v = base_ty.variant_index.unwrap_or(rustc_abi::FIRST_VARIANT);
                        if adt.is_enum() || adt.is_struct() || adt.is_union() {
                            adt.variant(v)
                                .fields
                                .get(f)
                                .map(|fd| fd.name.to_string())
                                .unwrap_or_else(|| idx.to_string())
                        } else {
                            idx.to_string()
                        }
                    }
                    _ => idx.to_string(),
                };
                let mut o = vec![
                    ("k", J::s("field")),
                    ("i", J::n(idx as i128)),
                    ("name", J::s(name.clone())),
                    ("ty", J::s(ty_str(fty))),
                ];
                if let TyKind::Adt(adt, _) = base_ty.ty.kind() {
                    o.push(("adt", J::s(def_path(tcx, adt.did()))));
                }
                proj.push(J::obj(o));
                s = format!("{}.{}", s, name);
            }
            ProjectionElem::Index(l) => {
                proj.push(J::obj(vec![("k", J::s("index")), ("l", J::n(l.as_usize() as i128))]));
                s = format!("{}[_{}]", s, l.as_usize());
            }
            ProjectionElem::ConstantIndex { offset, min_length, from_end } => {
                proj.push(J::obj(vec![
                    ("k", J::s("cindex")),
                    ("offset", J::n(offset as i128)),
                    ("min_length", J::n(min_length as i128)),
                    ("from_end", J::Bool(from_end)),
                ]));
                s = format!("{}[{}{}]", s, if from_end { "-" } else { "" }, offset);
            }
            ProjectionElem::Subslice { from, to, from_end } => {
                proj.push(J::obj(vec![
                    ("k", J::s("subslice")),
                    ("from", J::n(from as i128)),
                    ("to", J::n(to as i128)),
                    ("from_end", J::Bool(from_end)),
                ]));
                s = format!("{}[{}..{}{}]", s, from, if from_end { "-" } else { "" }, to);
            }
            ProjectionElem::Downcast(name, v) => {
                let vname = match name {
                    Some(n) => n.to_string(),
                    None => match base_ty.ty.kind() {
                        TyKind::Adt(adt, _) if adt.is_enum() => adt.variant(v).name.to_string(),
                        _ => v.as_usize().to_string(),
                    },
                };
                proj.push(J::obj(vec![
                    ("k", J::s("downcast")),
                    ("variant", J::s(vname.clone())),
                    ("vi", J::n(v.as_usize() as i128)),
                ]));
                s = format!("({} as {})", s, vname);
            }
            ProjectionElem::OpaqueCast(_) => {
                proj.push(J::obj(vec![("k", J::s("opaque"))]));
            }
            ProjectionElem::UnwrapUnsafeBinder(_) => {
                proj.push(J::obj(vec![("k", J::s("unwrap_binder"))]));
            }
        }
    }
    J::obj(vec![
        ("l", J::n(place.local.as_usize() as i128)),
        ("p", J::Arr(proj)),
        ("s", J::s(s)),
    ])
}

fn bytes_of_slice_const<'tcx>(
    tcx: TyCtxt<'tcx>,
    val: ConstValue,
    elem_size: u64,
) -> Option<Vec<u8>> {
    use rustc_middle::mir::interpret::alloc_range;
    let (alloc_id, start, len) = match val {
        ConstValue::Scalar(_) | ConstValue::ZeroSized => return None,
        ConstValue::Slice { alloc_id, meta } => (alloc_id, 0u64, meta),
        ConstValue::Indirect { alloc_id, offset } => {
            let a = tcx.global_alloc(alloc_id).unwrap_memory().inner();
            let ptr_size = tcx.data_layout.pointer_size();
            if a.size() < offset + ptr_size + ptr_size {
                return None;
            }
            let ptr = a.read_scalar(&tcx, alloc_range(offset, ptr_size), true).ok()?;
            let ptr = ptr.to_pointer(&tcx).discard_err()?;
            let len = a.read_scalar(&tcx, alloc_range(offset + ptr_size, ptr_size), false).ok()?;
            let len = len.to_target_usize(&tcx).discard_err()?;
            if len == 0 {
                return Some(vec![]);
            }
            let (prov, off) = ptr.into_pointer_or_addr().ok()?.prov_and_relative_offset();
            (prov.alloc_id(), off.bytes(), len)
        }
    };
    let data = match tcx.global_alloc(alloc_id) {
        rustc_middle::mir::interpret::GlobalAlloc::Memory(m) => m,
        _ => return None,
    };
    let start: usize = start.try_into().ok()?;
    let end = start + usize::try_from(len.checked_mul(elem_size)?).ok()?;
    if end > data.inner().len() {
        return None;
    }
    Some(data.inner().inspect_with_uninit_and_ptr_outside_interpreter(start..end).to_vec())
}

fn int_elem_size(ty: Ty<'_>) -> Option<(u64, bool)> {
    match ty.kind() {
        TyKind::Uint(u) => Some((u.bit_width().unwrap_or(64) / 8, false)),
        TyKind::Int(i) => Some((i.bit_width().unwrap_or(64) / 8, true)),
        TyKind::Bool => Some((1, false)),
        _ => None,
    }
}

fn decode_ints(bytes: &[u8], size: u64) -> Vec<J> {
    bytes
        .chunks(size as usize)
        .map(|c| {
            let mut v: u128 = 0;
            for (i, b) in c.iter().enumerate() {
                v |= (*b as u128) << (8 * i);
            }
            J::n(v as i128)
        })
        .collect()
}

/// Render an evaluated constant value of type `ty` as JSON fields (appended to `o`).
fn const_value_fields<'tcx>(tcx: TyCtxt<'tcx>, val: ConstValue, ty: Ty<'tcx>, o: &mut Vec<(&'static str, J)>) {
    if let Some(si) = val.try_to_scalar_int() {
        let bits = si.to_bits(si.size());
        o.push(("bits", J::s(bits.to_string())));
        o.push(("size", J::n(si.size().bytes() as i128)));
        return;
    }
    match ty.kind() {
        TyKind::Ref(_, inner, _) => match inner.kind() {
            TyKind::Str => {
                if let Some(b) = bytes_of_slice_const(tcx, val, 1) {
                    o.push(("str", J::s(String::from_utf8_lossy(&b).to_string())));
                }
            }
            TyKind::Slice(el) => {
                if let Some((sz, _)) = int_elem_size(*el) {
                    if let Some(b) = bytes_of_slice_const(tcx, val, sz) {
                        if sz == 1 {
                            o.push(("bytes", J::Arr(b.iter().map(|x| J::n(*x as i128)).collect())));
                        } else {
                            o.push(("ints", J::Arr(decode_ints(&b, sz))));
                        }
                    }
                }
            }
            TyKind::Array(el, _) => {
                // &[T; N]: scalar pointer to an allocation.
                if let Some((sz, _)) = int_elem_size(*el) {
                    if let ConstValue::Scalar(sc) = val {
                        if let Some(ptr) = sc.to_pointer(&tcx).discard_err() {
                            if let Ok(p) = ptr.into_pointer_or_addr() {
                                let (prov, off) = p.prov_and_relative_offset();
                                if let rustc_middle::mir::interpret::GlobalAlloc::Memory(m) =
                                    tcx.global_alloc(prov.alloc_id())
                                {
                                    let start = off.bytes() as usize;
                                    let all = m.inner().len();
                                    if start <= all {
                                        let b = m
                                            .inner()
                                            .inspect_with_uninit_and_ptr_outside_interpreter(start..all);
                                        if sz == 1 {
                                            o.push(("bytes", J::Arr(b.iter().map(|x| J::n(*x as i128)).collect())));
                                        } else {
                                            o.push(("ints", J::Arr(decode_ints(b, sz))));
                                        }
                                    }
                                }
                            }
                        }
                    }
                }
            }
            _ => {}
        },
        TyKind::Array(el, _) => {
            if let Some((sz, _)) = int_elem_size(*el) {
                if let ConstValue::Indirect { alloc_id, offset } = val {
                    if let rustc_middle::mir::interpret::GlobalAlloc::Memory(m) = tcx.global_alloc(alloc_id) {
                        let start = offset.bytes() as usize;
                        let all = m.inner().len();
                        let b = m.inner().inspect_with_uninit_and_ptr_outside_interpreter(start..all);
                        if sz == 1 {
                            o.push(("bytes", J::Arr(b.iter().map(|x| J::n(*x as i128)).collect())));
                        } else {
                            o.push(("ints", J::Arr(decode_ints(b, sz))));
                        }
                    }
                }
            }
        }
        _ => {}
    }
}

fn const_json<'tcx>(tcx: TyCtxt<'tcx>, owner: DefId, c: &mir::ConstOperand<'tcx>) -> J {
    let ty = c.const_.ty();
    let mut o: Vec<(&'static str, J)> = vec![
        ("k", J::s("const")),
        ("ty", J::s(ty_str(ty))),
        ("s", J::s(ty::print::with_no_trimmed_paths!(format!("{}", c)))),
    ];
    if let TyKind::FnDef(did, args) = ty.kind() {
        o.push(("fn", J::s(def_path(tcx, *did))));
        o.push(("fn_full", J::s(ty::print::with_no_trimmed_paths!(tcx.def_path_str_with_args(*did, args)))));
    }
    match c.const_ {
        Const::Unevaluated(uv, _) => {
            o.push(("uneval", J::s(ty::print::with_no_trimmed_paths!(tcx.def_path_str_with_args(uv.def, uv.args)))));
            o.push(("uneval_def", J::s(def_path(tcx, uv.def))));
            if let Some(p) = uv.promoted {
                o.push(("promoted", J::n(p.as_usize() as i128)));
            }
        }
        Const::Ty(_, ct) => {
            o.push(("tyconst", J::s(format!("{}", ct))));
        }
        Const::Val(..) => {}
    }
    // Try to evaluate (never for promoteds of the body under construction: cycle).
    let promoted = matches!(c.const_, Const::Unevaluated(uv, _) if uv.promoted.is_some());
    if !promoted && !matches!(ty.kind(), TyKind::FnDef(..)) {
        let typing_env = ty::TypingEnv::post_analysis(tcx, owner);
        let val = match c.const_ {
            Const::Val(v, _) => Some(v),
            Const::Unevaluated(..) => {
                if c.const_.ty().is_primitive() || matches!(ty.kind(), TyKind::Ref(..)) {
                    c.const_.eval(tcx, typing_env, c.span).ok()
                } else {
                    None
                }
            }
            Const::Ty(..) => c.const_.eval(tcx, typing_env, c.span).ok(),
        };
        if let Some(v) = val {
            const_value_fields(tcx, v, ty, &mut o);
        }
    }
    J::obj(o)
}

fn operand_json<'tcx>(tcx: TyCtxt<'tcx>, owner: DefId, body: &Body<'tcx>, op: &Operand<'tcx>) -> J {
    match op {
        Operand::Copy(p) => J::obj(vec![("k", J::s("copy")), ("place", place_json(tcx, body, p.as_ref()))]),
        Operand::Move(p) => J::obj(vec![("k", J::s("move")), ("place", place_json(tcx, body, p.as_ref()))]),
        Operand::Constant(c) => const_json(tcx, owner, c),
        #[allow(unreachable_patterns)]
        other => J::obj(vec![("k", J::s("other")), ("s", J::s(format!("{:?}", other)))]),
    }
}

fn binop_name(op: BinOp) -> String {
    format!("{:?}", op)
}

fn rvalue_json<'tcx>(tcx: TyCtxt<'tcx>, owner: DefId, body: &Body<'tcx>, rv: &Rvalue<'tcx>) -> J {
    let opj = |o: &Operand<'tcx>| operand_json(tcx, owner, body, o);
    match rv {
        Rvalue::Use(o, ..) => J::obj(vec![("k", J::s("use")), ("op", opj(o))]),
        Rvalue::Repeat(o, n) => J::obj(vec![("k", J::s("repeat")), ("op", opj(o)), ("n", J::s(format!("{}", n)))]),
        Rvalue::Ref(_, bk, p) => J::obj(vec![
            ("k", J::s("ref")),
            ("mut", J::Bool(matches!(bk, mir::BorrowKind::Mut { .. }))),
            ("place", place_json(tcx, body, p.as_ref())),
        ]),
        Rvalue::RawPtr(kind, p) => J::obj(vec![
            ("k", J::s("rawptr")),
            ("mut", J::Bool(format!("{:?}", kind).contains("Mut"))),
            ("place", place_json(tcx, body, p.as_ref())),
        ]),
        Rvalue::Cast(ck, o, ty) => J::obj(vec![
            ("k", J::s("cast")),
            ("ck", J::s(format!("{:?}", ck))),
            ("op", opj(o)),
            ("ty", J::s(ty_str(*ty))),
        ]),
        Rvalue::BinaryOp(op, ab) => J::obj(vec![
            ("k", J::s("binop")),
            ("op", J::s(binop_name(*op))),
            ("a", opj(&ab.0)),
            ("b", opj(&ab.1)),
        ]),
        Rvalue::UnaryOp(op, a) => J::obj(vec![("k", J::s("unop")), ("op", J::s(format!("{:?}", op))), ("a", opj(a))]),
        Rvalue::Discriminant(p) => {
            let mut o: Vec<(&'static str, J)> = vec![("k", J::s("discr")), ("place", place_json(tcx, body, p.as_ref()))];
            let pty = p.ty(&body.local_decls, tcx).ty;
            if let TyKind::Adt(adt, _) = pty.peel_refs().kind() {
                o.push(("adt", J::s(def_path(tcx, adt.did()))));
                if adt.is_enum() {
                    o.push(("variants", J::Arr(adt.variants().iter().map(|v| J::s(v.name.to_string())).collect())));
                }
            }
            J::obj(o)
        }
        Rvalue::Aggregate(kind, ops) => {
            let mut o: Vec<(&'static str, J)> = vec![("k", J::s("agg"))];
            match &**kind {
                AggregateKind::Array(t) => {
                    o.push(("ak", J::s("array")));
                    o.push(("ty", J::s(ty_str(*t))));
                }
                AggregateKind::Tuple => o.push(("ak", J::s("tuple"))),
                AggregateKind::Adt(did, vi, _args, _, active) => {
                    o.push(("ak", J::s("adt")));
                    o.push(("adt", J::s(def_path(tcx, *did))));
                    let adt = tcx.adt_def(*did);
                    let v = adt.variant(*vi);
                    o.push(("variant", J::s(v.name.to_string())));
                    o.push(("vi", J::n(vi.as_usize() as i128)));
                    let names: Vec<J> = match active {
                        Some(f) => vec![J::s(v.fields[*f].name.to_string())],
                        None => v.fields.iter().map(|f| J::s(f.name.to_string())).collect(),
                    };
                    o.push(("fields", J::Arr(names)));
                }
                AggregateKind::Closure(did, _) => {
                    o.push(("ak", J::s("closure")));
                    o.push(("def", J::s(def_path(tcx, *did))));
                    o.push(("def_id", J::s(def_id_str(tcx, *did))));
                }
                AggregateKind::Coroutine(did, _) => {
                    o.push(("ak", J::s("coroutine")));
                    o.push(("def", J::s(def_path(tcx, *did))));
                    o.push(("def_id", J::s(def_id_str(tcx, *did))));
                }
                AggregateKind::CoroutineClosure(did, _) => {
                    o.push(("ak", J::s("coroutine_closure")));
                    o.push(("def", J::s(def_path(tcx, *did))));
                }
                AggregateKind::RawPtr(..) => o.push(("ak", J::s("rawptr"))),
            }
            o.push(("ops", J::Arr(ops.iter().map(|x| opj(x)).collect())));
            J::obj(o)
        }
        Rvalue::CopyForDeref(p) => J::obj(vec![("k", J::s("copyforderef")), ("place", place_json(tcx, body, p.as_ref()))]),
        Rvalue::ThreadLocalRef(d) => J::obj(vec![("k", J::s("tls")), ("def", J::s(def_path(tcx, *d)))]),
        #[allow(unreachable_patterns)]
        other => J::obj(vec![("k", J::s("other")), ("s", J::s(format!("{:?}", other)))]),
    }
}

fn impl_info<'tcx>(tcx: TyCtxt<'tcx>, impl_did: DefId) -> J {
    let mut o: Vec<(&'static str, J)> = vec![("def", J::s(def_path(tcx, impl_did)))];
    let self_ty = tcx.type_of(impl_did).instantiate_identity().skip_norm_wip();
    o.push(("self_ty", J::s(ty_str(self_ty))));
    if let Some(a) = ty_adt(tcx, self_ty) {
        o.push(("self_adt", J::s(a)));
    }
    if let TyKind::Adt(ad, _) = self_ty.peel_refs().kind() {
        o.push(("self_adt_id", J::s(def_id_str(tcx, ad.did()))));
    }
    if tcx.impl_opt_trait_ref(impl_did).is_some() {
        let tr = tcx.impl_trait_ref(impl_did).instantiate_identity().skip_norm_wip();
        o.push(("trait", J::s(def_path(tcx, tr.def_id))));
        o.push(("trait_full", J::s(ty::print::with_no_trimmed_paths!(format!("{}", tr)))));
    } else {
        o.push(("trait", J::Null));
    }
    o.push(("derived", J::Bool(tcx.is_automatically_derived(impl_did))));
    J::obj(o)
}

/// Information about the item a (resolved) callee def id denotes.
fn item_container<'tcx>(tcx: TyCtxt<'tcx>, did: DefId) -> J {
    let mut o: Vec<(&'static str, J)> = vec![];
    let dk = tcx.def_kind(did);
    o.push(("def_kind", J::s(format!("{:?}", dk))));
    o.push(("crate", J::s(tcx.crate_name(did.krate).to_string())));
    if matches!(dk, DefKind::AssocFn | DefKind::AssocConst { .. } | DefKind::AssocTy) {
        let parent = tcx.parent(did);
        match tcx.def_kind(parent) {
            DefKind::Impl { of_trait } => {
                o.push(("container", J::s(if of_trait { "trait_impl" } else { "inherent_impl" })));
                o.push(("impl", impl_info(tcx, parent)));
            }
            DefKind::Trait => {
                o.push(("container", J::s("trait")));
                o.push(("trait", J::s(def_path(tcx, parent))));
            }
            _ => {}
        }
    }
    J::obj(o)
}

fn assert_json<'tcx>(tcx: TyCtxt<'tcx>, owner: DefId, body: &Body<'tcx>, msg: &AssertKind<Operand<'tcx>>) -> J {
    let opj = |o: &Operand<'tcx>| operand_json(tcx, owner, body, o);
    match msg {
        AssertKind::BoundsCheck { len, index } => {
            J::obj(vec![("kind", J::s("BoundsCheck")), ("len", opj(len)), ("index", opj(index))])
        }
        AssertKind::Overflow(op, a, b) => J::obj(vec![
            ("kind", J::s("Overflow")),
            ("op", J::s(binop_name(*op))),
            ("a", opj(a)),
            ("b", opj(b)),
        ]),
        AssertKind::OverflowNeg(a) => J::obj(vec![("kind", J::s("OverflowNeg")), ("a", opj(a))]),
        AssertKind::DivisionByZero(a) => J::obj(vec![("kind", J::s("DivisionByZero")), ("a", opj(a))]),
        AssertKind::RemainderByZero(a) => J::obj(vec![("kind", J::s("RemainderByZero")), ("a", opj(a))]),
        AssertKind::ResumedAfterReturn(_) => J::obj(vec![("kind", J::s("ResumedAfterReturn"))]),
        AssertKind::ResumedAfterPanic(_) => J::obj(vec![("kind", J::s("ResumedAfterPanic"))]),
        AssertKind::ResumedAfterDrop(_) => J::obj(vec![("kind", J::s("ResumedAfterDrop"))]),
        AssertKind::MisalignedPointerDereference { .. } => J::obj(vec![("kind", J::s("Misaligned"))]),
        AssertKind::NullPointerDereference => J::obj(vec![("kind", J::s("NullDeref"))]),
        #[allow(unreachable_patterns)]
        _ => J::obj(vec![("kind", J::s("Other"))]),
    }
}

fn bb(b: mir::BasicBlock) -> J {
    J::n(b.as_usize() as i128)
}

fn unwind_json(u: &mir::UnwindAction) -> J {
    match u {
        mir::UnwindAction::Cleanup(b) => bb(*b),
        _ => J::Null,
    }
}

fn terminator_json<'tcx>(tcx: TyCtxt<'tcx>, owner: LocalDefId, body: &Body<'tcx>, term: &mir::Terminator<'tcx>) -> J {
    let odid = owner.to_def_id();
    let opj = |o: &Operand<'tcx>| operand_json(tcx, odid, body, o);
    let line = line_of(tcx, term.source_info.span);
    let mut o: Vec<(&'static str, J)> = vec![];
    match &term.kind {
        TerminatorKind::Goto { target } => {
            o.push(("k", J::s("goto")));
            o.push(("t", bb(*target)));
        }
        TerminatorKind::SwitchInt { discr, targets } => {
            o.push(("k", J::s("switch")));
            o.push(("op", opj(discr)));
            let ts: Vec<J> = targets.iter().map(|(v, t)| J::Arr(vec![J::s(v.to_string()), bb(t)])).collect();
            o.push(("targets", J::Arr(ts)));
            o.push(("otherwise", bb(targets.otherwise())));
        }
        TerminatorKind::UnwindResume => o.push(("k", J::s("resume"))),
        TerminatorKind::UnwindTerminate(_) => o.push(("k", J::s("terminate"))),
        TerminatorKind::Return => o.push(("k", J::s("return"))),
        TerminatorKind::Unreachable => o.push(("k", J::s("unreachable"))),
        TerminatorKind::Drop { place, target, unwind, .. } => {
            o.push(("k", J::s("drop")));
            o.push(("place", place_json(tcx, body, place.as_ref())));
            o.push(("t", bb(*target)));
            o.push(("unwind", unwind_json(unwind)));
        }
        TerminatorKind::Call { func, args, destination, target, unwind, .. } => {
            o.push(("k", J::s("call")));
            o.push(("func", opj(func)));
            if let Some((did, gargs)) = func.const_fn_def() {
                o.push(("callee", J::s(def_path(tcx, did))));
                o.push(("callee_id", J::s(def_id_str(tcx, did))));
                o.push(("callee_full", J::s(ty::print::with_no_trimmed_paths!(tcx.def_path_str_with_args(did, gargs)))));
                o.push(("callee_item", item_container(tcx, did)));
                let gs: Vec<J> = gargs.iter().map(|a| J::s(ty::print::with_no_trimmed_paths!(format!("{}", a)))).collect();
                o.push(("gargs", J::Arr(gs)));
                // canonical ids of the ADTs mentioned in the generic arguments (pretty names can collide)
                let mut ga: Vec<String> = vec![];
                for a in gargs.iter() {
                    for t in a.walk() {
                        if let Some(t) = t.as_type() {
                            if let TyKind::Adt(ad, _) = t.kind() {
                                ga.push(def_id_str(tcx, ad.did()));
                            }
                        }
                    }
                }
                o.push(("garg_adt_ids", J::Arr(ga.into_iter().map(J::s).collect())));
                let typing_env = ty::TypingEnv::post_analysis(tcx, odid);
                match ty::Instance::try_resolve(tcx, typing_env, did, gargs) {
                    Ok(Some(inst)) => {
                        let rd = inst.def_id();
                        o.push(("resolved", J::s(def_path(tcx, rd))));
                        o.push(("resolved_id", J::s(def_id_str(tcx, rd))));
                        o.push(("resolved_full", J::s(ty::print::with_no_trimmed_paths!(tcx.def_path_str_with_args(rd, inst.args)))));
                        o.push(("resolved_item", item_container(tcx, rd)));
                        o.push(("resolved_kind", J::s(match inst.def {
                            ty::InstanceKind::Item(_) => "item",
                            ty::InstanceKind::Virtual(..) => "virtual",
                            ty::InstanceKind::Intrinsic(_) => "intrinsic",
                            ty::InstanceKind::ClosureOnceShim { .. } => "closure_once_shim",
                            ty::InstanceKind::FnPtrShim(..) => "fnptr_shim",
                            ty::InstanceKind::DropGlue(..) => "drop_glue",
                            ty::InstanceKind::CloneShim(..) => "clone_shim",
                            _ => "other",
                        })));
                    }
                    _ => {
                        o.push(("resolved", J::Null));
                    }
                }
            }
            o.push(("args", J::Arr(args.iter().map(|a| opj(&a.node)).collect())));
            o.push(("dest", place_json(tcx, body, destination.as_ref())));
            o.push(("t", target.map(bb).unwrap_or(J::Null)));
            o.push(("unwind", unwind_json(unwind)));
        }
        TerminatorKind::TailCall { func, args, .. } => {
            o.push(("k", J::s("tailcall")));
            o.push(("func", opj(func)));
            o.push(("args", J::Arr(args.iter().map(|a| opj(&a.node)).collect())));
        }
        TerminatorKind::Assert { cond, expected, msg, target, unwind } => {
            o.push(("k", J::s("assert")));
            o.push(("cond", opj(cond)));
            o.push(("expected", J::Bool(*expected)));
            o.push(("msg", assert_json(tcx, odid, body, msg)));
            o.push(("t", bb(*target)));
            o.push(("unwind", unwind_json(unwind)));
        }
        TerminatorKind::Yield { value, resume, resume_arg, drop } => {
            o.push(("k", J::s("yield")));
            o.push(("value", opj(value)));
            o.push(("t", bb(*resume)));
            o.push(("resume_arg", place_json(tcx, body, resume_arg.as_ref())));
            o.push(("drop", drop.map(bb).unwrap_or(J::Null)));
        }
        TerminatorKind::CoroutineDrop => o.push(("k", J::s("coroutine_drop"))),
        TerminatorKind::FalseEdge { real_target, imaginary_target } => {
            o.push(("k", J::s("falseedge")));
            o.push(("t", bb(*real_target)));
            o.push(("imaginary", bb(*imaginary_target)));
        }
        TerminatorKind::FalseUnwind { real_target, unwind } => {
            o.push(("k", J::s("falseunwind")));
            o.push(("t", bb(*real_target)));
            o.push(("unwind", unwind_json(unwind)));
        }
        TerminatorKind::InlineAsm { .. } => o.push(("k", J::s("asm"))),
    }
    o.push(("line", J::n(line)));
    o.push(("exp", J::Bool(term.source_info.span.from_expansion())));
    J::obj(o)
}

fn body_json<'tcx>(tcx: TyCtxt<'tcx>, def: LocalDefId, body: &Body<'tcx>) -> J {
    let did = def.to_def_id();
    let dk = tcx.def_kind(did);
    let mut o: Vec<(&'static str, J)> = vec![
        ("path", J::s(def_path(tcx, did))),
        ("id", J::s(def_id_str(tcx, did))),
        ("crate", J::s(tcx.crate_name(LOCAL_CRATE).to_string())),
        ("def_kind", J::s(format!("{:?}", dk))),
        ("span", span_obj(tcx, body.span)),
        ("arg_count", J::n(body.arg_count as i128)),
    ];
    if matches!(dk, DefKind::Fn | DefKind::AssocFn) {
        o.push(("vis", J::s(format!("{:?}", tcx.visibility(did)))));
        o.push(("is_pub", J::Bool(tcx.visibility(did).is_public())));
        o.push(("asyncness", J::Bool(tcx.asyncness(did).is_async())));
    }
    if matches!(dk, DefKind::Fn | DefKind::AssocFn) {
        // generic parameter names in the order of a call's generic arguments (parent/impl parameters first)
        let mut names: Vec<J> = Vec::new();
        let mut chain = Vec::new();
        let mut g = tcx.generics_of(did);
        loop {
            chain.push(g);
            match g.parent {
                Some(p) => g = tcx.generics_of(p),
                None => break,
            }
        }
        for g in chain.iter().rev() {
            for p in g.own_params.iter() {
                names.push(J::s(p.name.to_string()));
            }
        }
        o.push(("generics", J::Arr(names)));
    }
    if let Some(ck) = tcx.coroutine_kind(did) {
        o.push(("coroutine_kind", J::s(format!("{:?}", ck))));
    }
    // parent chain (closures -> enclosing fn)
    let tr = tcx.typeck_root_def_id(did);
    o.push(("root", J::s(def_path(tcx, tr))));
    if matches!(tcx.def_kind(tr), DefKind::AssocFn | DefKind::AssocConst { .. }) {
        o.push(("root_item", item_container(tcx, tr)));
    }
    if did != tr {
        o.push(("parent", J::s(def_path(tcx, tcx.parent(did)))));
    }
    // locals
    let mut names: Vec<Option<String>> = vec![None; body.local_decls.len()];
    for vdi in &body.var_debug_info {
        if let mir::VarDebugInfoContents::Place(p) = &vdi.value {
            if p.projection.is_empty() {
                names[p.local.as_usize()] = Some(vdi.name.to_string());
            }
        }
    }
    let mut upvars: Vec<J> = vec![];
    for vdi in &body.var_debug_info {
        if let mir::VarDebugInfoContents::Place(p) = &vdi.value {
            if !p.projection.is_empty() {
                upvars.push(J::obj(vec![
                    ("name", J::s(vdi.name.to_string())),
                    ("place", place_json(tcx, body, p.as_ref())),
                ]));
            }
        }
    }
    o.push(("debug_places", J::Arr(upvars)));
    let locals: Vec<J> = body
        .local_decls
        .iter_enumerated()
        .map(|(l, d)| {
            let mut lo: Vec<(&'static str, J)> = vec![("ty", J::s(ty_str(d.ty)))];
            if let Some(n) = &names[l.as_usize()] {
                lo.push(("name", J::s(n.clone())));
            }
            if let Some(a) = ty_adt(tcx, d.ty) {
                lo.push(("adt", J::s(a)));
            }
            lo.push(("user", J::Bool(d.is_user_variable())));
            J::obj(lo)
        })
        .collect();
    o.push(("locals", J::Arr(locals)));
    // blocks
    let mut blocks: Vec<J> = vec![];
    for (_b, data) in body.basic_blocks.iter_enumerated() {
        let mut stmts: Vec<J> = vec![];
        for st in &data.statements {
            match &st.kind {
                StatementKind::Assign(bx) => {
                    let (place, rv) = &**bx;
                    stmts.push(J::obj(vec![
                        ("k", J::s("assign")),
                        ("place", place_json(tcx, body, place.as_ref())),
                        ("rv", rvalue_json(tcx, did, body, rv)),
                        ("line", J::n(line_of(tcx, st.source_info.span))),
                    ]));
                }
                StatementKind::SetDiscriminant { place, variant_index } => {
                    stmts.push(J::obj(vec![
                        ("k", J::s("setdiscr")),
                        ("place", place_json(tcx, body, (**place).as_ref())),
                        ("vi", J::n(variant_index.as_usize() as i128)),
                    ]));
                }
                StatementKind::StorageDead(l) => {
                    stmts.push(J::obj(vec![("k", J::s("dead")), ("l", J::n(l.as_usize() as i128))]));
                }
                StatementKind::StorageLive(l) => {
                    stmts.push(J::obj(vec![("k", J::s("live")), ("l", J::n(l.as_usize() as i128))]));
                }
                _ => {}
            }
        }
        let term = data.terminator.as_ref().map(|t| terminator_json(tcx, def, body, t)).unwrap_or(J::Null);
        blocks.push(J::obj(vec![
            ("cleanup", J::Bool(data.is_cleanup)),
            ("stmts", J::Arr(stmts)),
            ("term", term),
        ]));
    }
    o.push(("blocks", J::Arr(blocks)));
    J::obj(o)
}

fn my_mir_promoted<'tcx>(
    tcx: TyCtxt<'tcx>,
    def: LocalDefId,
) -> (
    &'tcx rustc_data_structures::steal::Steal<Body<'tcx>>,
    &'tcx rustc_data_structures::steal::Steal<rustc_index::IndexVec<mir::Promoted, Body<'tcx>>>,
) {
    let r = (rustc_interface::passes::DEFAULT_QUERY_PROVIDERS.queries.mir_promoted)(tcx, def);
    if std::env::var_os("MIRFACTS_OUT").is_some() {
        let _g1 = ty::print::CrateNamePrefixGuard::new();
        let _g2 = ty::print::NoTrimmedGuard::new();
        let _g3 = ty::print::NoVisibleGuard::new();
        let s = {
            let body = r.0.borrow();
            let mut j = body_json(tcx, def, &body);
            // promoted bodies (constants like b"WebAuthn PRF" live here)
            let proms = r.1.borrow();
            let mut pv: Vec<J> = vec![];
            for (_pi, pb) in proms.iter_enumerated() {
                pv.push(body_json(tcx, def, pb));
            }
            if let J::Obj(ref mut v) = j {
                v.push(("promoted".to_string(), J::Arr(pv)));
            }
            j.to_string()
        };
        BODIES.lock().unwrap().push(s);
    }
    r
}

fn adts_json<'tcx>(tcx: TyCtxt<'tcx>) -> Vec<J> {
    let mut out = vec![];
    for id in tcx.hir_free_items() {
        let did = id.owner_id.to_def_id();
        let dk = tcx.def_kind(did);
        if !matches!(dk, DefKind::Struct | DefKind::Enum | DefKind::Union) {
            continue;
        }
        let adt = tcx.adt_def(did);
        let mut variants = vec![];
        for (vi, v) in adt.variants().iter_enumerated() {
            let fields: Vec<J> = v
                .fields
                .iter()
                .map(|f| {
                    let fty = tcx.type_of(f.did).instantiate_identity().skip_norm_wip();
                    let mut adts: Vec<String> = vec![];
                    for t in fty.walk() {
                        if let Some(t) = t.as_type() {
                            if let TyKind::Adt(a, _) = t.kind() {
                                adts.push(def_path(tcx, a.did()));
                            }
                        }
                    }
                    adts.sort();
                    adts.dedup();
                    J::obj(vec![
                        ("name", J::s(f.name.to_string())),
                        ("ty", J::s(ty_str(fty))),
                        ("pub", J::Bool(f.vis.is_public())),
                        ("vis", J::s(format!("{:?}", f.vis))),
                        ("adts", J::Arr(adts.into_iter().map(J::s).collect())),
                    ])
                })
                .collect();
            let mut vo = vec![("name", J::s(v.name.to_string())), ("fields", J::Arr(fields))];
            if adt.is_enum() {
                let d = adt.discriminant_for_variant(tcx, vi);
                vo.push(("discr", J::s(d.val.to_string())));
            }
            variants.push(J::obj(vo));
        }
        out.push(J::obj(vec![
            ("path", J::s(def_path(tcx, did))),
            ("id", J::s(def_id_str(tcx, did))),
            ("kind", J::s(format!("{:?}", dk))),
            ("pub", J::Bool(tcx.visibility(did).is_public())),
            ("repr", J::s(format!("{:?}", adt.repr()))),
            ("span", span_obj(tcx, tcx.def_span(did))),
            ("variants", J::Arr(variants)),
        ]));
    }
    out
}

fn impls_json<'tcx>(tcx: TyCtxt<'tcx>) -> Vec<J> {
    let mut out = vec![];
    for id in tcx.hir_free_items() {
        let did = id.owner_id.to_def_id();
        if !matches!(tcx.def_kind(did), DefKind::Impl { .. }) {
            continue;
        }
        let mut j = impl_info(tcx, did);
        let items: Vec<J> = tcx
            .associated_items(did)
            .in_definition_order()
            .map(|it| {
                J::obj(vec![
                    ("name", J::s(it.name().to_string())),
                    ("def", J::s(def_path(tcx, it.def_id))),
                    ("kind", J::s(format!("{:?}", tcx.def_kind(it.def_id)))),
                    ("pub", J::Bool(tcx.visibility(it.def_id).is_public())),
                ])
            })
            .collect();
        if let J::Obj(ref mut v) = j {
            v.push(("items".to_string(), J::Arr(items)));
            v.push(("span".to_string(), span_obj(tcx, tcx.def_span(did))));
        }
        out.push(j);
    }
    out
}

fn consts_json<'tcx>(tcx: TyCtxt<'tcx>) -> Vec<J> {
    let mut out = vec![];
    for def in tcx.hir_body_owners() {
        let did = def.to_def_id();
        let dk = tcx.def_kind(did);
        if !matches!(dk, DefKind::Const { .. } | DefKind::AssocConst { .. } | DefKind::Static { .. }) {
            continue;
        }
        if tcx.generics_of(did).requires_monomorphization(tcx) {
            continue;
        }
        let ty = tcx.type_of(did).instantiate_identity().skip_norm_wip();
        let mut o: Vec<(&'static str, J)> = vec![
            ("path", J::s(def_path(tcx, did))),
            ("ty", J::s(ty_str(ty))),
            ("def_kind", J::s(format!("{:?}", dk))),
            ("span", span_obj(tcx, tcx.def_span(did))),
        ];
        if matches!(dk, DefKind::AssocConst { .. }) {
            o.push(("item", item_container(tcx, did)));
        }
        let val = if matches!(dk, DefKind::Static { .. }) {
            None
        } else {
            tcx.const_eval_poly(did).ok()
        };
        if let Some(v) = val {
            const_value_fields(tcx, v, ty, &mut o);
            o.push(("evaluated", J::Bool(true)));
        } else {
            o.push(("evaluated", J::Bool(false)));
        }
        out.push(J::obj(o));
    }
    out
}

fn traits_json<'tcx>(tcx: TyCtxt<'tcx>) -> Vec<J> {
    let mut out = vec![];
    for id in tcx.hir_free_items() {
        let did = id.owner_id.to_def_id();
        if !matches!(tcx.def_kind(did), DefKind::Trait) {
            continue;
        }
        let supers: Vec<J> = tcx
            .explicit_super_predicates_of(did)
            .iter_identity_copied()
            .map(|x| x.skip_norm_wip())
            .filter_map(|(p, _)| p.as_trait_clause().map(|t| J::s(def_path(tcx, t.def_id()))))
            .collect();
        let items: Vec<J> = tcx
            .associated_items(did)
            .in_definition_order()
            .map(|it| J::s(it.name().to_string()))
            .collect();
        out.push(J::obj(vec![
            ("path", J::s(def_path(tcx, did))),
            ("pub", J::Bool(tcx.visibility(did).is_public())),
            ("effective_pub", J::Bool(tcx.effective_visibilities(()).is_exported(id.owner_id.def_id))),
            ("reachable", J::Bool(tcx.effective_visibilities(()).is_reachable(id.owner_id.def_id))),
            ("directly_pub", J::Bool(tcx.effective_visibilities(()).is_directly_public(id.owner_id.def_id))),
            ("supertraits", J::Arr(supers)),
            ("items", J::Arr(items)),
        ]));
    }
    out
}

struct Cb;

impl Callbacks for Cb {
    fn config(&mut self, config: &mut Config) {
        config.override_queries = Some(|_sess, providers: &mut Providers| {
            providers.queries.mir_promoted = my_mir_promoted;
        });
    }

    fn after_analysis<'tcx>(&mut self, _c: &Compiler, tcx: TyCtxt<'tcx>) -> Compilation {
        let Some(dir) = std::env::var_os("MIRFACTS_OUT") else {
            return Compilation::Continue;
        };
        let _g1 = ty::print::CrateNamePrefixGuard::new();
        let _g2 = ty::print::NoTrimmedGuard::new();
        let _g3 = ty::print::NoVisibleGuard::new();
        let krate = tcx.crate_name(LOCAL_CRATE).to_string();
        let crate_types: Vec<J> = tcx.crate_types().iter().map(|c| J::s(format!("{:?}", c))).collect();
        let adts = adts_json(tcx);
        let impls = impls_json(tcx);
        let consts = consts_json(tcx);
        let traits = traits_json(tcx);
        // effective visibility of ADTs and fns (public API reachability)
        let ev = tcx.effective_visibilities(());
        let mut reachable: Vec<J> = vec![];
        for id in tcx.hir_crate_items(()).definitions() {
            if ev.is_reachable(id) {
                let dk = tcx.def_kind(id.to_def_id());
                if matches!(dk, DefKind::Fn | DefKind::AssocFn | DefKind::Struct | DefKind::Enum | DefKind::Trait | DefKind::Const { .. } | DefKind::AssocConst { .. }) {
                    reachable.push(J::s(def_path(tcx, id.to_def_id())));
                }
            }
        }
        let bodies = std::mem::take(&mut *BODIES.lock().unwrap());
        let mut s = String::new();
        s.push_str("{\"crate\":");
        s.push_str(&J::s(krate.clone()).to_string());
        s.push_str(",\"crate_types\":");
        s.push_str(&J::Arr(crate_types).to_string());
        s.push_str(",\"adts\":");
        s.push_str(&J::Arr(adts).to_string());
        s.push_str(",\"impls\":");
        s.push_str(&J::Arr(impls).to_string());
        s.push_str(",\"consts\":");
        s.push_str(&J::Arr(consts).to_string());
        s.push_str(",\"traits\":");
        s.push_str(&J::Arr(traits).to_string());
        s.push_str(",\"reachable\":");
        s.push_str(&J::Arr(reachable).to_string());
        s.push_str(",\"bodies\":[");
        s.push_str(&bodies.join(",\n"));
        s.push_str("]}\n");
        let path = std::path::Path::new(&dir).join(format!("{}-{}.mir.json", krate, std::process::id()));
        std::fs::write(&path, s).expect("mirfacts: cannot write fact file");
        Compilation::Continue
    }
}

fn main() {
    let mut args: Vec<String> = std::env::args().collect();
    // RUSTC_WORKSPACE_WRAPPER: argv[1] is the real rustc path.
    if args.len() > 1 && (args[1].ends_with("rustc") || args[1].contains("/rustc")) {
        args.remove(1);
    }
    rustc_driver::run_compiler(&args, &mut Cb);
}
