#!/bin/bash
# usage: run_mirfacts.sh <repo> <outdir> [extra cargo args...]
# Extracts MIR facts for every workspace crate of <repo> into <outdir>.
set -euo pipefail
REPO="$1"; OUT="$2"; shift 2
HERE="$(cd "$(dirname "$0")" && pwd)"
DRV="$HERE/mirfacts/target/release/mirfacts"
[ -x "$DRV" ] || { echo "mirfacts driver not built (run setup)" >&2; exit 2; }
SYSROOT="$(rustc +nightly --print sysroot)"
TGT="$(mktemp -d "${TMPDIR:-/tmp}/mirfacts-target.XXXXXX")"
trap 'rm -rf "$TGT"' EXIT
mkdir -p "$OUT"
rm -f "$OUT"/*.mir.json
cd "$REPO"
env CARGO_NET_OFFLINE=true \
    LD_LIBRARY_PATH="$SYSROOT/lib" \
    RUSTFLAGS="-Zmir-opt-level=0 -Awarnings" \
    RUSTC_WORKSPACE_WRAPPER="$DRV" \
    MIRFACTS_OUT="$OUT" \
    CARGO_TARGET_DIR="$TGT" \
    cargo +nightly check --offline --workspace "$@" >"$OUT/cargo.log" 2>&1 || { tail -40 "$OUT/cargo.log" >&2; exit 2; }
ls "$OUT"/*.mir.json >/dev/null
