"""C14 — WebAuthn JSON parses leniently, re-parses when emitted, client data keeps order (partial: structure only).

The serde behaviour of every type is read off the MIR of its derived code (rules/serde_model.py), not off attributes.
R1 lenient members : every member of tables/lenient_fields.json is read through the right kind of tolerant reader:
                     enumerations through an error-absorbing helper, enumeration lists through the element-dropping helper,
                     numbers through the number-or-string visitor, binary members through `Bytes`; the helpers are checked
                     themselves (absorbing: no Err outcome although the inner deserializer is fallible; the number visitor
                     implements visit_u64/i64/f64/str; the Bytes visitor implements seq/bytes/str/string/borrowed_str and tries
                     base64url before base64, both padding-insensitive).
R2 writer ⊆ reader  : for every type with both derives each emitted key is an accepted key of the same member, and a member
                     that may be skipped when writing is not required when reading.
R3 client data order: CollectedClientData emits type, challenge, origin, crossOrigin first and in that order, crossOrigin
                     unconditionally as a bool, then flattens the extra data and then the unknown keys, which are an IndexMap;
                     serde_json is built with preserve_order.
Not decided (the bulk of the property): that every presentation parses to the *same value*, that emitted credentials
re-parse to equal values, identity of encode∘decode.
"""
import json
import os
import subprocess

from . import core, flow, names, normal, summary, serde_model
from .framework import where, short, api_name, VERIF
from .c02 import has, is_call, find, sub, closure_ret

SER = "passkey_types::utils::serde::"


def expand_calls(S, p, term, depth=0):
    """replace workspace call terms whose callee has a single outcome by that outcome's value (helpers looked through)"""
    if depth > 4:
        return term
    for c in summary.find_calls(term, p):
        cb = S.callee_body(c)
        if cb is None:
            continue
        outs = S.outcomes(cb)
        if len(outs) != 1:
            continue
        v = flow.simplify_term(summary.subst(outs[0].value, c[2], None))
        term = summary.replace(term, c, expand_calls(S, p, v, depth + 1))
    return flow.simplify_term(term)


def consts_of(t):
    return {x[1] for x in sub(t) if isinstance(x, tuple) and len(x) == 2 and x[0] == "const" and isinstance(x[1], str)}


def decode_attempt(d):
    """classify one `Encoding::decode(enc, data)` term -> (alphabet, unpadded-encoding?, strips-all-trailing-padding?)"""
    enc, data = d[2][0], d[2][1]
    cs = {c.rsplit("::", 1)[-1] for c in consts_of(enc) if "data_encoding::BASE64" in c}
    alph = "url" if cs and all(c.startswith("BASE64URL") for c in cs) else ("std" if cs and not any(c.startswith("BASE64URL") for c in cs) else "mixed")
    # the specification the encoding is built from — a struct literal, or a specification updated member by member
    mk = find(enc, lambda y: is_call(y, "Specification::encoding") and len(y[2]) == 1)
    spec = mk[2][0] if mk is not None else find(enc, lambda y: isinstance(y, tuple) and y and y[0] == "agg" and str(y[1]).endswith("Specification"))
    if spec is not None:
        pad = flow.simplify_term(("field", spec, "padding"))
        nopad = isinstance(pad, tuple) and len(pad) == 4 and pad[0] == "agg" and pad[2] == "None"
    else:
        nopad = bool(cs) and all(c.endswith("_NOPAD") for c in cs)
    trim = find(data, lambda y: is_call(y, "str::trim_end_matches") or is_call(y, "str::trim_matches"))
    strips = False
    if trim is not None:
        pat = trim[2][1]
        # the pattern is the alphabet's own padding character ('=' or `specification().padding`)
        strips = pat == ("const", 61) or pat == ("const", "=") or has(pat, lambda y: isinstance(y, tuple) and len(y) == 3 and y[0] == "field" and y[2] == "padding") \
            or any(str(c) in ("'='", "=") for c in consts_of(pat))
    return alph, nopad, strips


def bytes_string_rules(chk, p, S, tf):
    """the string presentations of a binary member: base64url is tried before base64, both with or without padding.
    Stated over the value term of TryFrom<&str> for Bytes with every workspace helper looked through."""
    R = "R1 lenient members"
    outs = S.outcomes(tf)
    is_dec = lambda y: is_call(y, "Encoding::decode")
    attempts = []   # (decode term, guarded-by-url-failure?)
    for o in outs:
        val = expand_calls(S, p, o.value)
        cond_terms = [expand_calls(S, p, t) for t, l, f, w in o.conds]

        def walk(t, guarded):
            if is_call(t, "Option::or_else") or is_call(t, "Option::or") or is_call(t, "Result::or_else") or is_call(t, "Result::or"):
                first, second = t[2][0], t[2][1]
                walk(first, guarded)
                if isinstance(second, tuple) and second and second[0] == "closure":
                    r = closure_ret(p, second)
                    second = expand_calls(S, p, r) if r is not None else second
                g2 = guarded or any(decode_attempt(d)[0] == "url" for d in sub(first) if is_dec(d))
                walk(second, g2)
                return
            if is_dec(t):
                attempts.append((t, guarded))
            if isinstance(t, tuple):
                for x in t:
                    if isinstance(x, (tuple, frozenset)):
                        walk(x, guarded)
            elif isinstance(t, frozenset):
                for x in t:
                    walk(x, guarded)
        g0 = any(decode_attempt(d)[0] == "url" for ct in cond_terms for d in sub(ct) if is_dec(d))
        walk(val, g0)
    cls = [(decode_attempt(d), g) for d, g in attempts]
    url = [c for c, g in cls if c[0] == "url"]
    std = [(c, g) for c, g in cls if c[0] == "std"]
    ok = bool(url) and bool(std) and all(g for c, g in std) and not any(c[0] == "mixed" for c, g in cls)
    chk.ob(R, "R1|Bytes|base64url-then-base64", ok, where(tf),
           "decode attempts reached from TryFrom<&str> for Bytes: %s; every base64 attempt is used only where the base64url attempt gave nothing: %s"
           % ([("%s%s" % (c[0], "" if not g else " (after url failed)")) for c, g in cls], ok))
    for alph, lst in (("base64url", url), ("base64", [c for c, g in std])):
        ok = bool(lst) and all(c[1] and c[2] for c in lst)
        chk.ob(R, "R1|Bytes|%s|padding-insensitive" % alph, ok, where(tf),
               "%s attempt(s): unpadded encoding=%s, all trailing padding characters removed first=%s" % (alph, [c[1] for c in lst], [c[2] for c in lst]))


def run(chk):
    p = core.load_program("all")
    chk.configs = ["all-features"]
    chk.explanation = __doc__
    S = summary.Summaries(p)
    N = normal.Normalizer(p, S)
    with open(os.path.join(VERIF, "tables", "lenient_fields.json")) as fh:
        tab = json.load(fh)
    models = {}

    def model(adt_path):
        a = p.adts.get(adt_path)
        if a is None:
            return None
        if adt_path not in models:
            models[adt_path] = serde_model.model_of(p, a, S)
        return models[adt_path]

    # ---------------- R1
    for adt_path, field, cls in tab["fields"]:
        sn = adt_path.rsplit("::", 1)[-1]
        m = model(adt_path)
        key = "R1|%s.%s" % (sn, field)
        if not chk.require("R1 lenient members", key, m is not None and m.has_de, adt_path, "no derived Deserialize model for %s" % adt_path):
            continue
        a = p.adts[adt_path]
        fty = [f["ty"] for f in a["variants"][0]["fields"] if f["name"] == field]
        if not chk.require("R1 lenient members", key, fty, adt_path, "member %s not found" % field):
            continue
        r = m.read.get(field)
        if cls == "bytes":
            ok = "passkey_types::utils::bytes::Bytes" in fty[0] and r is not None and not r["wrapper"]
            chk.ob("R1 lenient members", key, ok, adt_path, "binary member of type %s read through Bytes' own Deserialize" % fty[0])
            continue
        helper = (r or {}).get("helper") or ""
        hn = helper[len(SER):] if helper.startswith(SER) else helper.rsplit("::", 1)[-1]
        got = tab["helper_class"].get(hn)
        chk.ob("R1 lenient members", key, r is not None and r["wrapper"] and got == cls, adt_path,
               "%s.%s is read through %s (%s); expected a %s reader" % (sn, field, hn or "its plain Deserialize", got or "strict", cls))
    # the helpers themselves
    def fn(suffix):
        c = [b for b in p.all_bodies if b.path == SER + suffix]
        return c[0] if len(c) == 1 else None
    iu = fn("ignore_unknown")
    if chk.require("R1 lenient members", "R1|helper|ignore_unknown", iu, SER, "ignore_unknown not found"):
        chk.touched(iu)
        outs = normal.rows(S, iu, N, expand=False)
        inner = [t for bb, t in iu.calls() if names.call_is(t, "Deserialize::deserialize")]
        # absorbing: every row is Ok although the inner deserializer is fallible, and its failure is tested (some row sits on
        # the failure side of the inner result)
        is_inner = lambda x: is_call(x, "Deserialize::deserialize")
        ok = bool(inner) and outs and all(o.variant[:1] == ("Ok",) for o in outs) and any(flow.asserts_fail(t, l, is_inner) for o in outs for t, l, f, w in o.conds)
        chk.ob("R1 lenient members", "R1|helper|ignore_unknown|absorbing", ok, where(iu), "outcomes: %s" % [(o.vstr(), flow.term_str(o.value)[:80]) for o in outs])
    # the visitor of ignore_unknown_opt_vec (a private type declared inside it, whatever its name) and the element type it
    # reads the sequence as (the private "known or not" wrapper, whatever its name)
    def visitor_ty(t):
        """the visitor type handed to deserialize_any / deserialize_seq ... : last generic argument, without its own arguments"""
        g = [x for x in (t.get("gargs") or []) if x and not x.startswith("'")]
        return names.strip_generics(g[-1]) if g else None
    vs = [b for b in p.all_bodies if "ignore_unknown_opt_vec::" in b.path and b.path.endswith("::visit_seq")]
    elem = ""
    if chk.require("R1 lenient members", "R1|helper|ignore_unknown_opt_vec", len(vs) == 1, SER, "the visit_seq of ignore_unknown_opt_vec's visitor not found"):
        b = vs[0]
        chk.touched(b)
        ne = [t for bb, t in b.calls() if names.call_is(t, "SeqAccess::next_element")]
        elem = visitor_ty(ne[0]) or "" if ne else ""
    pu = [b for b in p.all_bodies if b.path.endswith("::deserialize") and b.path == b.root and elem and elem.startswith("passkey_types::") and ("<%s<" % elem in b.path or "<%s as" % elem in b.path)]
    lenient_elem = False
    if chk.require("R1 lenient members", "R1|helper|PossiblyUnknown", len(pu) == 1, SER, "the Deserialize impl of the sequence's element wrapper (%s) not found" % (elem or "?")):
        chk.touched(pu[0])
        outs = normal.rows(S, pu[0], N, expand=False)
        # never an error: the element's own deserializer may fail, and both of its outcomes end in Ok — the success side with
        # the element in it, the failure side with the "unknown" value (whatever the wrapper looks like: an enum of its own,
        # a newtype around Option, ...)
        is_inner_de = lambda x: is_call(x, "Deserialize::deserialize")
        on_ok = [o for o in outs if any(flow.asserts_ok(t, l, is_inner_de) for t, l, f, w in o.conds)]
        on_err = [o for o in outs if any(flow.asserts_fail(t, l, is_inner_de) for t, l, f, w in o.conds)]
        carries = lambda o: flow.term_contains(o.value, lambda x: isinstance(x, tuple) and len(x) == 2 and x[0] == "payload" and flow.term_contains(x[1], is_inner_de))
        ok = len(outs) >= 2 and all(o.variant[:1] == ("Ok",) for o in outs) and bool(on_ok) and bool(on_err) and all(carries(o) for o in on_ok) and not any(carries(o) for o in on_err) \
            and not any(flow.strip_sites(a.value) == flow.strip_sites(b_.value) for a in on_ok for b_ in on_err)
        lenient_elem = ok
        chk.ob("R1 lenient members", "R1|helper|PossiblyUnknown|maps-error-to-unknown", ok, where(pu[0]), "outcomes: %s" % [(o.vstr(), flow.term_str(o.value)[:60]) for o in outs])
    if len(vs) == 1:
        b = vs[0]
        push = names.calls_to(b, "Vec::push")
        guarded = False
        if push:
            conds = flow.conditions(p, b, push[0][0])
            guarded = any(c[0] == "discr" for sb, l, c in conds)
        else:
            # `array.extend(opt)`: an Option extends by its content when it has one
            ext = [t for bb, t in b.calls() if names.call_is(t, "Extend::extend", "Vec::extend") and any(g.replace(" ", "").startswith("core::option::Option<") for g in (t.get("gargs") or []))]
            guarded = len(ext) == 1
        chk.ob("R1 lenient members", "R1|helper|ignore_unknown_opt_vec|drops-unknown-elements", len(pu) == 1 and guarded, where(b), "elements are read as %s and pushed only when known: %s" % (elem.rsplit("::", 1)[-1], guarded))
    iv = fn("ignore_unknown_vec")
    if iv is not None:
        chk.touched(iv)
        chk.ob("R1 lenient members", "R1|helper|ignore_unknown_vec|delegates", bool(names.calls_to(iv, "serde::ignore_unknown_opt_vec")), where(iv), "ignore_unknown_vec delegates to ignore_unknown_opt_vec")
    # the string-or-number visitor: the private visitor type maybe_stringified hands to deserialize_any (whatever its name)
    ms = fn("maybe_stringified")
    SON = None
    if ms is not None:
        da = [t for bb, t in ms.calls() if names.call_is(t, "Deserializer::deserialize_any")]
        SON = visitor_ty(da[0]) if len(da) == 1 else None
    son = {}
    for (adt, trait, name), bodies in p.methods.items():
        if adt and SON and names.strip_generics(adt) == SON and trait and trait.endswith("::Visitor"):
            son[name] = bodies[0]
    need = {"visit_str", "visit_i64", "visit_u64", "visit_f64"}
    chk.ob("R1 lenient members", "R1|helper|StringOrNum|visitor-methods", need <= set(son), SER + "StringOrNum", "implements %s" % sorted(k for k in son if k.startswith("visit_")))
    if "visit_str" in son:
        b = son["visit_str"]
        chk.touched(b)
        # the text is parsed as the target type and, failing that, as f64 (from_str or str::parse, whichever way round the
        # control flow is written)
        parses = [t for bb, t in b.calls() if names.call_is(t, "FromStr::from_str", "str::parse")]
        as_float = [t for t in parses if "f64" in (t.get("callee_full") or "") or any(g.strip() == "f64" for g in (t.get("gargs") or []))]
        as_target = [t for t in parses if t not in as_float]
        ok = bool(as_float) and bool(as_target)
        chk.ob("R1 lenient members", "R1|helper|StringOrNum|numeric-strings-and-floats", ok, where(b), "visit_str parses the integer type, then f64: %s" % ok)
    if "visit_f64" in son:
        b = son["visit_f64"]
        chk.touched(b)
        # the float is truncated to a *signed* 64-bit integer (negative identifiers survive) and that integer takes the
        # integer path: visit_i64, or the same checked conversion T::try_from(i64)
        Tb = flow.Terms(p, b)
        Nb = normal.Normalizer(p, summary.Summaries(p))
        sinks = [(bb, t) for bb, t in b.calls() if names.call_is(t, "Visitor::visit_i64") or "visit_i64" in core.callee_of(t)
                 or (names.call_is(t, "TryFrom::try_from", "TryInto::try_into") and any(g.strip() == "i64" for g in (t.get("gargs") or [])))]
        ok = bool(sinks)
        for bb, t in sinks:
            v = Nb.norm(Tb.operand(t["args"][-1], bb, "t"))
            casts = [x for x in sub(v) if isinstance(x, tuple) and len(x) == 3 and x[0] == "cast"]
            ok = ok and any(x[1] == "i64" and x[2] == ("param", 2) for x in casts) and not any(x[2] == ("param", 2) and x[1] != "i64" for x in casts)
        unsigned = [s for bb, s in b.stmts() if s["k"] == "assign" and s["rv"]["k"] == "cast" and s["rv"].get("ty") in ("u64", "u32", "usize", "u16", "u8") and "Float" in (s["rv"].get("ck") or "")]
        ok = ok and not unsigned
        chk.ob("R1 lenient members", "R1|helper|StringOrNum|integral-floats", ok, where(b), "visit_f64 truncates to i64 and takes the integer path (visit_i64 / T::try_from(i64)): %s" % ok)
    ms = fn("maybe_stringified")
    if ms is not None:
        chk.touched(ms)
        ok = SON is not None and SON.startswith("passkey_types::") and bool(son)
        chk.ob("R1 lenient members", "R1|helper|maybe_stringified|uses-StringOrNum", ok, where(ms), "maybe_stringified = deserialize_any(StringOrNum): %s" % ok)
    i64 = fn("i64_to_iana::deserialize")
    if i64 is not None:
        chk.touched(i64)
        ok = SON is not None and any(names.call_is(t, "Deserializer::deserialize_any") and visitor_ty(t) == SON for bb, t in i64.calls())
        chk.ob("R1 lenient members", "R1|helper|i64_to_iana|uses-StringOrNum", ok, where(i64), "i64_to_iana::deserialize = deserialize_any(StringOrNum) then from_i64: %s" % ok)
    # Bytes
    # the visitor Bytes::deserialize hands to the deserializer (a private type, whatever its name)
    bd = p.method("passkey_types::utils::bytes::Bytes", "deserialize", trait="serde_core::de::Deserialize") or p.method("passkey_types::utils::bytes::Bytes", "deserialize", trait="serde::de::Deserialize")
    BV = None
    if bd is not None:
        da = [t for bb, t in bd.calls() if (t.get("callee") or "").startswith("serde_core::de::Deserializer::deserialize_") or (t.get("callee") or "").startswith("serde::de::Deserializer::deserialize_")]
        BV = visitor_ty(da[0]) if len(da) == 1 else None
    bv = {}
    for (adt, trait, name), bodies in p.methods.items():
        if adt and BV and names.strip_generics(adt) == BV and trait and trait.endswith("::Visitor"):
            bv[name] = bodies[0]
    need = {"visit_seq", "visit_bytes", "visit_str", "visit_string", "visit_borrowed_str"}
    chk.ob("R1 lenient members", "R1|Bytes|visitor-methods", need <= set(bv), "passkey_types::utils::bytes::Bytes", "Bytes visitor implements %s" % sorted(k for k in bv if k.startswith("visit_")))
    tf = p.method("passkey_types::utils::bytes::Bytes", "try_from", trait="core::convert::TryFrom")
    if chk.require("R1 lenient members", "R1|Bytes|TryFrom<&str>", tf, "Bytes", "TryFrom<&str> for Bytes not found"):
        chk.touched(tf)
        bytes_string_rules(chk, p, S, tf)

    # ---------------- R2
    n2 = 0
    for path, a in sorted(p.adts.items()):
        if a["kind"] != "Struct" or not (a["id"].startswith("passkey_types::webauthn") or a["id"].startswith("passkey_types::ctap2")) or "__" in a["id"].rsplit("::", 1)[-1]:
            continue
        m = model(path) if path in p.adts else None
        if m is None or not (m.has_de and m.has_ser) or not m.emitted:
            continue
        n2 += 1
        problems = []
        for k, fld, conditional in m.emitted:
            if k is None or fld is None:
                continue
            if k not in m.keys:
                problems.append("emits key %r which the reader does not accept" % k)
                continue
            idx = m.keys[k]
            if idx < len(m.fields) and m.fields[idx] != fld:
                problems.append("key %r is written from member %s but read into member %s" % (k, fld, m.fields[idx]))
            if conditional and m.missing.get(fld) == "error":
                problems.append("member %s may be omitted when writing but is required when reading" % fld)
        chk.ob("R2 writer ⊆ reader", "R2|%s" % "::".join(a["id"].split("::")[-2:]), not problems, a["span"]["file"], problems[0] if problems else "%d emitted keys all accepted for the same members; skippable members have defaults" % len(m.emitted))
    chk.require("R2 writer ⊆ reader", "R2|types", n2 >= 14, "passkey_types", "only %d two-way types modelled" % n2)

    # ---------------- R3
    ccd = "passkey_types::webauthn::attestation::CollectedClientData"
    a = p.adts.get(ccd)
    if chk.require("R3 client data order", "R3|CollectedClientData", a, ccd, "CollectedClientData not found"):
        sers = serde_model.bodies_of_impl(p, "Serialize", a["id"])
        if chk.require("R3 client data order", "R3|Serialize", len(sers) == 1, ccd, "Serialize for CollectedClientData not found"):
            b = sers[0]
            chk.touched(b)
            T = flow.Terms(p, b)
            seq = []
            for bb, t in b.calls():
                if names.call_is(t, "SerializeMap::serialize_entry", "SerializeStruct::serialize_field"):
                    k = flow.simplify_term(T.operand(t["args"][1], bb, "t"))
                    seq.append((bb, "key", k[1] if k[0] == "const" else "?"))
                elif names.call_is(t, "Serialize::serialize") and "FlatMapSerializer" in " ".join(t.get("gargs", [])):
                    v = flow.simplify_term(T.operand(t["args"][0], bb, "t"))
                    fld = [x[2] for x in sub(v) if isinstance(x, tuple) and len(x) == 3 and x[0] == "field" and x[1] == ("param", 1)]
                    seq.append((bb, "flatten", fld[0] if fld else "?"))
            import functools
            def before(x, y):
                return y[0] in b.reachable(x[0], follow_yield_drop=False) and x[0] not in b.reachable(y[0], follow_yield_drop=False)
            seq.sort(key=functools.cmp_to_key(lambda x, y: -1 if before(x, y) else (1 if before(y, x) else 0)))
            order = [(k, v) for bb, k, v in seq]
            exp = [("key", k) for k in tab["client_data_order"]] + [("flatten", "extra_data"), ("flatten", "unknown_keys")]
            chk.ob("R3 client data order", "R3|emission-order", order == exp, where(b), "emitted: %s" % order)
            # all four fixed keys unconditional
            cond = []
            for bb, k, v in seq:
                if k == "key":
                    cs = flow.conditions(p, b, bb, T)
                    if serde_model.is_conditional(cs):
                        cond.append(v)
            chk.ob("R3 client data order", "R3|fixed-members-unconditional", not cond, where(b), "conditionally emitted fixed members: %s" % (cond or "none"))
        tr = [bb for bb in p.all_bodies if bb.crate == "passkey_types" and bb.path == bb.root and bb.path.rsplit("::", 1)[-1] == "truthiness"]
        if tr:
            chk.touched(tr[0])
            ok = bool(names.calls_to(tr[0], "Serializer::serialize_bool"))
            chk.ob("R3 client data order", "R3|crossOrigin-is-bool", ok, where(tr[0]), "crossOrigin is written with serialize_bool: %s" % ok)
        uk = [f for f in a["variants"][0]["fields"] if f["name"] == "unknown_keys"]
        chk.ob("R3 client data order", "R3|unknown-keys-ordered-map", bool(uk) and "indexmap::map::IndexMap" in uk[0]["ty"], ccd, "unknown_keys: %s" % (uk[0]["ty"][:80] if uk else "?"))
    # serde_json preserve_order (resolved feature set, read from cargo metadata: configuration, not execution)
    try:
        r = subprocess.run(["cargo", "metadata", "--offline", "--format-version", "1", "--manifest-path", os.path.join(core.repo_dir(), "Cargo.toml")], capture_output=True, text=True, timeout=120)
        md = json.loads(r.stdout)
        feats = set()
        for n in md["resolve"]["nodes"]:
            if n["id"].split("#")[-1].startswith("serde_json@") or "/serde_json-" in n["id"] or " serde_json " in n["id"] or n["id"].startswith("serde_json "):
                feats |= set(n.get("features", []))
        chk.ob("R3 client data order", "R3|serde_json-preserve_order", "preserve_order" in feats, "Cargo.toml / Cargo.lock", "serde_json features in the resolved graph: %s" % sorted(feats))
    except Exception as e:
        chk.ob("R3 client data order", "R3|serde_json-preserve_order", False, "cargo metadata", "could not read the resolved feature set: %s" % e)
    chk.floor("R1", 36)
    chk.floor("R2", 15)
    chk.floor("R3", 5)
    chk.assumptions = ["serde's derive emits what the MIR shows (no attribute is consulted)", "data-encoding's NOPAD decoders reject padding, hence the explicit trim"]
