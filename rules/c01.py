"""C01 — RP ID is bound to the origin at a label boundary and is a registrable domain.

The complete decision table of RpIdVerifier::assert_domain / is_valid_rp_id is read off the MIR (outcome summaries
expanded through the private helpers), then every *accepting* row is checked:

R1 https gate        : web rows are conditioned on eq_ignore_ascii_case(Url::scheme(origin), "https") — except R3 rows.
R2 DNS host          : the origin host comes from Url::domain (None -> Err), not host_str/host.
R3 localhost gate    : a row without R1/R5 must be conditioned on equality with the constant "localhost" and on the true
                       edge of `allows_insecure_localhost`; that field is only written by `new` (false) and the builder.
R4 label-aware suffix: rows with a supplied RP ID are conditioned on a test relating origin host and RP ID whose slice
                       contains separator evidence (a '.' constant); a bare `ends_with(host, rp_id)` is the violation.
R5 registrable domain: non-localhost accepting rows are conditioned on the success of
                       EffectiveTLDProvider::effective_tld_plus_one applied to a value derived from the effective RP ID.
R6 binding           : Client::register/authenticate: the authenticator call is cut by the success edge of assert_domain,
                       the request's rp id is exactly assert_domain's Ok payload, and assert_domain returns only its own
                       rp_id argument or the origin host.
"""
from . import core, flow, names, normal, summary
from .framework import where, short, api_name
from .common import CLIENT, AUTH, ceremony, find_aggs, upvar_names

VERIFIER = "passkey_client::RpIdVerifier"


def subterms(t):
    yield t
    if isinstance(t, frozenset):
        for x in t:
            yield from subterms(x)
    elif isinstance(t, tuple):
        for x in t:
            if isinstance(x, (tuple, frozenset)):
                yield from subterms(x)


def has_call(term, *pats):
    for x in subterms(term):
        if isinstance(x, tuple) and x and x[0] in ("call", "await") and len(x) == 4 and isinstance(x[1], str):
            if any(names.is_(x[1], pt) for pt in pats):
                return x
    return None


def is_callee(x, *pats):
    return isinstance(x, tuple) and len(x) == 4 and x[0] in ("call", "await") and isinstance(x[1], str) and any(names.is_(x[1], pt) for pt in pats)


def closures_in(term):
    return [x for x in subterms(term) if isinstance(x, tuple) and x and x[0] == "closure" and len(x) == 3]


def body_calls(p, defpath, *pats):
    """does the body (or bodies nested in it / workspace callees) call something matching pats?"""
    seen = p.call_closure([defpath]) if defpath in p.bodies else {}
    for b in seen.values():
        for bb, t in b.calls():
            if names.call_is(t, *pats):
                return (b, bb, t)
    return None


def consts_of_term(p, term, acc=None, depth=0):
    """all constants in a term, descending into closure bodies and workspace callees"""
    if acc is None:
        acc = set()
    for x in subterms(term):
        if isinstance(x, tuple) and x and x[0] == "const" and len(x) == 2:
            acc.add(x[1])
        if isinstance(x, tuple) and x and x[0] == "closure" and len(x) == 3 and depth < 3:
            for b in p.call_closure([x[1]]).values():
                body_consts(b, acc)
        if isinstance(x, tuple) and x and x[0] == "call" and len(x) == 4 and x[1] in p.bodies and depth < 3:
            for b in p.call_closure([x[1]]).values():
                body_consts(b, acc)
    return acc


def body_consts(b, acc):
    def op(o):
        if o and o["k"] == "const":
            if "str" in o:
                acc.add(o["str"])
            elif "bytes" in o:
                acc.add(bytes(o["bytes"]))
            elif "bits" in o:
                acc.add(int(o["bits"]))
    for bodyx in [b] + b.promoted:
        for bb, blk in enumerate(bodyx.blocks):
            for s in blk["stmts"]:
                if s["k"] == "assign":
                    rv = s["rv"]
                    for k in ("op", "a", "b"):
                        if isinstance(rv.get(k), dict):
                            op(rv[k])
                    for o in rv.get("ops", []):
                        op(o)
            t = blk["term"]
            if t and t["k"] == "call":
                for a in t["args"]:
                    op(a)
            if t and t["k"] == "switch":
                op(t["op"])


SEPARATORS = (".", 46, b".")


def run(chk):
    p = core.load_program("all")
    chk.configs = ["all-features"]
    chk.explanation = __doc__
    S = summary.Summaries(p)
    S.indexed = True   # element reads keep their index in the terms of this module (R4 reads a byte position)

    ad = p.method(VERIFIER, "assert_domain")
    iv = p.method(VERIFIER, "is_valid_rp_id")
    if not chk.require("R1 https gate", "R1|assert_domain", ad, VERIFIER, "RpIdVerifier::assert_domain not found"):
        return
    chk.touched(ad)
    origin_adt = [a for a in p.adts.values() if a["path"] == "passkey_client::Origin"]
    variants = [v["name"] for v in origin_adt[0]["variants"]] if origin_adt else ["Web", "Android"]
    N = normal.Normalizer(p, S)
    outs = normal.rows(S, ad, N)
    for b in p.call_closure([ad]).values():
        chk.touched(b)
    if S.imprecise:
        chk.note("path cap exceeded (mandatory-edge conditions used) in: %s" % sorted(S.imprecise))
    accepting = [o for o in outs if o.variant[:1] == ("Ok",)]
    chk.require("R1 https gate", "R1|accepting-rows", len(accepting) >= 2, where(ad), "no accepting rows found in the decision table of assert_domain")
    chk.extra["decision_table_rows"] = len(outs)
    chk.extra["accepting_rows"] = len(accepting)

    def arm_of(o):
        for t, labs, fn, w in o.conds:
            if flow.is_discr(t, ("param", 2)):
                for i, v in enumerate(variants):
                    if flow.lab_holds(labs, str(i)) and not any(flow.lab_holds(labs, str(j)) for j in range(len(variants)) if j != i):
                        return v
        return variants[0] if len(variants) == 1 else "?"

    def host_term(o, arm):
        if arm == "Web":
            for t, labs, fn, w in o.conds:
                c = has_call(t, "Url::domain", "Url::host_str", "Url::host")
                if c:
                    return c
        return None

    def is_localhost_row(o):
        eq = flag = False
        for t, labs, fn, w in o.conds:
            e = flow.eq_test(t, labs)
            if e is not None and e[1] is True and any(x in (("const", "localhost"), ("const", b"localhost")) or "localhost" in consts_of_term(p, x) for x in e[0]):
                eq = True
            if isinstance(t, tuple) and t[0] == "field" and t[2] == "allows_insecure_localhost" and flow.lab_true(labs):
                flag = True
        return eq, flag

    def psl_cond(o):
        """the row requires effective_tld_plus_one(..) to have succeeded (any spelling of that test)"""
        is_etld = lambda x: is_callee(x, "EffectiveTLDProvider::effective_tld_plus_one")
        for t, labs, fn, w in o.conds:
            if flow.asserts_ok(t, labs, is_etld):
                r = flow.presence_test(t, labs)
                call = [x for x in flow._subjects(r[0], False) if is_etld(x)][0]
                return call, None
        return None, None

    # one group per origin kind the build has (the Android arm exists only with `android-asset-validation`)
    oadt = [a for pth, a in p.adts.items() if pth.startswith("passkey_client::") and pth.endswith("::Origin")]
    rows = {v["name"]: [] for v in oadt[0]["variants"]} if oadt else {"Web": []}
    for i, o in enumerate(accepting):
        arm = arm_of(o)
        rows.setdefault(arm, []).append(o)
    chk.require("R1 https gate", "R1|web-rows", len(rows.get("Web", [])) >= 1, where(ad), "no accepting web rows")
    for arm, lst in sorted(rows.items()):
        # group verdicts per arm and clause (obligation keys are per public anchor + clause, not per row)
        r1 = r2 = r3 = r4 = r5 = r6 = r5e = True
        w1 = w2 = w3 = w4 = w5 = w6 = w5e = ""
        n4 = 0
        for o in lst:
            payload = dict(o.value[3]).get("0") if o.value and o.value[0] == "agg" else None
            site = "%s:%d" % (o.site[0].file, o.site[2])
            eq, flag = is_localhost_row(o)
            local = eq and flag
            rp_supplied = any(flow.is_discr(t, ("param", 3)) and flow.lab_holds(labs, "1") and not flow.lab_holds(labs, "0") for t, labs, fn, w in o.conds)
            rp_term = ("payload", ("param", 3))
            # R1
            if arm == "Web" and not local:
                https = [t for t, labs, fn, w in o.conds if has_call(t, "str::eq_ignore_ascii_case", "PartialEq::eq") and has_call(t, "Url::scheme") and "https" in consts_of_term(p, t) and flow.lab_true(labs)]
                if not https:
                    r1 = False
                    w1 = "accepting row at %s is not conditioned on scheme == https: %s" % (site, o.cond_strs())
            # R2
            if arm == "Web":
                h = host_term(o, arm)
                if h is None or not names.is_(h[1], "Url::domain"):
                    r2 = False
                    w2 = "origin host obtained through %s" % (h[1] if h else "?")
                dom_ok = any(flow.asserts_ok(t, labs, lambda x: is_callee(x, "Url::domain")) for t, labs, fn, w in o.conds)
                if not dom_ok:
                    r2 = False
                    w2 = "row at %s is not conditioned on Url::domain being Some" % site
            # R3
            tpsl, hit = psl_cond(o)
            if tpsl is None and not local:
                r5 = False
                w5 = "accepting %s row at %s (returns %s) is not conditioned on effective_tld_plus_one succeeding: %s" % (arm, site, flow.term_str(payload), o.cond_strs())
            if tpsl is not None and payload is not None and not flow.term_contains(tpsl, lambda x: x == payload):
                r5 = False
                w5 = "registrable-domain test at %s is applied to a value other than the effective RP ID %s" % (site, flow.term_str(payload))
            if tpsl is not None and flow.term_contains(tpsl, lambda x: is_callee(x, "idna::domain_to_unicode")):
                # the table of the public-suffix crate is punycode (its generator applies ToASCII, its documentation
                # requires ASCII input): a name decoded to Unicode never matches an internationalised suffix rule
                r5e = False
                w5e = "effective_tld_plus_one at %s is applied to the Unicode form of the RP ID (idna::domain_to_unicode): internationalised public suffixes (xn--55qx5d.cn = 公司.cn) are not recognised and are accepted as RP IDs" % site
            if (eq or flag) and not local and tpsl is None:
                r3 = False
                w3 = "row bypasses the checks with only part of the localhost gate (eq=%s flag=%s)" % (eq, flag)
            if local and arm != "Web":
                pass
            # R4: host == rp, or host = rest ++ rp with the cut at a label separator.  The row's conditions on the remainder are
            # brought to a boolean normal form and must imply  rest.is_empty() ∨ rest.ends_with('.') [∨ rp.starts_with('.')]
            # over exactly those atoms (truth table); the suffix relation must be host-stripped-by-rp, not the reverse.
            if rp_supplied:
                n4 += 1
                host_side = (lambda x: isinstance(x, tuple) and x and x[0] == "call" and names.is_(x[1], "Url::domain")) if arm == "Web" else (lambda x: isinstance(x, tuple) and len(x) == 3 and x[0] == "field" and x[2] == "host")
                is_strip = lambda x: is_callee(x, "str::strip_suffix") and flow.term_contains(x[2][0], host_side) and not flow.term_contains(x[2][0], lambda y: y == rp_term) and x[2][1] == rp_term
                strips = [x for t, labs, fn, w in o.conds for x in (flow._subjects(flow.presence_test(t, labs)[0], True) if flow.presence_test(t, labs) else []) if flow.asserts_ok(t, labs, is_strip) and is_strip(x)]
                # the same relation spelled with ends_with: host.ends_with(rp_id) on its true edge (host and rp in that order)
                is_endsw = lambda x: is_callee(x, "str::ends_with") and len(x[2]) == 2 and flow.term_contains(x[2][0], host_side) and not flow.term_contains(x[2][0], lambda y: y == rp_term) and x[2][1] == rp_term
                ends = [flow.bool_atom(t, labs)[0] for t, labs, fn, w in o.conds if flow.bool_atom(t, labs)[1] is True and is_endsw(flow.bool_atom(t, labs)[0])]
                HOST = (strips[0][2][0] if strips else (ends[0][2][0] if ends else None))

                def strip_bytes(x):
                    while isinstance(x, tuple) and len(x) == 4 and x[0] == "call" and x[2] and (names.is_(x[1], "str::as_bytes") or names.is_(x[1], "Deref::deref") or names.is_(x[1], "AsRef::as_ref")):
                        x = x[2][0]
                    return x

                def is_len(x, of):
                    return isinstance(x, tuple) and len(x) == 4 and x[0] == "call" and x[1].endswith("::len") and strip_bytes(x[2][0]) == of

                def is_cut(x):
                    """len(host) - len(rp id): where the suffix starts"""
                    if isinstance(x, tuple) and len(x) == 3 and x[0] == "field" and x[2] == "0":
                        x = x[1]
                    return isinstance(x, tuple) and len(x) == 4 and x[0] == "binop" and x[1].startswith("Sub") and is_len(x[2], HOST) and is_len(x[3], rp_term)

                def is_cut_minus_one(x):
                    if isinstance(x, tuple) and len(x) == 3 and x[0] == "field" and x[2] == "0":
                        x = x[1]
                    return isinstance(x, tuple) and len(x) == 4 and x[0] == "binop" and x[1].startswith("Sub") and is_cut(x[2]) and x[3] == ("const", 1)
                equal = any((flow.eq_test(t, labs) or (None, None))[1] is True and rp_term in flow.eq_test(t, labs)[0] and any(flow.term_contains(y, host_side) for y in flow.eq_test(t, labs)[0]) for t, labs, fn, w in o.conds)
                if equal:
                    w4 = w4 or "host == rp id"
                elif not strips and not ends:
                    r4 = False
                    rel = [flow.term_str(t)[:100] for t, labs, fn, w in o.conds if flow.term_contains(t, lambda x: x == rp_term)]
                    w4 = "row with a supplied RP ID at %s: no test that the origin host ends with the RP ID (strip_suffix(host, rp_id) / equality) — found %s" % (site, rel)
                else:
                    from . import quant
                    F = quant.Formulas(N)
                    rest = ("payload", strips[0]) if strips else ("no-remainder-term",)
                    parts = []
                    for t, labs, fn, w in o.conds:
                        if flow.term_contains(t, lambda x: x == rest) or (flow.term_contains(t, lambda x: is_callee(x, "str::starts_with")) and flow.term_contains(t, lambda x: x == rp_term)) \
                                or flow.term_contains(t, is_cut) or (flow.term_contains(t, lambda x: is_callee(x, "slice::first")) and flow.term_contains(t, lambda x: x == rp_term)):
                            parts.append(F.of_edge(t, labs))
                    fm = quant.f_and(*parts) if parts else ("true",)
                    atoms = {}

                    def leaf(f):
                        if f[0] in ("or", "and"):
                            return all(leaf(x) for x in f[1])
                        if f[0] == "not":
                            return leaf(f[1])
                        if f[0] in ("true", "false"):
                            return True
                        k = None
                        if f[0] == "atom" and isinstance(f[1], tuple) and len(f[1]) == 4 and f[1][0] == "call":
                            cal, args = f[1][1], f[1][2]
                            dot = len(args) > 1 and args[1] in (("const", 46), ("const", "."), ("const", b"."))
                            if cal.endswith("is_empty") and args[0] == rest:
                                k = "E"
                            elif names.is_(cal, "str::ends_with") and args[0] == rest and dot:
                                k = "D"
                            elif names.is_(cal, "str::starts_with") and args[0] == rp_term and dot:
                                k = "S"
                        if f[0] == "eq" and len(f[1]) == 2:
                            a_, b_ = tuple(f[1])
                            for x_, y_ in ((a_, b_), (b_, a_)):
                                if is_cut(x_) and y_ == ("const", 0):
                                    k = "E"      # the suffix starts at 0: host and rp id are equal
                                elif x_ == rest and y_ in (("const", ""), ("const", b"")):
                                    k = "E"      # `rest == ""` (a string pattern): the remainder is empty
                                elif isinstance(x_, tuple) and len(x_) == 3 and x_[0] == "elem_at" and strip_bytes(x_[1]) == HOST and is_cut_minus_one(x_[2]) and y_ == ("const", 46):
                                    k = "D"      # the byte just before the suffix is '.'
                                elif is_callee(x_, "slice::first") and strip_bytes(x_[2][0]) == rp_term and y_ == normal.some(("const", 46)):
                                    k = "S"      # the rp id itself starts with '.'
                        atoms[f] = k
                        return k is not None
                    known = leaf(fm)

                    def ev(f, env):
                        if f[0] == "true":
                            return True
                        if f[0] == "false":
                            return False
                        if f[0] == "not":
                            return not ev(f[1], env)
                        if f[0] == "or":
                            return any(ev(x, env) for x in f[1])
                        if f[0] == "and":
                            return all(ev(x, env) for x in f[1])
                        return env[atoms[f]]
                    if not known or not parts:
                        r4 = False
                        w4 = "suffix test at %s: the remainder of the host is tested by %s — not a label-boundary test (is_empty / ends_with('.')): e.g. origin https://a.evilexample.com with rpId example.com" % (site, [str(k)[:110] for k, v in atoms.items() if v is None] or "nothing")
                    else:
                        import itertools
                        sound = all((not ev(fm, dict(E=E, D=D, S=S))) or (E or D or S) for E, D, S in itertools.product((False, True), repeat=3))
                        if not sound:
                            r4 = False
                            w4 = "suffix test at %s accepts a remainder that is neither empty nor ending with '.'" % site
                        else:
                            w4 = w4 or "host = rest ++ rp id with rest empty or ending in '.' (or the rp id starting with '.')"
            # R6c
            if payload is not None:
                okp = payload == rp_term or (arm == "Web" and flow.is_payload_of(payload, lambda x: is_callee(x, "Url::domain"))) or (arm != "Web" and isinstance(payload, tuple) and payload[0] == "field" and payload[2] == "host")
                if not okp:
                    r6 = False
                    w6 = "Ok payload %s is neither the rp_id argument nor the origin host" % flow.term_str(payload)
                if rp_supplied and payload != rp_term:
                    r6 = False
                    w6 = "a supplied RP ID is not the one returned (%s)" % flow.term_str(payload)
        site = where(ad)
        if arm == "Web":
            chk.ob("R1 https gate", "R1|assert_domain|Web", r1, site, w1 or "%d accepting web rows are https-gated (localhost rows excepted)" % len(lst))
            chk.ob("R2 DNS host", "R2|assert_domain|Web", r2, site, w2 or "origin host = Url::domain(origin), None -> Err")
        chk.ob("R3 localhost gate", "R3|assert_domain|%s" % arm, r3, site, w3 or "rows bypassing https/PSL require == \"localhost\" and allows_insecure_localhost")
        chk.ob("R4 label-aware suffix", "R4|assert_domain|%s" % arm, r4 and n4 > 0, site, w4 or ("no rows with a supplied RP ID" if n4 == 0 else ""))
        chk.ob("R5 registrable domain", "R5|assert_domain|%s" % arm, r5, site, w5 or "every non-localhost accepting row requires effective_tld_plus_one(effective RP ID) to succeed")
        chk.ob("R5 registrable domain", "R5|assert_domain|%s|lookup-in-table-encoding" % arm, r5e, site, w5e or "the public-suffix lookup is applied to the ASCII (punycode) form of the effective RP ID")
        chk.ob("R6 binding", "R6c|assert_domain|%s" % arm, r6, site, w6 or "Ok payload is the rp_id argument when supplied, else the origin host")

    # is_valid_rp_id
    if chk.require("R5 registrable domain", "R5|is_valid_rp_id", iv, VERIFIER, "RpIdVerifier::is_valid_rp_id not found"):
        chk.touched(iv)
        outs2 = normal.rows(S, iv, N)
        acc2 = [o for o in outs2 if o.value == ("const", 1) or o.value == ("const", "const true")]
        ok = bool(acc2)
        w = ""
        for o in acc2:
            eq, flag = is_localhost_row(o)
            t, hit = psl_cond(o)
            if not ((eq and flag) or t is not None):
                ok = False
                w = "is_valid_rp_id returns true on a row with neither the localhost gate nor a successful effective_tld_plus_one: %s" % o.cond_strs()
            if t is not None and not flow.term_contains(t, lambda x: x == ("param", 2)):
                ok = False
                w = "registrable-domain test is not applied to the rp_id argument"
        chk.ob("R5 registrable domain", "R5|is_valid_rp_id", ok, where(iv), w or "%d true rows: localhost gate or PSL success on the argument" % len(acc2))

    # R3: who writes allows_insecure_localhost
    writers = []
    for b in p.bodies.values():
        if b.crate != "passkey_client":
            continue
        for bb, s in b.stmts():
            if s["k"] == "assign":
                pj = s["place"]
                if any(e["k"] == "field" and e["name"] == "allows_insecure_localhost" for e in pj["p"]):
                    writers.append((b, s, "field write"))
                rv = s["rv"]
                if rv["k"] == "agg" and rv.get("ak") == "adt" and rv["adt"] == VERIFIER:
                    op = rv["ops"][rv["fields"].index("allows_insecure_localhost")]
                    writers.append((b, s, "construct:" + (op.get("s", "") if op["k"] == "const" else "non-const")))
    okw = True
    ww = []
    for b, s, kind in writers:
        nm = api_name(b)
        ww.append("%s (%s)" % (nm, kind))
        if kind.startswith("construct:") and "false" not in kind:
            okw = False
        if kind == "field write" and not nm.endswith("allows_insecure_localhost"):
            okw = False
    chk.ob("R3 localhost gate", "R3|flag-writers", okw and len(writers) >= 2, VERIFIER, "allows_insecure_localhost is written by: %s" % ww)

    # ---------------- R6 a/b
    for nm, target, field in (("register", "Authenticator::make_credential", ("rp", "id")), ("authenticate", "Authenticator::get_assertion", ("rp_id",))):
        co = ceremony(p, nm, adt=CLIENT)
        if not chk.require("R6 binding", "R6|Client::%s" % nm, co, CLIENT, "Client::%s async body not found" % nm):
            continue
        chk.touched(co)
        T = flow.Terms(p, co)
        calls = names.calls_to(co, target)
        ads = names.calls_to(co, "RpIdVerifier::assert_domain")
        if not chk.require("R6 binding", "R6|Client::%s|sites" % nm, len(calls) == 1 and len(ads) == 1, where(co), "expected one %s call and one assert_domain call (found %d, %d)" % (target, len(calls), len(ads))):
            continue
        cb, ct = calls[0]
        conds = flow.conditions(p, co, cb, T)
        cut = any(t[0] == "discr" and t[1][0] == "try" and has_call(t[1], "RpIdVerifier::assert_domain") and labs == ("in", "0") for sb, labs, t in conds)
        chk.ob("R6 binding", "R6a|Client::%s|validated-before-authenticator" % nm, cut, where(co, cb),
               "authenticator call is %scut by the success edge of assert_domain(..)?" % ("" if cut else "NOT "))
        # request aggregate field
        req = flow.simplify_term(T.operand(ct["args"][1], cb, "t"))
        val = req
        for f in field:
            if isinstance(val, tuple) and val and val[0] == "agg":
                val = dict(val[3]).get(f)
            else:
                val = None
                break
        okb = isinstance(val, tuple) and val and val[0] == "payload" and val[1][0] == "call" and names.is_(val[1][1], "RpIdVerifier::assert_domain")
        chk.ob("R6 binding", "R6b|Client::%s|request-rp-id" % nm, okb, where(co, cb), "Request.%s = %s" % (".".join(field), flow.term_str(val) if val else "?"))
        # arguments of assert_domain: the caller's origin and the request's rp id
        ab, at = ads[0]
        o_t = flow.simplify_term(T.operand(at["args"][1], ab, "t"))
        r_t = flow.simplify_term(T.operand(at["args"][2], ab, "t"))
        want = ("rp", "id") if nm == "register" else ("rp_id",)
        base, fs = r_t, []
        from .common import term_fields
        base, fs = term_fields(r_t)
        okr = fs[-len(want):] == list(want) and flow.term_contains(base, lambda x: x == ("upvar", 2))
        oko = flow.term_contains(o_t, lambda x: x == ("upvar", 1))
        chk.ob("R6 binding", "R6d|Client::%s|assert_domain-args" % nm, okr and oko, where(co, ab), "assert_domain(origin=%s, rp_id=%s)" % (flow.term_str(o_t), flow.term_str(r_t)))
    # R5 relies on the registrable-domain test rejecting names with empty labels: the label-aware suffix test lets an RP ID
    # with a leading '.' through on purpose (".example.com" for host "www.example.com") and leaves it to this test
    from .common import etld_rejects_empty_labels
    found, okel, et, cbl, wit = etld_rejects_empty_labels(p)
    if chk.require("R5 registrable domain", "R5|effective_tld_plus_one", found and cbl is not None, "public_suffix", "ListProvider::effective_tld_plus_one / its lookup not found"):
        chk.touched(et)
        chk.ob("R5 registrable domain", "R5|registrable-domain-test-rejects-empty-labels", okel, where(et, cbl), wit)
    chk.floor("R1", 1)
    chk.floor("R2", 1)
    # the default-features build has no Android origin: one group less in R3..R6
    chk.floor("R3", 3, default=2)
    chk.floor("R4", 2, default=1)
    chk.floor("R5", 6, default=4)
    chk.floor("R6", 8, default=7)
    chk.assumptions = ["url::Url::domain/scheme and idna behave as documented", "the PSL data itself is C10", "string semantics of the suffix test beyond separator evidence are not decided"]
