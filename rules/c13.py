"""C13 — CTAP2 messages use the specified integer keys; status bytes partition.

R1 numbering  : the discriminants of each macro-generated `Ident` enum (compiler facts) equal the CTAP member numbers of the
                message struct it belongs to (frozen table tables/ctap2_members.json).
R2 order      : discriminants are strictly ascending in declaration order (= serialisation order of the generated impl).
R3 optionals  : read off the MIR of the generated struct_len / Serialize / visit_map: exactly the Option-typed members are
                skipped when None (in *both* struct_len and the entry writer) and default when missing; non-Option members are
                required unless the table marks them defaulted (`options`).
R4 defaults   : for the request Options and the getInfo Options: Default::default() and the value the derived Deserialize uses
                for a missing member agree with the CTAP defaults (request: rk=false, up=true, uv=false; getInfo: plat=false, rk=false, up=true).
R5 macro contract : in every generated visit_map each known key goes through the duplicate check before its value is read,
                unknown keys consume an IgnoredAny, missing required members raise missing_field; integer keys map through
                from_repr(..).unwrap_or(Unknown).
R6 status partition : the accepted byte sets of Ctap2Error / UnknownSpecError / ExtensionError / VendorError (decision tables of
                their TryFrom<u8>) are pairwise disjoint, their union with U2FError's is 0..=255 (StatusCode::from is total), each
                known code maps to the variant whose discriminant is that byte, and each class converts back to the same byte.
R7 client mapping : From<StatusCode> for WebauthnError maps exactly Ctap2(Known(NoCredentials)) to CredentialNotFound and
                every other code to AuthenticatorError(byte of that code); Client::authenticate applies that conversion.
"""
import json
import os

from . import core, flow, names, normal, summary
from .framework import where, short, api_name, VERIF
from .common import CLIENT, ceremony, find_aggs


def load_table():
    with open(os.path.join(VERIF, "tables", "ctap2_members.json")) as fh:
        return json.load(fh)


def byte_set(conds, param):
    """values of u8 `param` satisfying every comparison / switch condition on it (set algebra, nothing is executed)"""
    s = set(range(256))
    for t, labs, fn, w in conds:
        if t == param:
            vals = {int(x) for x in labs[1:]}
            s &= vals if labs[0] == "in" else (set(range(256)) - vals)
            continue
        if isinstance(t, tuple) and t and t[0] == "binop" and t[1] in ("Le", "Lt", "Ge", "Gt", "Eq", "Ne"):
            a, b = t[2], t[3]
            truth = flow.lab_true(labs)
            if not truth and not flow.lab_false(labs):
                continue
            op = t[1]
            if a == param and b[0] == "const" and isinstance(b[1], int):
                c = b[1]
                f = {"Le": lambda x: x <= c, "Lt": lambda x: x < c, "Ge": lambda x: x >= c, "Gt": lambda x: x > c, "Eq": lambda x: x == c, "Ne": lambda x: x != c}[op]
            elif b == param and a[0] == "const" and isinstance(a[1], int):
                c = a[1]
                f = {"Le": lambda x: c <= x, "Lt": lambda x: c < x, "Ge": lambda x: c >= x, "Gt": lambda x: c > x, "Eq": lambda x: x == c, "Ne": lambda x: x != c}[op]
            else:
                continue
            s = {x for x in s if f(x) == truth}
            continue
        # range membership spelled with the range types: (a..=b).contains(&x), (a..b).contains(&x), (a..).contains(&x)
        if isinstance(t, tuple) and len(t) == 4 and t[0] == "call" and t[1].endswith("::contains") and len(t[2]) == 2 and t[2][1] == param:
            truth = flow.lab_true(labs)
            if not truth and not flow.lab_false(labs):
                continue
            r = t[2][0]
            lo, hi = 0, 255
            okr = False
            if isinstance(r, tuple) and len(r) == 4 and r[0] == "agg":
                d = dict(r[3])
                nm = r[1].rsplit("::", 1)[-1]
                cv = lambda k: d[k][1] if k in d and d[k][0] == "const" and isinstance(d[k][1], int) else None
                if nm == "RangeInclusive" and cv("start") is not None and cv("end") is not None:
                    lo, hi, okr = cv("start"), cv("end"), True
                elif nm == "Range" and cv("start") is not None and cv("end") is not None:
                    lo, hi, okr = cv("start"), cv("end") - 1, True
                elif nm == "RangeFrom" and cv("start") is not None:
                    lo, okr = cv("start"), True
                elif nm == "RangeToInclusive" and cv("end") is not None:
                    hi, okr = cv("end"), True
            elif is_call_term(r, "RangeInclusive::new") and all(a[0] == "const" and isinstance(a[1], int) for a in r[2]):
                lo, hi, okr = r[2][0][1], r[2][1][1], True
            if okr:
                s = {x for x in s if (lo <= x <= hi) == truth}
    return s


from .c02 import sub as _sub13


def is_call_term(x, pat):
    return isinstance(x, tuple) and len(x) == 4 and x[0] == "call" and isinstance(x[1], str) and names.is_(x[1], pat)


def run(chk):
    p = core.load_program("all")
    chk.configs = ["all-features"]
    chk.explanation = __doc__
    tab = load_table()
    S = summary.Summaries(p)

    idents = sorted((a for a in p.adts.values() if a["id"].endswith("::Ident") and a["id"].startswith("passkey_types::ctap2")), key=lambda a: a["id"])
    chk.require("R1 numbering", "R1|idents", len(idents) == len(tab["structs"]), "passkey_types::ctap2", "found %d generated Ident enums, the table lists %d message structs" % (len(idents), len(tab["structs"])))
    seen = set()
    n_members = 0
    for a in idents:
        pre = a["id"].rsplit("::", 1)[0]
        mod = pre.rsplit("::", 1)[0]
        vnames = [v["name"] for v in a["variants"] if v["name"] != "Unknown"]
        cands = [x for x in p.adts.values() if x["id"].startswith(mod + "::") and x["kind"] == "Struct" and x["id"].count("::") == mod.count("::") + 1
                 and [f["name"] for f in x["variants"][0]["fields"]] == vnames]
        if not chk.require("R1 numbering", "R1|%s|struct" % pre, len(cands) == 1, a["span"]["file"], "no unique struct whose fields are %s" % vnames):
            continue
        st = cands[0]
        sid = st["id"]
        seen.add(sid)
        spec = tab["structs"].get(sid)
        sn = "::".join(sid.split("::")[-2:])
        if not chk.require("R1 numbering", "R1|%s|spec" % sn, spec, sid, "struct %s is not in tables/ctap2_members.json" % sid):
            continue
        got = {v["name"]: int(v["discr"]) for v in a["variants"] if v["name"] != "Unknown"}
        n_members += len(got)
        bad = {k: (got.get(k), spec["members"].get(k)) for k in set(got) | set(spec["members"]) if got.get(k) != spec["members"].get(k)}
        chk.ob("R1 numbering", "R1|%s" % sn, not bad, "%s:%d" % (a["span"]["file"], a["span"]["line"]),
               ("member numbers differ from CTAP (got, spec): %s" % bad) if bad else "%d members match the CTAP numbering %s" % (len(got), got))
        ds = [int(v["discr"]) for v in a["variants"]]
        chk.ob("R2 order", "R2|%s" % sn, all(x < y for x, y in zip(ds, ds[1:])) and a["variants"][-1]["name"] == "Unknown" and ds[-1] <= 255, "%s:%d" % (a["span"]["file"], a["span"]["line"]),
               "discriminants in declaration order: %s" % ds)
        # R3: generated code
        bodies = {b.id[len(pre) + 2:]: b for b in p.all_bodies if b.id.startswith(pre + "::")}
        sl = bodies.get("struct_len")
        if sl is None:
            # the generated entry counter by its signature: the one function next to the Ident taking &Struct and giving usize
            cand_sl = [b for k, b in bodies.items() if b.def_kind == "Fn" and b.j.get("arg_count") == 1 and (b.j["locals"][0].get("ty") or "") == "usize" and (b.j["locals"][1].get("ty") or "").replace(" ", "") == "&" + st["path"]]
            sl = cand_sl[0] if len(cand_sl) == 1 else None
        ser = [b for k, b in bodies.items() if k.endswith("::serialize") and "Serialize for %s" % sid in b.path or (k.endswith("::serialize") and b.j.get("root_item", {}).get("impl", {}).get("self_adt") == st["path"])]
        vm = [b for k, b in bodies.items() if k.endswith("::visit_map") and "{closure" not in k]
        if not chk.require("R3 optionals", "R3|%s|generated" % sn, sl is not None and len(ser) == 1 and len(vm) == 1, sid, "generated struct_len/serialize/visit_map not found (%s, %d, %d)" % (sl is not None, len(ser), len(vm))):
            continue
        ser, vm = ser[0], vm[0]
        for b in (sl, ser, vm):
            chk.touched(b)
        fields = st["variants"][0]["fields"]
        opt_fields = [f["name"] for f in fields if f["ty"].startswith("core::option::Option<")]

        def skip_set(b):
            out = []
            T = flow.Terms(p, b)
            for bb, t in b.calls():
                if names.call_is(t, "Option::is_none"):
                    a0 = flow.simplify_term(T.operand(t["args"][0], bb, "t"))
                    if a0[0] == "field" and a0[1][0] == "param":
                        out.append(a0[2])
            return sorted(out)

        s1, s2 = skip_set(sl), skip_set(ser)
        chk.ob("R3 optionals", "R3|%s|skipped-when-none" % sn, s1 == sorted(opt_fields) and s2 == sorted(opt_fields) and sorted(spec["optional"]) == sorted(opt_fields), where(ser),
               "struct_len skips %s; entry writer skips %s; Option-typed members %s; optional per CTAP %s" % (s1, s2, sorted(opt_fields), sorted(spec["optional"])))
        # entries written in declaration order
        order = []
        for bb, t in sorted(ser.calls(), key=lambda x: x[1]["line"] * 1000 + x[0]):
            if names.call_is(t, "SerializeMap::serialize_entry"):
                T = flow.Terms(p, ser)
                k = flow.simplify_term(T.operand(t["args"][1], bb, "t"))
                v = flow.simplify_term(T.operand(t["args"][2], bb, "t"))
                kn = k[2] if k[0] == "agg" else None
                vf = v[2] if v[0] == "field" else None
                order.append((kn, vf))
        okord = [k for k, v in order] == vnames and all(k == v for k, v in order)
        chk.ob("R3 optionals", "R3|%s|entries-key-value-paired" % sn, okord, where(ser), "serialize_entry(key, value) pairs in order: %s" % order)
        # visit_map: defaults vs required
        dflt, reqd = [], []
        for bb, t in vm.calls():
            if names.call_is(t, "Option::unwrap_or_default") or names.call_is(t, "Option::ok_or_else"):
                pl = flow.op_place(t["args"][0])
                nm = vm.local_name(flow.DefUse(vm).trace_copy(pl[0])[-1]) if pl else None
                (dflt if names.call_is(t, "Option::unwrap_or_default") else reqd).append(nm)
        exp_d = sorted(spec["optional"] + spec["defaulted"])
        exp_r = sorted(f["name"] for f in fields if f["name"] not in exp_d)
        chk.ob("R3 optionals", "R3|%s|defaults-and-required" % sn, sorted(dflt) == exp_d and sorted(reqd) == exp_r, where(vm),
               "default when missing: %s (expected %s); required (missing_field): %s (expected %s)" % (sorted(dflt), exp_d, sorted(reqd), exp_r))
        # R5
        dup = [t for bb, t in vm.calls() if names.call_is(t, "serde_workaround::set_if_none", "serde_workaround::check_is_already_set")]
        ign = [t for bb, t in vm.calls() if names.call_is(t, "MapAccess::next_value") and "IgnoredAny" in " ".join(t.get("gargs", []))]
        raw_next = [t for bb, t in vm.calls() if names.call_is(t, "MapAccess::next_value") and "IgnoredAny" not in " ".join(t.get("gargs", []))]
        checks = [t for bb, t in vm.calls() if names.call_is(t, "serde_workaround::check_is_already_set")]
        chk.ob("R5 macro contract", "R5|%s|duplicate-check-per-key" % sn, len(dup) == len(vnames) and len(raw_next) == len(checks) and len(ign) == 1, where(vm),
               "%d known keys; %d go through set_if_none/check_is_already_set; %d direct next_value reads (each preceded by a check: %d); IgnoredAny reads: %d" % (len(vnames), len(dup), len(raw_next), len(checks), len(ign)))
        miss = False
        for b in p.nested_of(vm):
            if any(names.call_is(t, "Error::missing_field") for bb, t in b.calls()):
                miss = True
        chk.ob("R5 macro contract", "R5|%s|missing-field" % sn, miss == bool(exp_r), where(vm), "required members raise missing_field: %s" % miss)
        v8 = bodies.get([k for k in bodies if k.endswith("::visit_u8")][0]) if [k for k in bodies if k.endswith("::visit_u8")] else None
        if v8 is not None:
            T = flow.Terms(p, v8)
            rets = v8.return_blocks()
            rt = flow.simplify_term(T.place(0, (), rets[0], "t")) if rets else None
            ok = rt is not None and flow.term_contains(rt, lambda x: isinstance(x, tuple) and len(x) == 4 and x[0] == "call" and x[1].endswith("from_repr")) \
                and flow.term_contains(rt, lambda x: isinstance(x, tuple) and len(x) == 4 and x[0] == "call" and names.is_(x[1], "Option::unwrap_or") and x[2][1][0] == "agg" and x[2][1][2] == "Unknown")
            chk.ob("R5 macro contract", "R5|%s|integer-keys" % sn, ok, where(v8), "visit_u8 = %s" % (flow.term_str(rt) if rt else "?"))
    missing = set(tab["structs"]) - seen
    chk.ob("R1 numbering", "R1|all-messages-covered", not missing, "passkey_types::ctap2", "message structs of the table without a generated Ident: %s" % sorted(missing))
    chk.extra["members"] = n_members

    # shared helpers of the macro
    sin = [b for b in p.all_bodies if b.path.endswith("serde_workaround::set_if_none")] or [b for b in [p.role_bodies.get("set_if_none")] if b is not None]
    cis = [b for b in p.all_bodies if b.path.endswith("serde_workaround::check_is_already_set")] or [b for b in [p.role_bodies.get("check_is_already_set")] if b is not None]
    if chk.require("R5 macro contract", "R5|helpers", len(sin) == 1 and len(cis) == 1, "passkey_types::utils::serde_workaround", "set_if_none / check_is_already_set not found"):
        b = sin[0]
        chk.touched(b)
        cks = names.calls_to(b, "serde_workaround::check_is_already_set")
        nv = names.calls_to(b, "MapAccess::next_value")
        ok = len(cks) == 1 and len(nv) == 1 and flow.cut_by_blocks(b, 0, [nv[0][0]], [cks[0][0]])
        tr = [t for t in flow.try_sites(b) if t["operand"] and t["operand"][0] == cks[0][1]["dest"]["l"]] if cks else []
        ok = ok and len(tr) == 1 and flow.cut_by_edges(b, 0, [nv[0][0]], [(tr[0]["switch_bb"], tr[0]["continue_bb"])])
        chk.ob("R5 macro contract", "R5|set_if_none|check-before-read", ok, where(b), "next_value is cut by the success edge of check_is_already_set: %s" % ok)
        b = cis[0]
        chk.touched(b)
        outs = S.local_outcomes(b)
        err_dup = [o for o in outs if o.variant[:1] == ("Err",) and flow.term_contains(o.value, lambda x: isinstance(x, tuple) and len(x) == 4 and x[0] == "call" and x[1].endswith("duplicate_field"))
                   and any(t[0] == "call" and names.is_(t[1], "Option::is_some") and flow.lab_true(labs) for t, labs, fn, w in o.conds)]
        okrows = [o for o in outs if o.variant[:1] == ("Ok",) and any(t[0] == "call" and names.is_(t[1], "Option::is_some") and flow.lab_false(labs) for t, labs, fn, w in o.conds)]
        chk.ob("R5 macro contract", "R5|check_is_already_set|table", len(err_dup) == 1 and len(okrows) == 1 and len(outs) == 2, where(b), "rows: %s" % [(o.vstr(), o.cond_strs()) for o in outs])

    # ---------------- R4
    for mod, key, tname in (("make_credential", "option_defaults", "Options"), ("get_info", "get_info_option_defaults", "get_info::Options")):
        want = tab[key]
        opts = [a for a in p.adts.values() if a["id"] == "passkey_types::ctap2::%s::Options" % mod]
        if not chk.require("R4 defaults", "R4|%s" % tname, len(opts) == 1, "passkey_types::ctap2::" + mod, "Options struct not found"):
            continue
        d = p.method(opts[0]["path"], "default", trait="core::default::Default")
        if chk.require("R4 defaults", "R4|%s::default" % tname, d, opts[0]["path"], "impl Default for Options not found"):
            chk.touched(d)
            ag = find_aggs(d, "Options")
            vals = {}
            for bb, i, rv in ag:
                for f, o in zip(rv["fields"], rv["ops"]):
                    if f in want:
                        vals[f] = bool(flow.const_bits(o)) if flow.const_bits(o) is not None else None
            chk.ob("R4 defaults", "R4|%s::default" % tname, vals == want, where(d), "Options::default() = %s (CTAP: %s)" % (vals, want))
        # the value the derived Deserialize uses for a missing member: read off the generated visit_map — on the edge where
        # the member's slot is still None after the key loop
        vm = [b for b in p.all_bodies if b.path.endswith("::visit_map") and ("for passkey_types::ctap2::%s::Options>" % mod) in b.path]
        if chk.require("R4 defaults", "R4|%s|visit_map" % tname, len(vm) >= 1, opts[0]["path"], "derived Deserialize of Options not found"):
            b = vm[0]
            chk.touched(b)
            T = flow.Terms(p, b)
            ag = find_aggs(b, "Options")
            got = {}
            S2 = summary.Summaries(p)
            for bb, i, rv in ag:
                for f, o in zip(rv["fields"], rv["ops"]):
                    if f not in want:
                        continue
                    t = flow.simplify_term(T.operand(o, bb, i))
                    if t[0] == "gamma":
                        cands = [v for l, v in t[2] if (flow.presence_test(t[1], l) or (None, None))[1] is False]
                    else:
                        cands = t[1] if t[0] == "phi" else [t]
                    defaults = []
                    for x in cands:
                        if x[0] == "call" and names.is_(x[1], "Default::default"):
                            defaults.append(False)
                        elif x == ("const", 0) or x == ("const", 1):
                            defaults.append(bool(x[1]))
                        elif x[0] == "call" and x[1] in p.bodies:
                            o2 = S2.outcomes(p.bodies[x[1]])
                            defaults += [bool(r.value[1]) for r in o2 if r.value[0] == "const"]
                    got[f] = defaults[0] if len(defaults) == 1 else defaults
            chk.ob("R4 defaults", "R4|%s|serde-defaults" % tname, got == want, where(b), "value used for a missing member: %s (CTAP: %s)" % (got, want))
            # encode side of the same clause: a member the encoder leaves out decodes to the absent-default, so leaving it
            # out is sound only for that value. Each member is either written on every path, or the guard of its
            # write is evaluated for both truth values and must skip exactly the absent-default (a guard the engine
            # cannot evaluate is reported as undecided, not accepted).
            from . import serde_model as _sm
            Nk = normal.Normalizer(p, S2)
            for sb in _sm.bodies_of_impl(p, "Serialize", opts[0]["id"]):
                chk.touched(sb)
                Ts = flow.Terms(p, sb)
                seen_m, bad_m = {}, []
                for bb, t in sb.calls():
                    if not names.call_is(t, "SerializeStruct::serialize_field", "SerializeMap::serialize_entry"):
                        continue
                    val = flow.simplify_term(Ts.operand(t["args"][2], bb, "t"))
                    fld = next((x[2] for x in _sm.sub(val) if isinstance(x, tuple) and len(x) == 3 and x[0] == "field" and x[1] == ("param", 1)), None)
                    if fld not in want:
                        continue
                    guards = [(l, c) for s0, l, c in flow.conditions(p, sb, bb, Ts)
                              if not (c[0] == "discr" and isinstance(c[1], tuple) and c[1] and c[1][0] == "try") and _sm.is_conditional([(s0, l, c)])]
                    seen_m[fld] = "always" if not guards else "guarded"
                    for l, c in guards:
                        for v in (0, 1):
                            cv = Nk.norm(summary.replace(c, ("field", ("param", 1), fld), ("const", v)))
                            ds = normal.dnf_cond(cv, l)
                            written = True if ds == [[]] else (False if ds == [] else None)
                            if written is None:
                                bad_m.append("%s: guard %s not evaluated for %s = %s" % (fld, flow.term_str(c)[:70], fld, bool(v)))
                            elif not written and bool(v) != got.get(fld):
                                bad_m.append("%s = %s is left out but an absent %s decodes to %s" % (fld, bool(v), fld, got.get(fld)))
                chk.ob("R4 defaults", "R4|%s|left-out-only-at-the-absent-default" % tname, not bad_m and set(seen_m) == set(want), where(sb),
                       "members written by the encoder: %s; problems: %s" % (seen_m, bad_m))

    # ---------------- R6
    classes = {}
    E = "passkey_types::ctap2::error::"
    for nm in ("Ctap2Error", "U2FError", "UnknownSpecError", "ExtensionError", "VendorError"):
        b = p.method(E + nm, "try_from", trait="core::convert::TryFrom")
        if not chk.require("R6 status partition", "R6|%s|try_from" % nm, b, E + nm, "TryFrom<u8> for %s not found" % nm):
            continue
        chk.touched(b)
        # the conversion evaluated as a table over all 256 byte values (normal.finite_table: the extracted decision table with
        # the parameter replaced by each constant and the conditions folded) — match ranges, comparison ladders, range tables
        # searched with `any`, helper predicates all give the same table
        Nf = normal.Normalizer(p, S)
        tab_b = normal.finite_table(S, b, Nf, ("param", 1), range(256))
        acc = set()
        mapping_ok = all(v is not None for v in tab_b.values())
        adt = p.adts.get(E + nm)
        discr = {v["name"]: int(v["discr"]) for v in adt["variants"]} if adt and adt["kind"] == "Enum" else None
        for k_, hit in tab_b.items():
            if hit is None:
                continue
            val = hit[1]
            if not (isinstance(val, tuple) and len(val) == 4 and val[0] == "agg"):
                mapping_ok = False
                continue
            if val[2] != "Ok":
                continue
            acc.add(k_)
            v = dict(val[3]).get("0")
            if discr is not None:
                vn = v[2] if v and v[0] == "agg" else None
                if vn is None or discr.get(vn) != k_:
                    mapping_ok = False
            else:
                inner = dict(v[3]).get("0") if v and v[0] == "agg" else None
                if inner != ("const", k_):
                    mapping_ok = False
        classes[nm] = acc
        chk.ob("R6 status partition", "R6|%s|byte-to-value" % nm, mapping_ok and bool(acc), where(b),
               "%d accepted bytes; each maps to the variant with that discriminant / wraps the byte itself: %s" % (len(acc), mapping_ok))
        if discr is not None:
            chk.ob("R6 status partition", "R6|%s|accepted=discriminants" % nm, acc == set(discr.values()), where(b), "accepted %d bytes, %d discriminants" % (len(acc), len(discr)))
        # back conversion
        back = p.method("u8", "from", trait="core::convert::From") if False else None
    if len(classes) == 5:
        c2 = ["Ctap2Error", "UnknownSpecError", "ExtensionError", "VendorError"]
        overl = [(a, b, sorted(classes[a] & classes[b])[:4]) for i, a in enumerate(c2) for b in c2[i + 1:] if classes[a] & classes[b]]
        chk.ob("R6 status partition", "R6|ctap2-classes-disjoint", not overl, E, "overlapping classes: %s" % overl if overl else "the four CTAP2 classes are pairwise disjoint (%s bytes)" % [len(classes[c]) for c in c2])
        union2 = set().union(*(classes[c] for c in c2))
        rest = set(range(256)) - union2
        chk.ob("R6 status partition", "R6|total", rest <= classes["U2FError"], E,
               "bytes in no CTAP2 class: %s; all of them are U2FError discriminants (so StatusCode::from's unwrap is total): %s" % (sorted(rest), rest <= classes["U2FError"]))
        st = tab["status"]
        chk.ob("R6 status partition", "R6|spec-ranges", classes["ExtensionError"] == set(range(st["extension"][0], st["extension"][1] + 1)) and classes["VendorError"] == set(range(st["vendor"][0], st["vendor"][1] + 1))
               and classes["U2FError"] == set(st["ctap1"]) and classes["Ctap2Error"] == set(st["ctap2_named"]), E,
               "extension %s..%s, vendor %s..%s, ctap1 %s" % (min(classes["ExtensionError"]), max(classes["ExtensionError"]), min(classes["VendorError"]), max(classes["VendorError"]), sorted(classes["U2FError"])))
        nc = p.adts.get(E + "Ctap2Error")
        ncv = {v["name"]: int(v["discr"]) for v in nc["variants"]}.get("NoCredentials") if nc else None
        chk.ob("R6 status partition", "R6|NoCredentials", ncv == st["no_credentials"], E + "Ctap2Error", "NoCredentials = 0x%02x" % (ncv or 0))
    # conversions back to the byte
    for nm in ("Ctap2Error", "U2FError"):
        bs = [b for b in p.all_bodies if b.path == "<u8 as core::convert::From<%s%s>>::from" % (E, nm) or (b.path.endswith("::from") and "From<%s%s> for u8" % (E, nm) in b.path)]
        if chk.require("R6 status partition", "R6|%s|to-byte" % nm, len(bs) == 1, E + nm, "From<%s> for u8 not found" % nm):
            o = S.local_outcomes(bs[0])
            ok = len(o) == 1 and o[0].value[0] == "cast" and flow.term_contains(o[0].value, lambda x: x == ("param", 1))
            chk.ob("R6 status partition", "R6|%s|to-byte" % nm, ok, where(bs[0]), "u8::from(%s) = %s" % (nm, [flow.term_str(x.value) for x in o]))
    for nm in ("UnknownSpecError", "ExtensionError", "VendorError"):
        bs = [b for b in p.all_bodies if b.path.endswith("::from") and "From<%s%s> for u8" % (E, nm) in b.path]
        if chk.require("R6 status partition", "R6|%s|to-byte" % nm, len(bs) == 1, E + nm, "From<%s> for u8 not found" % nm):
            o = S.local_outcomes(bs[0])
            ok = len(o) == 1 and o[0].value == ("field", ("param", 1), "0")
            chk.ob("R6 status partition", "R6|%s|to-byte" % nm, ok, where(bs[0]), "u8::from(%s) = %s" % (nm, [flow.term_str(x.value) for x in o]))

    client_mapping(chk, p, S, tab)
    chk.floor("R1", 7)
    chk.floor("R2", 6)
    chk.floor("R3", 18)
    chk.floor("R4", 4)
    chk.floor("R5", 20)
    chk.floor("R6", 14)
    chk.floor("R7", 3)
    chk.assumptions = ["ciborium encodes u8 keys as CBOR unsigned integers and maps in insertion order", "strum's from_repr matches discriminants"]


def client_mapping(chk, p, S, tab, R="R7 client mapping", K="R7"):
    # ---------------- R7
    conv = [b for b in p.methods_named("passkey_client::WebauthnError", "from", trait="core::convert::From") if "StatusCode" in b.path]
    if chk.require(R, K + "|conversion", len(conv) == 1, "passkey_client::WebauthnError", "From<StatusCode> for WebauthnError not found"):
        b = conv[0]
        chk.touched(b)
        outs = S.local_outcomes(b)
        nf = [o for o in outs if o.value[0] == "agg" and o.value[2] == "CredentialNotFound"]
        ae = [o for o in outs if o.value[0] == "agg" and o.value[2] == "AuthenticatorError"]
        ok_nf = len(nf) == 1
        wit = []
        if ok_nf:
            cs = nf[0].cond_strs()
            wit.append("CredentialNotFound iff %s" % cs)
            need = [("StatusCode discriminant = Ctap2", lambda t, l: flow.is_discr(t, ("param", 1)) and l == ("in", "1")),
                    ("Ctap2Code discriminant = Known", lambda t, l: t[0] == "discr" and t[1][0] == "field" and l == ("in", "0")),
                    ("Ctap2Error = NoCredentials", lambda t, l: (t[0] == "discr" or t[0] == "field") and l == ("in", str(tab["status"]["no_credentials"])))]
            for nm, f in need:
                if not any(f(t, l) for t, l, fn, w in nf[0].conds):
                    ok_nf = False
                    wit.append("missing condition: " + nm)
        # every AuthenticatorError row carries the byte of the same code
        ok_ae = len(ae) >= 2
        for o in ae:
            v = dict(o.value[3]).get("0")
            if not (v and v[0] == "call" and names.is_(v[1], "Into::into") or (v and flow.term_contains(v, lambda x: x == ("param", 1)))):
                ok_ae = False
            if v and not flow.term_contains(v, lambda x: x == ("param", 1)):
                ok_ae = False
        chk.ob(R, K + "|NoCredentials->CredentialNotFound", ok_nf and len(outs) == len(nf) + len(ae), where(b), "; ".join(wit) or "no CredentialNotFound row")
        chk.ob(R, K + "|others-pass-through", ok_ae, where(b), "AuthenticatorError rows: %s" % [flow.term_str(o.value) for o in ae])
    au = ceremony(p, "authenticate", adt=CLIENT)
    if chk.require(R, K + "|authenticate", au, CLIENT, "Client::authenticate not found"):
        chk.touched(au)
        T = flow.Terms(p, au)
        aws = [a for a in flow.awaits(au) if a.call is not None and names.call_is(a.call, "Authenticator::get_assertion")]
        ok = False
        wit = "get_assertion await not found"
        if aws:
            # the error of the awaited get_assertion, as it leaves authenticate: the value on the failure side of whatever
            # test is applied to it (`map_err(f)?`, `match`, ...) in normal form must be conv(error) with conv the
            # From<StatusCode> for WebauthnError conversion (also spelled Into::into)
            from . import normal
            N = normal.Normalizer(p, summary.Summaries(p))
            is_ga = flow.await_pred(aws[0])
            ok_e, bad_e = flow.success_edges(p, au, is_ga, T)
            # conversions implemented in the workspace are kept as calls in these terms (From<StatusCode> for WebauthnError
            # is the mapping R7 is about, not an identity)
            T2 = flow.Terms(p, au)
            T2.conversions = True

            def is_conv(x):
                return isinstance(x, tuple) and len(x) == 4 and x[0] == "call" and isinstance(x[1], str) and "StatusCode" in x[1] and "WebauthnError" in x[1] and ("::From<" in x[1] or "::Into<" in x[1]) \
                    and len(x[2]) == 1 and flow.term_contains(x[2][0], lambda y: isinstance(y, tuple) and len(y) == 2 and y[0] == "errpayload" and is_ga(y[1]))
            convs = []
            after_fail = set()
            for sb, sc in bad_e:
                after_fail |= au.reachable(sc, removed_edges=ok_e, follow_yield_drop=False)
            for s_ in flow.outcome_sites(au):
                if s_["path"] != () or s_["bb"] not in after_fail or s_["kind"] not in ("Err", "residual", "use", "call", "other"):
                    continue
                v = N.norm(T2._rvalue(s_["rv"], s_["bb"], s_["idx"], 0) if s_.get("idx") is not None else T2._call(s_["term"], s_["bb"], 0))
                if not flow.term_contains(v, lambda y: isinstance(y, tuple) and len(y) == 2 and y[0] == "errpayload" and is_ga(y[1])):
                    continue  # an error that does not come from get_assertion
                # `x?` where the error types differ applies `From::from` to the error (FromResidual): the same conversion, spelled
                # by the operator — made explicit here when the residual is a StatusCode and the function returns WebauthnError
                if s_["kind"] == "residual" and s_.get("term") is not None:
                    ga_ = [g.replace(" ", "") for g in (s_["term"].get("gargs") or [])]
                    if len(ga_) >= 2 and ga_[0].endswith("WebauthnError>") and "Infallible" in ga_[1] and ga_[1].endswith("StatusCode>"):
                        fr_ = [b_ for (adt_, tr_, nm_), bs_ in p.methods.items() if nm_ == "from" and tr_ == "core::convert::From" and (adt_ or "").endswith("WebauthnError") for b_ in bs_ if "StatusCode" in (b_.j["locals"][1].get("ty") or "")]
                        if len(fr_) == 1:
                            inner_ = [y for y in _sub13(v) if isinstance(y, tuple) and len(y) == 2 and y[0] == "errpayload" and is_ga(y[1])][0]
                            v = ("call", fr_[0].path, (inner_,), 0)
                convs.append(v)
            wit = "error of get_assertion leaves as %s" % [flow.term_str(x)[:140] for x in convs]
            ok = bool(convs) and all(flow.term_contains(x, is_conv) for x in convs)
        chk.ob(R, K + "|Client::authenticate|uses-conversion", ok, where(au), wit)
