"""Private functions by what they are, not by what they are called.

The rule modules refer to a number of crate-private helpers by name (`Authenticator::check_user`, `hmac_secret::select_salts`,
`prf::make_salt`, `Client::map_rk`, …).  A private function can be renamed, moved to another module, or turned from a free
function into an associated one without any change of behaviour.  This module gives each such helper a *role*: a predicate
over the crate, the owner type and the signature (parameter / return types, what it calls).  When the tree has no function
of the canonical name, but exactly one private function fits the role, that function is registered under the canonical
name (names.ALIASES); every name-based lookup of the rules then finds it.  On a tree where the canonical names exist
nothing is registered.  A role that fits no function or several stays unresolved — the rules then report the anchor as
missing (fail closed).
"""
from . import names

PA, PC, PT, PH = "passkey_authenticator", "passkey_client", "passkey_types", "passkey_transports"


def _sig(b):
    n = b.j.get("arg_count", 0)
    tys = [(b.j["locals"][i].get("ty") or "") for i in range(0, n + 1)]
    return tys[0], tys[1:]


def _owner(b):
    ri = b.j.get("root_item") or {}
    imp = (ri.get("impl") or {}) if isinstance(ri, dict) else {}
    return (imp.get("self_adt") or "").rsplit("::", 1)[-1]


def _calls(p, b, *pats):
    for nb in p.nested(b.path):
        for bb, t in nb.calls():
            if names.call_is(t, *pats):
                return True
    return False


def _awaits(p, b, *pats):
    co = p.async_body(b)
    if co is None:
        return False
    return any(names.call_is(t, *pats) for bb, t in co.calls())


# canonical name -> (crate, canonical display names to register, predicate(p, body, ret, params))
ROLES = {
    "check_user": (PA, ("Authenticator::check_user",), lambda p, b, r, a: _owner(b) == "Authenticator" and _awaits(p, b, "UserValidationMethod::check_user")),
    "make_extensions": (PA, ("Authenticator::make_extensions", "extensions::make_extensions"), lambda p, b, r, a: "MakeExtensionOutputs" in r),
    "get_extensions": (PA, ("Authenticator::get_extensions", "extensions::get_extensions"), lambda p, b, r, a: "GetExtensionOutputs" in r),
    "make_prf": (PA, ("Authenticator::make_prf",), lambda p, b, r, a: "AuthenticatorPrfMakeOutputs" in r),
    "get_prf": (PA, ("Authenticator::get_prf",), lambda p, b, r, a: "AuthenticatorPrfGetOutputs" in r),
    "make_hmac_secret": (PA, ("Authenticator::make_hmac_secret",), lambda p, b, r, a: r.replace(" ", "").startswith("core::option::Option<passkey_types::passkey::StoredHmacSecret")),
    "select_salts": (PA, ("hmac_secret::select_salts",), lambda p, b, r, a: "HmacSecretSaltOrOutput" in r and r.startswith("core::option::Option") and any("AuthenticatorPrfInputs" in x for x in a)),
    "choose_algorithm": (PA, ("Authenticator::choose_algorithm",), lambda p, b, r, a: "iana::Algorithm" in r.replace("generated::", "") and "Result" in r and any("PublicKeyCredentialParameters" in x for x in a)),
    "convert_eval_to_ctap": (PC, ("prf::convert_eval_to_ctap", "extensions::prf::convert_eval_to_ctap"), lambda p, b, r, a: "AuthenticatorPrfValues" in r and any("AuthenticationExtensionsPrfValues" in x for x in a)),
    "make_salt": (PC, ("prf::make_salt", "extensions::prf::make_salt"), lambda p, b, r, a: r.replace(" ", "") == "[u8;32]" and _calls(p, b, "crypto::sha256", "sha256")),
    "registration_prf_to_ctap2_input": (PC, ("prf::registration_prf_to_ctap2_input",), lambda p, b, r, a: "make_credential::ExtensionInputs" in r and "bool" not in a and not _owner(b)),
    "make_ctap_extension": (PC, ("prf::make_ctap_extension",), lambda p, b, r, a: "make_credential::ExtensionInputs" in r and "bool" in a and not _owner(b)),
    "auth_prf_to_ctap2_input": (PC, ("prf::auth_prf_to_ctap2_input",), lambda p, b, r, a: "get_assertion::ExtensionInputs" in r and "bool" not in a and not _owner(b)),
    "get_ctap_extension": (PC, ("prf::get_ctap_extension",), lambda p, b, r, a: "get_assertion::ExtensionInputs" in r and "bool" in a and not _owner(b)),
    "registration_extension_ctap2_input": (PC, ("Client::registration_extension_ctap2_input",), lambda p, b, r, a: "make_credential::ExtensionInputs" in r and _owner(b) == "Client"),
    "auth_extension_ctap2_input": (PC, ("Client::auth_extension_ctap2_input",), lambda p, b, r, a: "get_assertion::ExtensionInputs" in r and _owner(b) == "Client"),
    "registration_extension_outputs": (PC, ("Client::registration_extension_outputs",), lambda p, b, r, a: "AuthenticationExtensionsClientOutputs" in r and any("make_credential::UnsignedExtensionOutputs" in x for x in a)),
    "auth_extension_outputs": (PC, ("Client::auth_extension_outputs",), lambda p, b, r, a: "AuthenticationExtensionsClientOutputs" in r and any("get_assertion::UnsignedExtensionOutputs" in x for x in a)),
    "map_rk": (PC, ("Client::map_rk",), lambda p, b, r, a: r == "bool" and any("AuthenticatorSelectionCriteria" in x for x in a) and any("get_info::Response" in x for x in a)),
    "to_packets": (PH, ("Message::to_packets",), lambda p, b, r, a: _owner(b) == "Message" and "PacketHeader" in r and r.startswith("alloc::vec::Vec")),
    "extend": (PH, ("Message::extend",), lambda p, b, r, a: _owner(b) == "Message" and any("ContHeader" in x for x in a) and "Result" in r),
    "check_is_already_set": (PT, ("serde_workaround::check_is_already_set",), lambda p, b, r, a: not _owner(b) and _calls(p, b, "Error::duplicate_field") and not _calls(p, b, "MapAccess::next_value") and any(x.replace(" ", "").startswith("&core::option::Option<") for x in a)),
    "set_if_none": (PT, ("serde_workaround::set_if_none",), lambda p, b, r, a: not _owner(b) and _calls(p, b, "MapAccess::next_value") and any(x.replace(" ", "").startswith("&mutcore::option::Option<") for x in a)),
    "node_label": ("public_suffix", ("ListProvider::node_label",), lambda p, b, r, a: _owner(b) == "ListProvider" and "str" in r and a[1:] == ["u32"]),
}


def fits(p, role):
    """private functions of the role's crate that fit its signature predicate (whatever they are called)"""
    crate, canon, pred = ROLES[role]
    out = []
    for b in p.all_bodies:
        if b.crate != crate or b.path != b.root or b.def_kind not in ("Fn", "AssocFn") or b.j.get("is_pub"):
            continue
        ri = b.j.get("root_item") or {}
        if isinstance(ri, dict) and (ri.get("impl") or {}).get("trait"):
            continue
        try:
            r, a = _sig(b)
            if pred(p, b, r, a):
                out.append(b)
        except Exception:
            continue
    return out


def install(p):
    """register aliases for roles whose canonical name is absent from this tree; -> {role: path} of what was registered"""
    done = {}
    privs = [b for b in p.all_bodies if b.path == b.root and b.def_kind in ("Fn", "AssocFn")]
    by_crate = {}
    for b in privs:
        by_crate.setdefault(b.crate, []).append(b)
    for role, (crate, canon, pred) in ROLES.items():
        cands = by_crate.get(crate, [])
        if any(b.path.rsplit("::", 1)[-1] == role for b in cands):
            continue  # the canonical name exists: nothing to do
        fits = []
        for b in cands:
            if b.j.get("is_pub"):
                continue
            ri = b.j.get("root_item") or {}
            if isinstance(ri, dict) and (ri.get("impl") or {}).get("trait"):
                continue
            try:
                r, a = _sig(b)
                if pred(p, b, r, a):
                    fits.append(b)
            except Exception:
                continue
        if len(fits) == 1:
            b = fits[0]
            extra = set(canon) | {role}
            for key in {b.path, names.strip_generics(b.path)}:
                names.ALIASES.setdefault(key, set()).update(extra)
            p.role_bodies[role] = b
            done[role] = b.path
    names._cache.clear()
    return done
