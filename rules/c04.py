"""C04 — no credential is created or used without user consent; flags are truthful.

R1 consent dominates effects : in make_credential every store call, key generation, extension evaluation and Ok return, and in
                               get_assertion every update_credential, signature, extension evaluation and Ok return, is cut by the
                               success edge of the `?` on the consent helper (a callee whose success rows all pass through
                               UserValidationMethod::check_user).
R2 consent decision table    : the complete path-sensitive decision table of the consent helper is read off the MIR; every
                               row must satisfy: uv ∧ capability≠Some(true) → Err without calling the validator; validator Err → Err;
                               up ∧ ¬presence → Err; uv ∧ ¬verification → Err; Ok(flags) with UP ⇔ presence reported and UV ⇔
                               verification reported, built from the empty flag set; validator called with (credential, up, uv).
R3 shown = used              : the credential shown to the user and the credential that signs are the same lookup result.
R4 nothing disclosed before consent : every outcome of get_assertion that does not pass the consent success edge has neither a
                               branch condition nor a value that depends on the credential lookup.
R5 flag provenance           : AuthenticatorData::set_flags receives exactly the consent helper's Ok payload in both ceremonies.
R6 waived presence           : make_credential with up=false returns Err before any effect; the client always sends up=true
                               and uv = (userVerification ≠ discouraged).
"""
from . import core, flow, names, normal, summary
from .framework import where, short, api_name
from .common import AUTH, CLIENT, ceremony, find_aggs, upvar_names, is_upvar_field, term_fields

UVM_CHECK = "UserValidationMethod::check_user"


def subterms(t):
    yield t
    if isinstance(t, frozenset):
        for x in t:
            yield from subterms(x)
    elif isinstance(t, tuple):
        for x in t:
            if isinstance(x, (tuple, frozenset)):
                yield from subterms(x)


def find_sub(t, pred):
    for x in subterms(t):
        if pred(x):
            return x
    return None


def is_await(x, pat):
    return isinstance(x, tuple) and len(x) == 4 and x[0] == "await" and isinstance(x[1], str) and names.is_(x[1], pat)


def flag_updates(term):
    """Flags::empty() .bitor_assign(A) .bitor_assign(B) -> (base, [A, B])"""
    ups = []
    while isinstance(term, tuple) and term and term[0] == "upd" and names.is_(term[1], "BitOrAssign::bitor_assign"):
        ups.append(term[3][0] if term[3] else None)
        term = term[2]
    return term, list(reversed(ups))


def const_name(t):
    if isinstance(t, tuple) and t and t[0] == "const" and isinstance(t[1], str):
        return t[1].rsplit("::", 1)[-1]
    return None


def is_empty_flags(t):
    """Flags(InternalBitFlags(0)) or Flags::empty()"""
    if isinstance(t, tuple) and t and t[0] == "agg":
        d = dict(t[3])
        v = d.get("0")
        return is_empty_flags(v) if isinstance(v, tuple) and v and v[0] == "agg" else v == ("const", 0)
    if isinstance(t, tuple) and t and t[0] == "call" and t[1].endswith("::empty"):
        return True
    return False


def run(chk):
    p = core.load_program("all")
    chk.configs = ["all-features"]
    chk.explanation = __doc__
    # shared clause (C13 R4): a request decoded from the wire whose options map omits `up` must ask for presence —
    # the absent-member defaults of the CTAP options (struct Default and the derived decoder's) are part of consent
    from .framework import borrow
    borrow(chk, "C13", ["R4|Options|serde-defaults", "R4|Options::default"], "C04: user presence is required unless the request says otherwise explicitly")
    S = summary.Summaries(p)
    N = normal.Normalizer(p, S)
    mc = ceremony(p, "make_credential")
    ga = ceremony(p, "get_assertion")
    if not chk.require("R1 consent dominates effects", "R1|ceremonies", mc is not None and ga is not None, AUTH, "ceremony bodies not found"):
        return
    chk.touched(mc)
    chk.touched(ga)

    # ---- locate the consent helper: the awaited workspace callee whose body awaits UserValidationMethod::check_user
    def consent_await(co):
        for a in flow.awaits(co):
            if a.call is None:
                continue
            for tb in p.local_callee_bodies(a.call):
                cb = p.async_body(tb)
                if cb is not None and any(x.call is not None and names.call_is(x.call, UVM_CHECK) for x in flow.awaits(cb)):
                    return a, tb, cb
        return None, None, None

    helpers = {}
    for co, nm in ((mc, "make_credential"), (ga, "get_assertion")):
        a, tb, cb = consent_await(co)
        if not chk.require("R1 consent dominates effects", "R1|%s|consent-call" % nm, a, where(co), "no awaited call to a consent helper (one that awaits UserValidationMethod::check_user)"):
            continue
        helpers[nm] = (a, tb, cb)
        T = flow.Terms(p, co)
        # the `?` on the consent result
        tries = [t for t in flow.try_sites(co) if t["operand"] and a.payload is not None and a.payload in flow.DefUse(co).trace_copy(t["operand"][0])]
        if not chk.require("R1 consent dominates effects", "R1|%s|try" % nm, len(tries) == 1, where(co, a.call_bb), "consent result is not propagated by a single `?`"):
            continue
        tr = tries[0]
        ok_edge = (tr["switch_bb"], tr["continue_bb"])
        effects = []
        if nm == "make_credential":
            pats = ("CredentialStore::find_credentials", "CredentialStore::save_credential", "CredentialStore::update_credential", "SecretKey::random",
                    "random_vec", "Authenticator::make_extensions", "CoseKeyPair::from_secret_key", "CredentialStore::get_info")
        else:
            pats = ("CredentialStore::save_credential", "CredentialStore::update_credential", "SignerMut::sign", "Signer::sign", "Authenticator::get_extensions",
                    "private_key_from_cose_key")
        for bb, t in co.calls():
            if names.call_is(t, *pats):
                effects.append((bb, names.strip_generics(core.callee_of(t)).rsplit("::", 2)[-2] + "::" + core.callee_of(t).rsplit("::", 1)[-1].split("<")[0]))
        for okb in flow.ok_sites(p, co, T):
            effects.append((okb, "return Ok"))
        chk.require("R1 consent dominates effects", "R1|%s|effects" % nm, len(effects) >= 4, where(co), "too few effect sites found: %s" % effects)
        for bb, what in effects:
            cut = flow.cut_by_edges(co, 0, [bb], [ok_edge])
            chk.ob("R1 consent dominates effects", "R1|%s|%s" % (nm, what), cut, where(co, bb),
                   "%s is %sreachable without the success edge of the consent check (bb%d->bb%d)" % (what, "un" if cut else "", ok_edge[0], ok_edge[1]))
        # R5 flag provenance
        sf = names.calls_to(co, "AuthenticatorData::set_flags")
        chk.require("R5 flag provenance", "R5|%s|set_flags" % nm, len(sf) == 1, where(co), "expected one set_flags call, found %d" % len(sf))
        for bb, t in sf:
            ft = flow.simplify_term(T.operand(t["args"][1], bb, "t"))
            ok = ft[0] == "payload" and is_await(ft[1], "Authenticator::check_user") or (ft[0] == "payload" and ft[1][0] == "await" and ft[1][1] == tb.path)
            chk.ob("R5 flag provenance", "R5|%s|set_flags-arg" % nm, ok, where(co, bb), "flags given to set_flags = %s" % flow.term_str(ft))

    # ---------------- R2: decision table of the consent helper
    if helpers:
        a, tb, cb = next(iter(helpers.values()))
        chk.touched(cb)
        outs = normal.rows(S, cb, N, deep=True)
        if S.imprecise:
            chk.note("path cap exceeded in %s" % sorted(S.imprecise))
        chk.extra["consent_table_rows"] = len(outs)
        uvn = upvar_names(p, cb)
        opt_i = [i for i, n in uvn.items() if n == "options"]
        opt_i = opt_i[0] if opt_i else 1
        self_i = [i for i, n in uvn.items() if n == "self"]
        self_i = self_i[0] if self_i else 0
        cred_i = [i for i, n in uvn.items() if n == "credential"]
        cred_i = cred_i[0] if cred_i else 2

        def opt(t, name):
            return t == ("field", ("upvar", opt_i), name)

        n_ok = n_err = 0
        problems = []
        rows_desc = []
        for o in outs:
            req = {"up": None, "uv": None}
            rep = {"presence": None, "verification": None}
            enabled = None
            uvm_called = False
            uvm_ok = None
            uvm_term = None
            for t, labs, fn, w in o.conds:
                for nme in ("up", "uv"):
                    if opt(t, nme):
                        req[nme] = flow.lab_true(labs)
                if t[0] == "field" and t[2] in ("presence", "verification") and flow.is_payload_of(t[1], lambda x: is_await(x, UVM_CHECK)):
                    rep[t[2]] = flow.lab_true(labs)
                if t[0] == "unop" and t[1] == "Not" and t[2][0] == "field" and t[2][2] in ("presence", "verification") and flow.is_payload_of(t[2][1], lambda x: is_await(x, UVM_CHECK)):
                    rep[t[2][2]] = flow.lab_false(labs)
                # capability == Some(true): `cap == Some(true)`, `cap != Some(true)` (false edge), `matches!(cap, Some(true))`
                is_cap = lambda x: isinstance(x, tuple) and len(x) == 4 and x[0] == "call" and names.is_(x[1], "UserValidationMethod::is_verification_enabled")
                e = flow.eq_test(t, labs)
                if e is not None and any(is_cap(x) for x in e[0]) and normal.some(("const", 1)) in e[0]:
                    enabled = e[1]
                if flow.asserts_fail(t, labs, is_cap):
                    enabled = False
                if flow.is_payload_of(t, is_cap):
                    a0, pol = flow.bool_atom(t, labs)
                    enabled = pol
                aw = find_sub(t, lambda x: is_await(x, UVM_CHECK))
                if aw is not None:
                    uvm_called = True
                    uvm_term = aw
                    if flow.asserts_ok(t, labs, lambda x: is_await(x, UVM_CHECK)):
                        uvm_ok = True
                    elif flow.asserts_fail(t, labs, lambda x: is_await(x, UVM_CHECK)):
                        uvm_ok = False
            desc = "req(up=%s,uv=%s) enabled=%s uvm(called=%s ok=%s) reported(p=%s,v=%s) -> %s" % (req["up"], req["uv"], enabled, uvm_called, uvm_ok, rep["presence"], rep["verification"], o.vstr())
            if o.variant[:1] == ("Ok",):
                n_ok += 1
                val = N.inline(dict(o.value[3]).get("0"))
                fs = flow.flagset(val)
                upn = sorted(fs) if fs is not None else ["?"]
                base = ("const", 0) if fs is not None else val
                desc += " flags=%s" % upn
                if req["uv"] and enabled is not True:
                    problems.append("Ok row with uv requested but verification capability not confirmed Some(true): " + desc)
                if not (uvm_called and uvm_ok):
                    problems.append("Ok row without a successful UserValidationMethod::check_user: " + desc)
                if req["up"] and rep["presence"] is not True:
                    problems.append("Ok row with up requested but presence not reported: " + desc)
                if req["uv"] and rep["verification"] is not True:
                    problems.append("Ok row with uv requested but verification not reported: " + desc)
                # a row that does not test a requested option stands for both of its values: the gesture must be shown then
                if (req["up"] is None and rep["presence"] is not True) or (req["uv"] is None and not (rep["verification"] is True and enabled is True)):
                    problems.append("Ok row that does not test the requested options: " + desc)
                exp = sorted(([] if not rep["presence"] else ["UP"]) + ([] if not rep["verification"] else ["UV"]))
                fc = flow.flag_conditions(val) if fs is None else None
                if fc is not None and uvm_term is not None:
                    # `flags.set(UP, result.presence)`: the bit is the reported value itself, whatever it is
                    bad_fc = [k for k in fc if k not in ("UP", "UV")]
                    for nm_, fld_ in (("UP", "presence"), ("UV", "verification")):
                        m_ = fc.get(nm_, False)
                        reported = isinstance(m_, tuple) and len(m_) == 3 and m_[0] == "field" and m_[2] == fld_ and flow.is_payload_of(m_[1], lambda x: x == uvm_term)
                        if not (reported or (m_ is True and rep[fld_] is True) or (m_ is False and rep[fld_] is False)):
                            bad_fc.append(nm_)
                    if bad_fc:
                        problems.append("flags %s do not equal reported presence/verification: %s" % ({k: (v if v is True else flow.term_str(v)[:60]) for k, v in fc.items()}, desc))
                elif rep["presence"] is None or rep["verification"] is None:
                    problems.append("Ok row whose flags are not conditioned on both reported results: " + desc)
                elif upn != exp or fs is None:
                    problems.append("flags %s (base %s) do not equal reported presence/verification %s: %s" % (upn, flow.term_str(base), exp, desc))
                if uvm_term is not None:
                    args = uvm_term[2]
                    okargs = len(args) == 4 and args[1] == ("upvar", cred_i) and opt(args[2], "up") and opt(args[3], "uv")
                    if not okargs:
                        problems.append("validator called with %s instead of (credential, options.up, options.uv)" % [flow.term_str(x) for x in args[1:]])
            else:
                n_err += 1
                if req["uv"] and enabled is False and uvm_called:
                    problems.append("validator is invoked although verification was requested and is not available: " + desc)
            rows_desc.append(desc)
        chk.extra["consent_rows"] = rows_desc
        site = where(cb)
        chk.ob("R2 consent decision table", "R2|check_user|rows", n_ok >= 4 and n_err >= 4, site, "%d Ok rows, %d Err rows read off the MIR" % (n_ok, n_err))
        classes = {
            "uv-needs-capability": "capability",
            "validator-success-required": "without a successful",
            "up-needs-presence": "presence not reported",
            "uv-needs-verification": "verification not reported",
            "flags-equal-reported": "do not equal reported",
            "options-tested": "does not test",
            "flags-conditioned": "not conditioned",
            "validator-args": "validator called with",
            "no-validator-when-unavailable": "is invoked although",
        }
        for k, needle in classes.items():
            hit = [x for x in problems if needle in x]
            chk.ob("R2 consent decision table", "R2|check_user|%s" % k, not hit, site, hit[0] if hit else "holds on all %d rows" % len(outs))
        # completeness: every combination of (up, uv, presence, verification) with a successful validator appears
        combos = set()
        for o in outs:
            d = {}
            for t, labs, fn, w in o.conds:
                for nme in ("up", "uv"):
                    if opt(t, nme):
                        d[nme] = flow.lab_true(labs)
            for u_ in ((True, False) if d.get("up") is None else (d["up"],)):
                for v_ in ((True, False) if d.get("uv") is None else (d["uv"],)):
                    combos.add((u_, v_))
        chk.ob("R2 consent decision table", "R2|check_user|covers-all-requests", {(True, True), (True, False), (False, True), (False, False)} <= combos, site,
               "requested (up,uv) combinations present in the table: %s" % sorted(map(str, combos)))

    # ---------------- R3 / R4 (get_assertion)
    if "get_assertion" in helpers:
        a, tb, cb = helpers["get_assertion"]
        T = flow.Terms(p, ga)
        shown = flow.simplify_term(T.operand(a.call["args"][2], a.call_bb, "t")) if len(a.call["args"]) >= 3 else None
        signs = names.calls_to(ga, "SignerMut::sign", "Signer::sign")
        chk.require("R3 shown = used", "R3|sign", len(signs) == 1, where(ga), "expected one signature site")
        lookups = [x for x in flow.awaits(ga) if x.call is not None and names.call_is(x.call, "CredentialStore::find_credentials")]
        look = lambda x: is_await(x, "CredentialStore::find_credentials")
        is_helper = lambda x: isinstance(x, tuple) and len(x) == 4 and x[0] == "await" and x[1] == tb.path

        def consumers(term):
            """sub-terms that take the lookup's list directly (through iterator plumbing): the element selection"""
            out = set()
            for x in subterms(term):
                if isinstance(x, tuple) and len(x) == 4 and x[0] in ("call", "await") and isinstance(x[2], tuple) and not is_helper(x):
                    for arg in x[2]:
                        b = arg
                        while isinstance(b, tuple) and len(b) == 4 and b[0] == "call" and b[2] and (names.is_(b[1], "IntoIterator::into_iter") or b[1].endswith("::iter") or b[1].endswith("::into_iter")):
                            b = b[2][0]
                        if flow.is_payload_of(b, look):
                            out.add(x)
            return out
        if signs and lookups and shown is not None:
            sb, stt = signs[0]
            key_n = N.inline(T.operand(stt["args"][0], sb, "t"))
            shown_n = N.inline(shown)
            cs, ck = consumers(shown_n), consumers(key_n)
            ok = bool(cs) and cs == ck
            chk.ob("R3 shown = used", "R3|get_assertion|same-credential", ok, where(ga, sb),
                   "element of the lookup result shown to the user: %s ; element the signing key comes from: %s" % (sorted(flow.term_str(x)[:90] for x in cs), sorted(flow.term_str(x)[:90] for x in ck)))
        # R4: an outcome that is not behind the consent success edge must neither be control dependent on the lookup
        # result nor carry it.  (Control dependence = necessary branch conditions: a `match` on the lookup result whose
        # arms re-join before the outcome does not make the outcome depend on it.)
        ok_edges, _bad = flow.success_edges(p, ga, is_helper, T)
        leaks = []
        n_pre = 0
        for s in flow.outcome_sites(ga):
            if s["path"] != ():
                continue
            bb = s["bb"]
            if ok_edges and flow.cut_by_edges(ga, 0, [bb], ok_edges):
                continue
            n_pre += 1
            for sb2, labs, t in (normal.conditions(N, p, ga, bb, T) or []):
                if t[0] == "discr" and isinstance(t[1], tuple) and t[1] and t[1][0] == "agg" and t[1][2] == "Ready":
                    continue
                if find_sub(t, look) is not None and find_sub(t, is_helper) is None:
                    leaks.append("outcome at %s is control dependent on %s" % (where(ga, bb), flow.term_str(t)[:120]))
            if s.get("idx") is not None:
                val = N.norm(T._rvalue(s["rv"], bb, s["idx"], 0))
            else:
                val = N.norm(T._call(s["term"], bb, 0))
            if find_sub(summary.replace_where(val, is_helper, ("consent-helper",)), look) is not None:
                leaks.append("value %s returned before consent at %s" % (flow.term_str(val)[:160], where(ga, bb)))
        chk.ob("R4 nothing disclosed before consent", "R4|get_assertion|pre-consent-outcomes", bool(ok_edges) and not leaks and n_pre >= 2, where(ga),
               leaks[0] if leaks else "%d outcome sites are not behind the consent success edge; none is control dependent on or returns the lookup result" % n_pre)
        # the only pre-consent use of the lookup result is as the display argument
        chk.ob("R4 nothing disclosed before consent", "R4|get_assertion|lookup-only-shown", shown is not None and find_sub(shown, look) is not None, where(ga, a.call_bb),
               "consent helper receives %s" % (flow.term_str(shown)[:300] if shown else "?"))

    # ---------------- R6
    T = flow.Terms(p, mc)
    outs = S.local_outcomes(mc)
    rows = [o for o in outs if any(t == ("field", ("field", ("upvar", 1), "options"), "up") and flow.lab_false(labs) for t, labs, fn, w in o.conds)]
    ok = bool(rows) and all(o.variant[:1] == ("Err",) and len(o.conds) == 1 for o in rows)
    chk.ob("R6 waived presence", "R6|make_credential|up-false-is-error", ok, where(mc), "rows with options.up == false: %s" % [(o.vstr(), flow.term_str(o.value)[:80]) for o in rows])
    for nm, target in (("register", "Authenticator::make_credential"), ("authenticate", "Authenticator::get_assertion")):
        co = ceremony(p, nm, adt=CLIENT)
        if not chk.require("R6 waived presence", "R6|Client::%s" % nm, co, CLIENT, "Client::%s not found" % nm):
            continue
        chk.touched(co)
        Tc = flow.Terms(p, co)
        calls = names.calls_to(co, target)
        if not chk.require("R6 waived presence", "R6|Client::%s|call" % nm, len(calls) == 1, where(co), "expected one %s call" % target):
            continue
        cbk, ct = calls[0]
        req = N.inline(Tc.operand(ct["args"][1], cbk, "t"))
        opts = dict(req[3]).get("options") if req and req[0] == "agg" else None
        d = dict(opts[3]) if opts and opts[0] == "agg" else {}
        up_ok = d.get("up") == ("const", 1)
        uvt = d.get("uv")
        # uv is false only for userVerification == discouraged (true when no requirement is given at all)
        uv_ok = uvt is not None
        n_tests = 0
        for cs, v in (normal.cases(uvt) if uvt is not None else []):
            e = flow.eq_test(v, ("notin", "0"))
            if e is not None:
                a, b = tuple(e[0]) if len(e[0]) == 2 else (None, None)
                is_req = lambda x: isinstance(x, tuple) and len(x) == 3 and x[0] == "field" and x[2] == "user_verification"
                is_disc = lambda x: isinstance(x, tuple) and len(x) == 4 and x[0] == "agg" and x[2] == "Discouraged"
                good = e[1] is False and ((is_req(a) and is_disc(b)) or (is_req(b) and is_disc(a)))
                n_tests += 1 if good else 0
                uv_ok = uv_ok and good
            elif v == ("const", 1):
                # no requirement given: verification is requested
                uv_ok = uv_ok and all(flow.asserts_fail(t, l, lambda x: True) for t, l in cs) and bool(cs)
            else:
                uv_ok = False
        uv_ok = uv_ok and n_tests >= 1
        if not uv_ok and uvt is not None:
            # the same table read from a selection on the requirement's variant (`!matches!(r, Discouraged)`, `match r {..}`):
            # false exactly on the rows where the requirement is Discouraged
            is_req = lambda x: isinstance(x, tuple) and len(x) == 3 and x[0] == "field" and x[2] == "user_verification"
            rows_ok, n_disc, n_other = True, 0, 0
            for cs, v in normal.cases_deep(uvt):
                disc = None
                for t, l in cs:
                    vt = flow.variant_test(t, l)
                    if vt is not None and is_req(vt[0]) and vt[1] == "Discouraged":
                        disc = vt[2]
                    else:
                        e = flow.eq_test(t, l)
                        if e is not None and len(e[0]) == 2 and e[1] is not None:
                            a_, b_ = tuple(e[0])
                            for x_, y_ in ((a_, b_), (b_, a_)):
                                if is_req(x_) and isinstance(y_, tuple) and len(y_) == 4 and y_[0] == "agg" and y_[2] == "Discouraged":
                                    disc = e[1]
                if disc is True:
                    n_disc += 1
                    rows_ok = rows_ok and v == ("const", 0)
                else:
                    # not Discouraged, or no requirement given at all (then the conditions say the selection is absent)
                    n_other += 1
                    rows_ok = rows_ok and v == ("const", 1) and (disc is False or any(flow.asserts_fail(t, l, lambda x: True) for t, l in cs) or not cs)
            uv_ok = rows_ok and n_disc >= 1 and n_other >= 1
        chk.ob("R6 waived presence", "R6|Client::%s|up-always-true" % nm, up_ok, where(co, cbk), "Options.up = %s" % flow.term_str(d.get("up")))
        chk.ob("R6 waived presence", "R6|Client::%s|uv-from-requirement" % nm, uv_ok, where(co, cbk), "Options.uv = %s" % flow.term_str(uvt)[:200])
    chk.floor("R1", 12)
    chk.floor("R2", 11)
    chk.floor("R3", 1)
    chk.floor("R4", 2)
    chk.floor("R5", 2)
    chk.floor("R6", 5)
    chk.assumptions = ["the user-supplied UserValidationMethod reports truthfully", "stores whose find_credentials mutates are outside the interface contract"]
