"""C03 — authentication returns a signature that is bound to the ceremony (structural clauses).

R1 signature target : the message given to `sign` is exactly AuthenticatorData::to_vec(A) extended by the request's client data
                      hash, and the auth_data placed in the response is that same A.
R2 key              : the signing key is recovered (private_key_from_cose_key → SigningKey::from) from the `key` of the credential
                      whose id is returned, whose user handle is returned, and which was shown for consent; the key recovery
                      reads the COSE `D` parameter.
R3 client           : client data type is webauthn.get with the request's challenge and the caller's origin, hashed as in C02;
                      id = base64url(x), rawId = x for the same returned credential id; userHandle = response.user.id;
                      authenticatorData = to_vec(response.auth_data); signature passed through.
R4 no attested data : AuthenticatorData::set_attested_credential_data is not reachable from get_assertion.
R5 error mapping    : NoCredentials → CredentialNotFound, every other status byte passes through (decision table), and
                      Client::authenticate applies exactly that conversion.
Not decided: ECDSA correctness, DER encoding, the history quantifier (store contents are runtime state).
"""
import json
import os

from . import core, flow, names, summary
from .framework import where, short, api_name, VERIF
from .common import AUTH, CLIENT, ceremony, find_aggs
from .c02 import client_data_rules, has, is_call, find, sub, closure_ret


def run(chk):
    p = core.load_program("all")
    chk.configs = ["all-features"]
    chk.explanation = __doc__
    ga = ceremony(p, "get_assertion")
    au = ceremony(p, "authenticate", adt=CLIENT)
    if not chk.require("R1 signature target", "R1|bodies", ga is not None and au is not None, AUTH, "get_assertion / authenticate not found"):
        return
    chk.touched(ga)
    chk.touched(au)
    T = flow.Terms(p, ga)
    signs = names.calls_to(ga, "SignerMut::sign", "Signer::sign")
    resp = find_aggs(ga, "Response")
    if not chk.require("R1 signature target", "R1|sites", len(signs) == 1 and len(resp) == 1, where(ga), "expected one sign call and one Response (found %d, %d)" % (len(signs), len(resp))):
        return
    sb, st = signs[0]
    rb, ri, rrv = resp[0]
    r = {k: flow.simplify_term(T.operand(o, rb, ri)) for k, o in zip(rrv["fields"], rrv["ops"])}
    key = flow.simplify_term(T.operand(st["args"][0], sb, "t"))
    msg = flow.simplify_term(T.operand(st["args"][1], sb, "t"))
    # R1
    # the signed bytes as an ordered segment list (to_vec + extend, concat, chain … alike): authenticator data, then the hash
    from . import normal as _nm
    _Nm = _nm.Normalizer(p, summary.Summaries(p))
    segs = flow.byte_segments(_Nm.norm(msg))
    ok = len(segs) == 2 and is_call(segs[0], "AuthenticatorData::to_vec") and len(segs[0][2]) == 1 and segs[1] == ("field", ("upvar", 1), "client_data_hash")
    chk.ob("R1 signature target", "R1|get_assertion|authData-then-hash", ok, where(ga, sb), "signed message = %s" % [flow.term_str(x)[:120] for x in segs])
    A = segs[0][2][0] if ok else None
    r["auth_data"] = _Nm.norm(r["auth_data"])
    chk.ob("R1 signature target", "R1|get_assertion|same-authData-returned", A is not None and r["auth_data"] == A, where(ga, rb), "Response.auth_data %s the signed value" % ("is" if A is not None and r["auth_data"] == A else "is NOT"))
    sig = r["signature"]
    chk.ob("R1 signature target", "R1|get_assertion|signature-returned", find(sig, lambda x: is_call(x, "SignerMut::sign") or is_call(x, "Signer::sign")) is not None and has(sig, lambda x: isinstance(x, tuple) and len(x) == 4 and x[0] == "call" and x[1].endswith("to_der")), where(ga, rb),
           "Response.signature = %s" % flow.term_str(sig)[:160])
    # rp id hash source
    adn = find(A, lambda x: is_call(x, "AuthenticatorData::new")) if A is not None else None
    chk.ob("R1 signature target", "R1|get_assertion|rp-id-hash-source", adn is not None and adn[2][0] == ("field", ("upvar", 1), "rp_id"), where(ga, sb), "AuthenticatorData::new(rp_id = %s)" % (flow.term_str(adn[2][0]) if adn else "?"))
    # R2
    pk = find(key, lambda x: is_call(x, "private_key_from_cose_key"))
    cred = pk[2][0][1] if pk is not None and pk[2][0][0] == "field" and pk[2][0][2] == "key" else None
    chk.ob("R2 key", "R2|get_assertion|key-from-credential", cred is not None, where(ga, sb), "signing key = %s" % flow.term_str(key)[:200])
    if cred is not None:
        rc = r["credential"]
        base = lambda t: t[1] if isinstance(t, tuple) and t and t[0] == "with" else t
        rc_inner = dict(rc[3]).get("0") if rc[0] == "agg" and rc[2] == "Some" else None
        same_c = rc_inner is not None and base(rc_inner) == base(cred)
        chk.ob("R2 key", "R2|get_assertion|returned-id-of-signing-credential", bool(same_c), where(ga, rb), "Response.credential = %s" % flow.term_str(rc)[:200])
        # Response.user is a selection on the presence of <that credential>.user_handle (map / match / if let alike)
        from . import normal as _normal
        _N = _normal.Normalizer(p, summary.Summaries(p))
        u = _N.inline(r["user"])
        is_handle = lambda x: isinstance(x, tuple) and len(x) == 3 and x[0] == "field" and x[2] == "user_handle"
        sel, handle = flow.presence_selection(u, is_handle)
        same_u = handle is not None and set(sel) == {True, False} and sel[False] == _normal.NONE and base(handle[1]) == base(_N.inline(cred))
        chk.ob("R2 key", "R2|get_assertion|returned-handle-of-signing-credential", bool(same_u), where(ga, rb), "Response.user = %s" % flow.term_str(u)[:200])
    pkf = [b for b in p.all_bodies if b.crate == "passkey_authenticator" and b.path == b.root and b.path.rsplit("::", 1)[-1] == "private_key_from_cose_key"]
    if chk.require("R2 key", "R2|private_key_from_cose_key", len(pkf) == 1, "passkey_authenticator", "private_key_from_cose_key not found"):
        b = pkf[0]
        chk.touched(b)
        from .c01 import body_consts
        uses_d = False
        for nb0 in p.nested_of(b):
          for nb in [nb0] + nb0.promoted:
            for bb, s in nb.stmts():
                if s["k"] == "assign" and s["rv"]["k"] == "agg" and s["rv"].get("adt", "").endswith("Ec2KeyParameter") and s["rv"]["variant"] == "D":
                    uses_d = True
        chk.ob("R2 key", "R2|private_key_from_cose_key|reads-D", uses_d, where(b), "the scalar is looked up under iana::Ec2KeyParameter::D: %s" % uses_d)
    # R4
    reach = p.call_closure([ga])
    bad = [(b, bb) for b in reach.values() for bb, t in b.calls() if names.call_is(t, "AuthenticatorData::set_attested_credential_data")]
    chk.ob("R4 no attested data", "R4|get_assertion|no-attested-credential-data", not bad, where(bad[0][0], bad[0][1]) if bad else where(ga), "set_attested_credential_data reachable from get_assertion: %s" % bool(bad))

    # R3 client
    rr = client_data_rules(chk, p, au, "authenticate", "Get", "Authenticator::get_assertion")
    if rr is not None:
        Tc, f, req, json_term, cb = rr
        ar = find_aggs(au, "AuthenticatorAssertionResponse")
        pkc = find_aggs(au, "PublicKeyCredential")
        if chk.require("R3 client", "R3|response", len(ar) == 1 and len(pkc) == 1, where(au), "response aggregates not found"):
            bb, i, rv = ar[0]
            a = {k: flow.simplify_term(Tc.operand(o, bb, i)) for k, o in zip(rv["fields"], rv["ops"])}
            bb2, i2, rv2 = pkc[0]
            c = {k: flow.simplify_term(Tc.operand(o, bb2, i2)) for k, o in zip(rv2["fields"], rv2["ops"])}
            site = where(au, line=au.blocks[bb]["stmts"][i]["line"])
            cj = _Nm.norm(a["client_data_json"])
            same_json = json_term is not None and cj == _Nm.norm(json_term)
            chk.ob("R1 client data", "R1|Client::authenticate|returned-json-is-hashed-json", same_json, site, "returned clientDataJSON is the hashed string: %s" % same_json)
            resp_t = find(a["authenticator_data"], lambda x: isinstance(x, tuple) and len(x) == 2 and x[0] == "payload" and has(x, lambda y: is_call(y, "Authenticator::get_assertion")))
            okad = is_call(a["authenticator_data"], "AuthenticatorData::to_vec") and a["authenticator_data"][2][0] == ("field", resp_t, "auth_data")
            chk.ob("R3 client", "R3|Client::authenticate|authenticatorData", bool(okad), site, "authenticatorData = %s" % flow.term_str(a["authenticator_data"])[:160])
            chk.ob("R3 client", "R3|Client::authenticate|signature", a["signature"] == ("field", resp_t, "signature"), site, "signature = %s" % flow.term_str(a["signature"])[:120])
            uh = a["user_handle"]
            okuh = is_call(uh, "Option::map") and uh[2][0] == ("field", resp_t, "user") and closure_ret(p, uh[2][1]) == ("field", ("param", 2), "id")
            chk.ob("R3 client", "R3|Client::authenticate|userHandle", bool(okuh), site, "userHandle = %s" % flow.term_str(uh)[:160])
            idt, raw = c["id"], c["raw_id"]
            x1 = find(idt, lambda x: isinstance(x, tuple) and len(x) == 3 and x[0] == "field" and x[2] == "id" and has(x, lambda y: y == ("field", resp_t, "credential")))
            x2 = find(raw, lambda x: isinstance(x, tuple) and len(x) == 3 and x[0] == "field" and x[2] == "id" and has(x, lambda y: y == ("field", resp_t, "credential")))
            ok = x1 is not None and flow.strip_sites(x1) == flow.strip_sites(x2) and is_call(idt, "encoding::base64url")
            # ... and nothing else can stand in for it (no selection between the signing credential's id and another value)
            from .common import altered_uses
            alt = (altered_uses(idt, [x1]) + altered_uses(raw, [x1])) if x1 is not None else []
            ok = ok and not alt
            chk.ob("R3 client", "R3|Client::authenticate|id-rawId-same", bool(ok), where(au, line=au.blocks[bb2]["stmts"][i2]["line"]), "id = %s ; rawId = %s" % (flow.term_str(idt)[:120], flow.term_str(raw)[:120]))
            # request: rp id and allow list
            rq = dict(req[3]) if req[0] == "agg" else {}
            chk.ob("R3 client", "R3|Client::authenticate|allow-list-forwarded", rq.get("allow_list") is not None and rq["allow_list"][0] == "field" and rq["allow_list"][2] == "allow_credentials", where(au, cb), "Request.allow_list = %s" % flow.term_str(rq.get("allow_list")))
    # R5
    from . import c13
    S = summary.Summaries(p)
    c13.client_mapping(chk, p, S, c13.load_table(), R="R5 error mapping", K="R5")
    chk.floor("R1", 9)
    chk.floor("R2", 4)
    chk.floor("R3", 5)
    chk.floor("R4", 1)
    chk.floor("R5", 3)
    chk.assumptions = ["p256/ecdsa sign what they are given", "the credential was registered for the returned id (C02) and belongs to the RP (C05)"]
