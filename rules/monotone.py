"""Exact acceptance sets of guards over one non-negative integer (a length).

A size guard such as  `len > 65535 || (rest > 0 && rest / 59 + 1 > 128)`  with  rest = len.saturating_sub(57)  can be
written in many ways (checked_sub + match, `<` instead of `+ 1 >`, merged or separate tests).  Every spelling is a boolean
combination of atoms  f(len) <op> c  where f is built from len by operations that are monotone non-decreasing in len
(± constant with saturation/checking, division or multiplication by a positive constant, min/max with a constant, casts).
The truth set of such an atom is an interval of the naturals, so the whole guard is constant between consecutive atom
thresholds: evaluating the decision table at every threshold (and its neighbours) decides it for ALL lengths.

`accept_set(rows, LEN)` takes decision-table rows (conditions in normal form), checks that every condition is such an atom
(otherwise returns None: not decided), finds the thresholds by bisection on the term evaluator, and returns the accepted
lengths as a list of closed intervals.  Terms are evaluated on integers by a small interpreter of the term language —
nothing of the repository runs.
"""
from . import flow, names

BIG = 1 << 40


class NotMonotone(Exception):
    pass


def _is(t, *pats):
    return isinstance(t, tuple) and len(t) == 4 and t[0] == "call" and isinstance(t[1], str) and any(names.is_(t[1], p) or t[1].endswith("::" + p.split("::")[-1]) for p in pats)


def ev(t, LEN, n):
    """value of an integer term at len = n; None for an Option that is None; raises NotMonotone on anything else"""
    if t == LEN or (isinstance(t, tuple) and len(t) == 4 and t[0] == "call" and t[1].endswith("::len") and len(t[2]) == 1 and t[2][0] == LEN[2][0] if isinstance(LEN, tuple) and len(LEN) == 4 else False):
        return n
    if isinstance(t, tuple) and len(t) == 2 and t[0] == "const" and isinstance(t[1], int):
        return t[1]
    if isinstance(t, tuple) and len(t) == 3 and t[0] == "cast":
        return ev(t[2], LEN, n)
    if isinstance(t, tuple) and len(t) == 3 and t[0] == "field" and t[2] == "0" and isinstance(t[1], tuple) and t[1][:1] == ("binop",) and "WithOverflow" in t[1][1]:
        return ev(("binop", t[1][1].replace("WithOverflow", ""), t[1][2], t[1][3]), LEN, n)
    if isinstance(t, tuple) and len(t) == 4 and t[0] == "binop":
        op = t[1].replace("Unchecked", "")
        a, b = ev(t[2], LEN, n), ev(t[3], LEN, n)
        if a is None or b is None:
            raise NotMonotone(t)
        # the non-length operand must be a constant, so that the result stays monotone in len
        ca, cb = _const_only(t[2], LEN), _const_only(t[3], LEN)
        if op == "Add":
            return a + b
        if op == "Sub" and cb:
            if a - b < 0:
                raise NotMonotone(("underflow", t))
            return a - b
        if op == "Mul" and (ca or cb):
            return a * b
        if op == "Div" and cb and b > 0:
            return a // b
        raise NotMonotone(t)
    if _is(t, "usize::saturating_sub", "u32::saturating_sub", "u64::saturating_sub") and len(t[2]) == 2 and _const_only(t[2][1], LEN):
        return max(ev(t[2][0], LEN, n) - ev(t[2][1], LEN, n), 0)
    if _is(t, "usize::checked_sub", "u32::checked_sub", "u64::checked_sub") and len(t[2]) == 2 and _const_only(t[2][1], LEN):
        v = ev(t[2][0], LEN, n) - ev(t[2][1], LEN, n)
        return v if v >= 0 else None
    if isinstance(t, tuple) and len(t) == 4 and t[0] == "call" and isinstance(t[1], str) and t[1].endswith("::div_ceil") and len(t[2]) == 2 and _const_only(t[2][1], LEN):
        d_ = ev(t[2][1], LEN, n)
        if d_ and d_ > 0:
            return -(-ev(t[2][0], LEN, n) // d_)
    if _is(t, "Ord::min", "cmp::min") and len(t[2]) == 2:
        return min(ev(t[2][0], LEN, n), ev(t[2][1], LEN, n))
    if _is(t, "Ord::max", "cmp::max") and len(t[2]) == 2:
        return max(ev(t[2][0], LEN, n), ev(t[2][1], LEN, n))
    if _is(t, "Into::into", "From::from", "TryInto::try_into", "TryFrom::try_from") and len(t[2]) == 1:
        return ev(t[2][0], LEN, n)
    if isinstance(t, tuple) and len(t) == 2 and t[0] == "payload":
        v = ev(t[1], LEN, n)
        if v is None:
            raise NotMonotone(("payload of None", t))
        return v
    raise NotMonotone(t)


def _const_only(t, LEN):
    return not flow.term_contains(t, lambda y: y == LEN)


def cond_holds(t, lab, LEN, n):
    """truth of one table condition (test term, edge label) at len = n"""
    # presence of a checked subtraction
    pt = flow.presence_test(t, lab)
    if pt is not None and pt[1] is not None:
        try:
            v = ev(pt[0], LEN, n)
        except NotMonotone:
            raise
        return (v is not None) == pt[1]
    a, pol = flow.bool_atom(t, lab)
    if pol is not None and isinstance(a, tuple) and len(a) == 4 and a[0] == "binop" and a[1] in ("Lt", "Le", "Gt", "Ge", "Eq", "Ne"):
        x, y = ev(a[2], LEN, n), ev(a[3], LEN, n)
        if x is None or y is None:
            raise NotMonotone(a)
        r = {"Lt": x < y, "Le": x <= y, "Gt": x > y, "Ge": x >= y, "Eq": x == y, "Ne": x != y}[a[1]]
        return r == pol
    if pol is not None and a in (("const", 0), ("const", 1)):
        return (a == ("const", 1)) == pol
    # a switch on an integer value
    if isinstance(lab, tuple) and lab and lab[0] in ("in", "notin"):
        v = ev(t, LEN, n)
        if v is None:
            raise NotMonotone(t)
        return flow.lab_holds(lab, str(v))
    raise NotMonotone(t)


def accepted(rows, LEN, n):
    """does some accepting row hold at len = n?  rows: [(is_accepting, [(term, label), ...])]; exactly one row must hold"""
    hit = []
    for acc, conds in rows:
        ok = True
        for t, lab in conds:
            try:
                if not cond_holds(t, lab, LEN, n):
                    ok = False
                    break
            except NotMonotone as e:
                if e.args and isinstance(e.args[0], tuple) and e.args[0][:1] in (("underflow",), ("payload of None",)):
                    ok = False  # a later test on a path that an earlier test of this row excludes at this n
                    break
                raise
        if ok:
            hit.append(acc)
    if not hit:
        raise NotMonotone(("no row at", n))
    if len(set(hit)) != 1:
        raise NotMonotone(("ambiguous at", n))
    return hit[0]


def accept_set(rows, LEN, hi=BIG):
    """closed intervals [(lo, hi)] of accepted lengths in [0, hi], or None when some condition is not a monotone atom"""
    try:
        # thresholds: for every comparison atom f(len) <op> c, the least n with f(n) >= c and the least n with f(n) > c
        pts = {0, hi}
        atoms = []
        for acc, conds in rows:
            for t, lab in conds:
                a, pol = flow.bool_atom(t, lab)
                if isinstance(a, tuple) and len(a) == 4 and a[0] == "binop" and a[1] in ("Lt", "Le", "Gt", "Ge", "Eq", "Ne"):
                    for f, c in ((a[2], a[3]), (a[3], a[2])):
                        if _const_only(c, LEN) and not _const_only(f, LEN):
                            atoms.append((f, ev(c, LEN, 0)))
                pt = flow.presence_test(t, lab)
                if pt is not None and _is(pt[0], "usize::checked_sub", "u32::checked_sub", "u64::checked_sub"):
                    atoms.append((pt[0][2][0], ev(pt[0][2][1], LEN, 0)))
                if isinstance(lab, tuple) and lab and lab[0] in ("in", "notin") and not _const_only(t, LEN) and flow.presence_test(t, lab) is None and flow.bool_atom(t, lab)[1] is None:
                    for v in lab[1:]:
                        if str(v).isdigit():
                            atoms.append((t, int(v)))

        def f_at(f, n):
            try:
                v = ev(f, LEN, n)
            except NotMonotone as e:
                if e.args and isinstance(e.args[0], tuple) and e.args[0][:1] in (("underflow",), ("payload of None",)):
                    return -1
                raise
            return -1 if v is None else v
        for f, c in atoms:
            for target in (c, c + 1):
                lo_, hi_ = 0, hi
                if f_at(f, hi_) < target:
                    continue
                while lo_ < hi_:
                    mid = (lo_ + hi_) // 2
                    if f_at(f, mid) >= target:
                        hi_ = mid
                    else:
                        lo_ = mid + 1
                pts |= {max(lo_ - 1, 0), lo_, min(lo_ + 1, hi)}
        pts = sorted(pts)
        # the guard is constant strictly between consecutive thresholds: one evaluation per point and one per gap
        segs = []
        for i, pnt in enumerate(pts):
            segs.append((pnt, pnt, accepted(rows, LEN, pnt)))
            if i + 1 < len(pts) and pts[i + 1] - pnt > 1:
                segs.append((pnt + 1, pts[i + 1] - 1, accepted(rows, LEN, pnt + 1)))
        merged = []
        for lo_, hi_, v in segs:
            if not v:
                continue
            if merged and lo_ <= merged[-1][1] + 1:
                merged[-1] = (merged[-1][0], max(hi_, merged[-1][1]))
            else:
                merged.append((lo_, hi_))
        return merged
    except NotMonotone:
        return None
