"""Serde model of a type, read off the MIR of its derived (or hand-written) Serialize / Deserialize code.

For struct X:   accepted keys -> field index      (decision table of __FieldVisitor::visit_str)
                per field: how the value is read  (plain `next_value::<T>` or a `deserialize_with` wrapper and the helper it calls)
                per field: what a missing key does (missing_field error or a default)
                emitted keys in order, with the condition under which a member is skipped
"""
from . import core, flow, names, summary


def sub(t):
    yield t
    if isinstance(t, frozenset):
        for x in t:
            yield from sub(x)
    elif isinstance(t, tuple):
        for x in t:
            if isinstance(x, (tuple, frozenset)):
                yield from sub(x)


def bodies_of_impl(p, trait_last, adt_id):
    """root bodies of `impl <Trait> for <adt>` (derived impls live in anonymous consts)"""
    out = []
    for b in p.all_bodies:
        ri = b.j.get("root_item")
        if not ri or "impl" not in ri or b.path != b.root:
            continue
        im = ri["impl"]
        if im.get("self_adt_id") == adt_id and (im.get("trait") or "").rsplit("::", 1)[-1] == trait_last:
            out.append(b)
    return out


class Model:
    def __init__(self):
        self.keys = {}  # key string -> field index
        self.fields = []  # field names in declaration order
        self.read = {}  # field index -> {"wrapper": bool, "helper": path or None, "ty": str}
        self.missing = {}  # field name -> "error" | "default"
        self.emitted = []  # (key, field name, conditional: bool)
        self.has_de = False
        self.has_ser = False
        self.notes = []


def is_conditional(conds):
    """is the site guarded by a test of a member of self (skip_serializing_if)?  The success edges of earlier
    `?`s are not such tests."""
    def on_self(c):
        return any(isinstance(y, tuple) and len(y) == 3 and y[0] == "field" and y[1] == ("param", 1) for y in sub(c))
    for s0, l, c in conds:
        if c[0] == "discr" and isinstance(c[1], tuple) and c[1] and c[1][0] == "try":
            continue
        if c[0] in ("call", "unop", "discr", "binop") and on_self(c):
            return True
    return False


def nested_under(p, body):
    pre = body.id + "::"
    return [b for b in p.all_bodies if b.id.startswith(pre)]


def model_of(p, adt, S=None):
    S = S or summary.Summaries(p)
    m = Model()
    m.fields = [f["name"] for f in adt["variants"][0]["fields"]] if adt["variants"] else []
    des = bodies_of_impl(p, "Deserialize", adt["id"])
    if len(des) == 1:
        d = des[0]
        inner = nested_under(p, d)
        vs = [b for b in inner if b.path.endswith("__FieldVisitor as serde_core::de::Visitor<'de>>::visit_str") or ("__FieldVisitor" in b.path and b.path.endswith("::visit_str"))]
        vm = [b for b in inner if "__Visitor" in b.path and b.path.endswith("::visit_map") and "__DeserializeWith" not in b.path]
        if len(vs) == 1 and len(vm) == 1:
            m.has_de = True
            # key table
            for o in S.local_outcomes(vs[0]):
                v = o.value
                while isinstance(v, tuple) and v and v[0] == "agg" and v[2] == "Ok":
                    v = dict(v[3]).get("0")
                if not (isinstance(v, tuple) and v and v[0] == "agg" and v[2].startswith("__field")):
                    continue
                k = int(v[2][len("__field"):])
                for t, l, f, w in o.conds:
                    if isinstance(t, tuple) and len(t) == 4 and t[0] == "call" and names.is_(t[1], "PartialEq::eq") and flow.lab_true(l):
                        for a in t[2]:
                            if isinstance(a, tuple) and a and a[0] == "const" and isinstance(a[1], str):
                                m.keys[a[1]] = k
            # how each field is read: the arm of the key switch is identified by the __fieldK place it writes
            vmb = vm[0]
            T = flow.Terms(p, vmb)
            for bb, t in vmb.calls():
                if names.call_is(t, "MapAccess::next_value"):
                    g = " ".join(t.get("gargs", []))
                    wrapper = "__DeserializeWith" in g
                    helper = None
                    if wrapper:
                        for wid in t.get("garg_adt_ids", []):
                            if wid.endswith("__DeserializeWith") or "__DeserializeWith" in wid.rsplit("::", 1)[-1]:
                                for wb in bodies_of_impl(p, "Deserialize", wid):
                                    for b3, t3 in wb.calls():
                                        c = t3.get("callee") or ""
                                        if c.startswith("passkey_types::utils::serde::") or "::utils::serde::" in c:
                                            helper = c
                    m.read[bb] = {"wrapper": wrapper, "helper": helper, "ty": g, "bb": bb}
            # final aggregate: which next_value call feeds which field, and what a missing key does
            from .common import find_aggs
            ag = [x for x in find_aggs(vmb, adt["path"].rsplit("::", 1)[-1]) if x[2]["adt"] == adt["path"]]
            if ag:
                bb, i, rv = ag[-1]
                # a member whose None arm returns an error makes `discr(option) == Some` a necessary condition of the result
                must_some = set()
                for s0, l, c in flow.conditions(p, vmb, bb, T):
                    if c[0] == "discr" and l == ("in", "1"):
                        for x in sub(c):
                            if isinstance(x, tuple) and len(x) == 4 and x[0] == "call" and names.is_(x[1], "MapAccess::next_value"):
                                must_some.add(x[3])
                for f, o in zip(rv["fields"], rv["ops"]):
                    term = flow.simplify_term(T.operand(o, bb, i))
                    calls = [x for x in sub(term) if isinstance(x, tuple) and len(x) == 4 and x[0] == "call"]
                    nv = [x for x in calls if names.is_(x[1], "MapAccess::next_value")]
                    miss = any(x[1].endswith("::missing_field") for x in calls)
                    fty = [fd["ty"] for fd in adt["variants"][0]["fields"] if fd["name"] == f]
                    if miss and fty and fty[0].startswith("core::option::Option<"):
                        miss = False  # serde's missing_field helper yields None for Option-typed members
                    m.missing[f] = "error" if (miss or any(x[3] in must_some for x in nv)) else "default"
                    info = [m.read.get(x[3]) for x in nv if x[3] in m.read]
                    if info:
                        m.read[f] = info[0]
    sers = bodies_of_impl(p, "Serialize", adt["id"])
    if len(sers) == 1:
        sb = sers[0]
        m.has_ser = True
        T = flow.Terms(p, sb)
        calls = sorted([(bb, t) for bb, t in sb.calls() if names.call_is(t, "SerializeStruct::serialize_field", "SerializeMap::serialize_entry", "SerializeStruct::skip_field")], key=lambda x: (x[1]["line"], x[0]))
        # order along the CFG: a call precedes another if the other is reachable from it
        def before(a, b):
            return b[0] in sb.reachable(a[0], follow_yield_drop=False) and a[0] not in sb.reachable(b[0], follow_yield_drop=False)
        import functools
        calls.sort(key=functools.cmp_to_key(lambda a, b: -1 if before(a, b) else (1 if before(b, a) else 0)))
        for bb, t in calls:
            if names.call_is(t, "SerializeStruct::skip_field"):
                continue
            key = flow.simplify_term(T.operand(t["args"][1], bb, "t"))
            val = flow.simplify_term(T.operand(t["args"][2], bb, "t"))
            k = key[1] if key[0] == "const" else None
            fld = None
            for x in sub(val):
                if isinstance(x, tuple) and len(x) == 3 and x[0] == "field" and x[1] == ("param", 1):
                    fld = x[2]
            conds = flow.conditions(p, sb, bb, T)
            conditional = is_conditional(conds)
            m.emitted.append((k, fld, conditional))
    return m
