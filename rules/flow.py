"""Shared analyses over MIR facts: access paths, def-use, await collapse (A2),
must-pass cuts (A3), outcome classification (A4), value-flow origins (A5).

All analyses are static: they read the MIR facts and never run code.
"""
from collections import defaultdict, deque

from .core import callee_of, callee_names

# --------------------------------------------------------------------------
# access paths


def _names_is(name, pat):
    from . import names as _n
    return _n.is_(name, pat)


def norm_place(pj):
    """place JSON -> (local, path) with derefs dropped (references are transparent
    for value flow), fields by *name*, downcasts as ('v', Variant), indexing as '[]'."""
    path = []
    for e in pj["p"]:
        k = e["k"]
        if k == "field":
            path.append(e["name"])
        elif k == "downcast":
            path.append(("v", e["variant"]))
        elif k in ("index", "cindex", "subslice"):
            path.append("[]")
    return pj["l"], tuple(path)


def op_place(op):
    if op is not None and op["k"] in ("copy", "move"):
        return norm_place(op["place"])
    return None


def const_str(op):
    """string payload of a &str / byte-string constant operand, else None"""
    if op is None or op["k"] != "const":
        return None
    if "str" in op:
        return op["str"]
    if "bytes" in op:
        try:
            return bytes(op["bytes"]).decode("latin1")
        except Exception:
            return None
    return None


def const_bits(op):
    if op is None or op["k"] != "const" or "bits" not in op:
        return None
    return int(op["bits"])


# --------------------------------------------------------------------------
# def-use


class DefUse:
    """Definitions of each local: ('assign', bb, idx, path, rvalue) |
    ('call', bb, path, term) | ('yield', bb, path, term)."""

    def __init__(self, body):
        self.body = body
        self.defs = defaultdict(list)
        for bb, blk in enumerate(body.blocks):
            if blk["cleanup"]:
                continue
            for i, s in enumerate(blk["stmts"]):
                if s["k"] == "assign":
                    l, p = norm_place(s["place"])
                    self.defs[l].append(("assign", bb, i, p, s["rv"]))
            t = blk["term"]
            if t is None:
                continue
            if t["k"] == "call":
                l, p = norm_place(t["dest"])
                self.defs[l].append(("call", bb, None, p, t))
            elif t["k"] == "yield":
                l, p = norm_place(t["resume_arg"])
                self.defs[l].append(("yield", bb, None, p, t))

    def single_def(self, local):
        d = self.defs.get(local, [])
        return d[0] if len(d) == 1 else None

    def trace_copy(self, local, max_steps=30):
        """Follow a chain of plain moves/copies/refs/derefs (whole-local) backwards.
        Returns the list of locals on the chain (starting with `local`)."""
        chain = [local]
        cur = local
        for _ in range(max_steps):
            d = self.single_def(cur)
            if d is None or d[0] != "assign" or d[3] != ():
                break
            rv = d[4]
            nxt = None
            if rv["k"] in ("use",):
                pl = op_place(rv["op"])
                if pl and pl[1] == ():
                    nxt = pl[0]
            elif rv["k"] in ("ref", "copyforderef", "rawptr"):
                l, p = norm_place(rv["place"])
                if p == ():
                    nxt = l
            elif rv["k"] == "cast":
                pl = op_place(rv["op"])
                if pl and pl[1] == ():
                    nxt = pl[0]
            if nxt is None:
                break
            chain.append(nxt)
            cur = nxt
        return chain


# --------------------------------------------------------------------------
# A2: await collapse


POLL = "core::future::future::Future::poll"
INTO_FUTURE = "core::future::into_future::IntoFuture::into_future"
NEW_UNCHECKED = "core::pin::Pin::<Ptr>::new_unchecked"


class Await:
    def __init__(self):
        self.call_bb = None  # block of the call producing the awaited future (None: a local future)
        self.call = None  # its terminator
        self.into_future_bb = None
        self.poll_bb = None
        self.yield_bb = None
        self.ready_bb = None  # first block of the Ready arm
        self.payload = None  # local receiving (poll as Ready).0
        self.drop_bb = None  # cancellation edge target of the yield
        self.loop = set()  # blocks of the poll loop
        self.future_local = None

    def callee(self):
        return callee_of(self.call) if self.call else None

    def names(self):
        return callee_names(self.call) if self.call else set()


def awaits(body, du=None):
    """Recognise each `x.await`: into_future -> loop { poll -> Ready | Pending -> yield }."""
    du = du or DefUse(body)
    out = []
    for bb, t in body.calls():
        if t.get("callee") != POLL:
            continue
        a = Await()
        a.poll_bb = bb
        # receiver: Pin::new_unchecked(&mut *&mut awaitee)
        recv = op_place(t["args"][0])
        fut = None
        if recv:
            d = du.single_def(recv[0])
            if d and d[0] == "call" and d[4].get("callee", "").startswith("core::pin::Pin"):
                inner = op_place(d[4]["args"][0])
                if inner:
                    chain = du.trace_copy(inner[0])
                    fut = chain[-1]
                    # awaitee = move into_future_result
                    d2 = du.single_def(fut)
                    if d2 and d2[0] == "call" and d2[4].get("callee") == INTO_FUTURE:
                        a.into_future_bb = d2[1]
                        src = op_place(d2[4]["args"][0])
                        if src:
                            ch = du.trace_copy(src[0])
                            a.future_local = ch[-1]
                            d3 = du.single_def(ch[-1])
                            if d3 and d3[0] == "call":
                                a.call_bb = d3[1]
                                a.call = d3[4]
        # poll result switch
        nxt = t["t"]
        sw = body.term(nxt) if nxt is not None else None
        if sw and sw["k"] == "switch":
            tg = dict((v, b) for v, b in sw["targets"])
            ready, pending = tg.get("0"), tg.get("1")
            # Ready arm: skip falseedge
            rb = ready
            while rb is not None and body.term(rb)["k"] == "falseedge":
                rb = body.term(rb)["t"]
            a.ready_bb = rb
            if rb is not None:
                for s in body.blocks[rb]["stmts"]:
                    if s["k"] == "assign" and s["rv"]["k"] == "use":
                        pl = op_place(s["rv"]["op"])
                        if pl and pl[1] == (("v", "Ready"), "0"):
                            a.payload = norm_place(s["place"])[0]
                            break
            # Pending arm: find the yield
            seen = set()
            dq = deque([pending] if pending is not None else [])
            while dq:
                x = dq.popleft()
                if x in seen or x is None:
                    continue
                seen.add(x)
                tx = body.term(x)
                if tx["k"] == "yield":
                    a.yield_bb = x
                    a.drop_bb = tx.get("drop")
                    break
                for s in body.succs(x):
                    dq.append(s)
            # loop blocks: from resume target back to poll
            if a.yield_bb is not None:
                res = body.term(a.yield_bb)["t"]
                fwd = body.reachable(res, removed_blocks=[rb] if rb is not None else [], follow_yield_drop=False)
                # restrict to those that can reach the poll without leaving through ready
                a.loop = {x for x in fwd if bb in body.reachable(x, removed_blocks=[rb] if rb is not None else [], follow_yield_drop=False)} | {bb, a.yield_bb}
                if nxt is not None:
                    a.loop.add(nxt)
                if pending is not None:
                    a.loop.add(pending)
        out.append(a)
    return out


# --------------------------------------------------------------------------
# A3: must-pass / cut rules


def cut_by_blocks(body, start, target_blocks, cut_blocks):
    """True iff every path start ->* any target passes through a block in cut_blocks."""
    r = body.reachable(start, removed_blocks=cut_blocks)
    return not (set(target_blocks) & r)


def cut_by_edges(body, start, target_blocks, cut_edges, also_blocks=()):
    r = body.reachable(start, removed_edges=cut_edges, removed_blocks=also_blocks)
    return not (set(target_blocks) & r)


def await_pred(aw):
    """predicate selecting the value term of one particular `.await` (terms carry the block of the awaited call)"""
    return lambda x: isinstance(x, tuple) and len(x) == 4 and x[0] == "await" and x[3] == aw.call_bb


def ok_sites(program, body, terms=None):
    """blocks of the return sites that may return success: every site except those whose value is syntactically an
    Err/None (an aggregate, a `?` residual).  `let r = Ok(x); r` counts (the site kind is "use", the value is Ok)."""
    T = terms or Terms(program, body)
    out = []
    for s in outcome_sites(body):
        if s["path"] != ():
            continue
        if s["kind"] in ("Err", "residual", "None"):
            continue
        if s["kind"] in ("Ok", "Some"):
            out.append(s["bb"])
            continue
        v = simplify_term(T._rvalue(s["rv"], s["bb"], s["idx"], 0) if s.get("idx") is not None else T._call(s["term"], s["bb"], 0))
        if v == ("never",):
            continue
        if isinstance(v, tuple) and len(v) == 4 and v[0] == "agg" and v[2] in ("Err", "None"):
            continue
        out.append(s["bb"])
    return out


def failure_is_error(program, body, pred, terms=None, norm=None):
    """Error discipline for a fallible value: it is tested somewhere (`?`, match, if let, is_err ...), and from every
    edge on which it was *not* found Ok/Some no Ok return of `body` is reachable.  A result that is dropped (`.ok()`,
    `let _ =`, `unwrap_or*`) has no test; a result whose Err arm falls through to success has an Ok after a failure edge.
    -> (holds, witness string, ok edges, other edges)"""
    ok, bad = success_edges(program, body, pred, terms, N=getattr(norm, "__self__", None))
    if not ok and not bad:
        # not tested here — but it may be *forwarded*: the function returns x.map(..).map_err(..) (or x itself), whose
        # normal form is a selection on x with an Err/None value on x's failure side
        if norm is not None:
            T = terms or Terms(program, body)
            fwd = 0
            for s in outcome_sites(body):
                if s["path"] != ():
                    continue
                v = norm(T._rvalue(s["rv"], s["bb"], s["idx"], 0) if s.get("idx") is not None else T._call(s["term"], s["bb"], 0))
                if pred(v):
                    fwd += 1
                    continue
                if isinstance(v, tuple) and v and v[0] == "gamma":
                    # a (possibly nested) selection: every leaf that is not an Err/None lies on the success side of a
                    # test of the value, and such a test exists
                    state = {"tested": False, "ok": True, "good": 0}

                    def walk(x, under, depth=0):
                        if isinstance(x, tuple) and x and x[0] == "gamma" and depth < 12:
                            for l_, b_ in x[2]:
                                u2 = under
                                if tests_presence_of(x[1], pred):
                                    state["tested"] = True
                                    if asserts_ok(x[1], l_, pred):
                                        u2 = True
                                    elif not asserts_fail(x[1], l_, pred):
                                        u2 = under
                                    else:
                                        u2 = False
                                walk(b_, u2, depth + 1)
                            return
                        is_err = isinstance(x, tuple) and len(x) == 4 and x[0] == "agg" and x[2] in ("Err", "None")
                        if is_err or x == ("never",):
                            return
                        if under:
                            state["good"] += 1
                        else:
                            state["ok"] = False
                    walk(v, False)
                    if state["tested"] and state["ok"] and state["good"]:
                        fwd += 1
            if fwd:
                return True, "forwarded to the caller: the returned value is Err/None exactly when it failed", ok, bad
        return False, "the value is never tested: its error is dropped", ok, bad
    oks = ok_sites(program, body, terms)
    for sb, sc in bad:
        # (a later test that finds the value — or what was selected from it — Ok is not on a failure path)
        r = body.reachable(sc, removed_edges=ok, follow_yield_drop=False)
        hit = [o for o in oks if o in r]
        if hit:
            return False, "an Ok return (bb%d) is reachable from the failure edge bb%d->bb%d" % (hit[0], sb, sc), ok, bad
    return True, "tested at %s; no Ok return is reachable from a failure edge" % sorted({sb for sb, sc in ok + bad}), ok, bad


def cut_by_success(program, body, pred, target_blocks, terms=None, start=0):
    """Every path start ->* target passes an edge asserting that a value satisfying `pred` is Some/Ok/Continue — whichever
    idiom tests it (`?`, match, if let, let else, is_ok()).  -> (holds, success edges)"""
    ok, bad = success_edges(program, body, pred, terms)
    if not ok:
        return False, []
    return cut_by_edges(body, start, target_blocks, ok), ok


def switch_edges(body, bb):
    """{label: target} of a switch block"""
    t = body.term(bb)
    d = {}
    if t and t["k"] == "switch":
        for v, tg in t["targets"]:
            d[v] = tg
        d["otherwise"] = t["otherwise"]
    return d


def bool_switch_after(body, bb, local, du=None):
    """Find the switch block that branches on `local` (bool) starting at block `bb`
    following straight-line code; returns (switch_bb, true_target, false_target) or None.
    Handles `Not(x)` and copies."""
    du = du or DefUse(body)
    # collect locals aliasing `local` or its negation
    want = {local: False}  # local -> negated?
    changed = True
    while changed:
        changed = False
        for b2, s in body.stmts():
            if s["k"] != "assign":
                continue
            l, p = norm_place(s["place"])
            if p != () or l in want:
                continue
            rv = s["rv"]
            if rv["k"] == "use":
                pl = op_place(rv["op"])
                if pl and pl[1] == () and pl[0] in want:
                    want[l] = want[pl[0]]
                    changed = True
            elif rv["k"] == "unop" and rv["op"] == "Not":
                pl = op_place(rv["a"])
                if pl and pl[1] == () and pl[0] in want:
                    want[l] = not want[pl[0]]
                    changed = True
    res = []
    for b2 in range(len(body.blocks)):
        t = body.term(b2)
        if t and t["k"] == "switch" and not body.blocks[b2]["cleanup"]:
            pl = op_place(t["op"])
            if pl and pl[1] == () and pl[0] in want:
                e = switch_edges(body, b2)
                f, tr = e.get("0"), e.get("otherwise")
                if want[pl[0]]:
                    f, tr = tr, f
                res.append((b2, tr, f))
    return res


# --------------------------------------------------------------------------
# A4: outcome classification

TRY_BRANCH = "core::ops::try_trait::Try::branch"
FROM_RESIDUAL = "core::ops::try_trait::FromResidual::from_residual"


def outcome_sites(body):
    """Sites assigning the return place _0, classified.
    Returns list of dicts {bb, kind, ...}: kind in Ok/Err/Some/None/Continue/Break/
    residual (the `?` error edge) / call (forwarded result of a call) / use / other."""
    out = []
    # return-value temporaries (`let __ret = ..; return __ret` of async_trait, `let res = match ..; res`):
    # a local moved whole into _0 at a point where several of its definitions reach (a join) stands for _0:
    # its definitions are the outcome sites.  With a single reaching definition the move itself is the site.
    rets = {0}
    rd = None
    changed = True
    while changed:
        changed = False
        for bb, blk in enumerate(body.blocks):
            if blk["cleanup"]:
                continue
            for i, s in enumerate(blk["stmts"]):
                if s["k"] == "assign" and s["rv"]["k"] == "use":
                    l, p = norm_place(s["place"])
                    pl = op_place(s["rv"]["op"])
                    if l in rets and p == () and pl and pl[1] == () and pl[0] not in rets and pl[0] > body.arg_count:
                        if rd is None:
                            rd = ReachingDefs(body)
                        if len(rd.defs_of(pl[0], (), bb, i)) > 1:
                            rets.add(pl[0])
                            changed = True
    for bb, blk in enumerate(body.blocks):
        if blk["cleanup"]:
            continue
        for i, s in enumerate(blk["stmts"]):
            if s["k"] != "assign":
                continue
            l, p = norm_place(s["place"])
            if l not in rets:
                continue
            rv = s["rv"]
            if rv["k"] == "use" and op_place(rv["op"]) and op_place(rv["op"])[0] in rets and op_place(rv["op"])[1] == ():
                continue  # the copy of the return temporary itself
            site = {"bb": bb, "idx": i, "path": p, "line": s["line"], "rv": rv}
            if rv["k"] == "agg" and rv.get("ak") == "adt":
                site["kind"] = rv["variant"]
                site["adt"] = rv["adt"]
            elif rv["k"] == "use" and rv["op"]["k"] == "const":
                site["kind"] = "const"
            elif rv["k"] == "use":
                site["kind"] = "use"
            else:
                site["kind"] = "other"
            out.append(site)
        t = blk["term"]
        if t and t["k"] == "call":
            l, p = norm_place(t["dest"])
            if l in rets:
                kind = "residual" if t.get("callee") == FROM_RESIDUAL else "call"
                out.append({"bb": bb, "idx": None, "path": p, "line": t["line"], "kind": kind, "term": t})
    return out


def try_sites(body, du=None):
    """Each `?`: {branch_bb, operand_local, switch_bb, continue_bb, break_bb}."""
    out = []
    for bb, t in body.calls():
        if t.get("callee") != TRY_BRANCH:
            continue
        nxt = t["t"]
        sw = body.term(nxt) if nxt is not None else None
        if not sw or sw["k"] != "switch":
            continue
        e = switch_edges(body, nxt)
        out.append({
            "branch_bb": bb,
            "operand": op_place(t["args"][0]),
            "switch_bb": nxt,
            "continue_bb": e.get("0"),
            "break_bb": e.get("1"),
            "dest": norm_place(t["dest"])[0],
            "line": t["line"],
        })
    return out


# --------------------------------------------------------------------------
# A5: value-flow origins


# callee -> index of the argument whose value flows (identity-like) to the result
PASS_THROUGH = {
    "core::clone::Clone::clone": 0,
    "core::convert::Into::into": 0,
    "core::convert::From::from": 0,
    "core::convert::AsRef::as_ref": 0,
    "core::convert::AsMut::as_mut": 0,
    "core::borrow::Borrow::borrow": 0,
    "alloc::borrow::ToOwned::to_owned": 0,
    "core::ops::deref::Deref::deref": 0,
    "core::ops::deref::DerefMut::deref_mut": 0,
    "alloc::string::ToString::to_string": 0,
    "alloc::string::String::as_str": 0,
    "alloc::string::String::as_bytes": 0,
    "alloc::string::String::into_bytes": 0,
    "core::str::<impl str>::as_bytes": 0,
    "alloc::str::<impl str>::to_owned": 0,
    "alloc::slice::<impl [T]>::to_vec": 0,
    "core::slice::<impl [T]>::iter": 0,
    "core::array::<impl [T; N]>::as_slice": 0,
    "alloc::vec::Vec::<T, A>::as_slice": 0,
    "core::option::Option::<T>::as_ref": 0,
    "core::option::Option::<T>::as_mut": 0,
    "core::option::Option::<T>::as_deref": 0,
    "core::option::Option::<&T>::cloned": 0,
    "core::option::Option::<&T>::copied": 0,
    "core::option::Option::<T>::take": 0,
    "core::result::Result::<T, E>::as_ref": 0,
    "alloc::borrow::Cow::<'_, B>::into_owned": 0,
    "core::future::into_future::IntoFuture::into_future": 0,
    "core::pin::Pin::<Ptr>::new_unchecked": 0,
    "alloc::boxed::Box::<T>::new": 0,
    "alloc::boxed::Box::<T>::pin": 0,
    "core::iter::traits::collect::IntoIterator::into_iter": 0,
    "core::hint::must_use": 0,
    "core::mem::take": 0,
}

def default_value(gargs):
    """`<T as Default>::default()` for the std types whose default is a fixed value"""
    ty = (gargs[0] if gargs else "").strip()
    if ty.startswith("core::option::Option<"):
        return ("agg", "core::option::Option", "None", ())
    if ty == "bool":
        return ("const", 0)
    if ty in ("u8", "u16", "u32", "u64", "u128", "usize", "i8", "i16", "i32", "i64", "i128", "isize"):
        return ("const", 0)
    return None


# unwrappers: result = arg.<Variant>.0
UNWRAP = {
    "core::option::Option::<T>::unwrap": ("Some",),
    "core::option::Option::<T>::expect": ("Some",),
    "core::option::Option::<T>::unwrap_or_default": ("Some",),
    "core::option::Option::<T>::unwrap_or": ("Some",),
    "core::result::Result::<T, E>::unwrap": ("Ok",),
    "core::result::Result::<T, E>::expect": ("Ok",),
    "core::result::Result::<T, E>::unwrap_or_default": ("Ok",),
}


class Atom(tuple):
    """Origin atom: (kind, a, b, c). kinds:
    param(local, path) | upvar(index, path) | const(ty, text) | call(bb, callee, path, bodypath)
    | agg(adt, variant) | binop(op) | unknown(reason)"""

    __slots__ = ()

    @property
    def kind(self):
        return self[0]


class _Opaque:
    """hashable holder (by identity of the call site data) for JSON payloads carried in a context tuple"""
    __slots__ = ("v", "k")

    def __init__(self, v):
        self.v = v
        self.k = repr(v)

    def __hash__(self):
        return hash(self.k)

    def __eq__(self, o):
        return isinstance(o, _Opaque) and o.k == self.k

    def __iter__(self):
        return iter(self.v)

    def __getitem__(self, i):
        return self.v[i]


class Origins:
    """Backward, flow-insensitive, field-sensitive value-flow over one or more bodies
    (call-string bounded descent into workspace callees and closures)."""

    def __init__(self, program, max_depth=3):
        self.p = program
        self.max_depth = max_depth
        self._du = {}

    def du(self, body):
        if body.path not in self._du:
            self._du[body.path] = DefUse(body)
        return self._du[body.path]

    # ---- public API
    def of_operand(self, body, op, path=(), ctx=()):
        acc = set()
        self._operand(body, op, tuple(path), ctx, acc, set())
        return acc

    def of_place(self, body, local, path=(), ctx=()):
        acc = set()
        self._place(body, local, tuple(path), ctx, acc, set())
        return acc

    # ---- engine
    def _operand(self, body, op, path, ctx, acc, seen):
        if op is None:
            return
        if op["k"] in ("copy", "move"):
            l, p = norm_place(op["place"])
            self._place(body, l, p + path, ctx, acc, seen)
        elif op["k"] == "const":
            if "promoted" in op and op["promoted"] < len(body.promoted):
                pb = body.promoted[op["promoted"]]
                self._place(pb, 0, path, (), acc, seen)
                return
            txt = op.get("str")
            if txt is None and "bytes" in op:
                txt = "b:" + bytes(op["bytes"]).hex()
            if txt is None and "bits" in op:
                txt = op["bits"]
            if txt is None:
                txt = op.get("uneval") or op.get("fn") or op["s"]
            acc.add(Atom(("const", op["ty"], txt, op.get("uneval_def") or op.get("fn") or "")))
        else:
            acc.add(Atom(("unknown", op.get("s", ""), "", "")))

    def _place(self, body, local, path, ctx, acc, seen):
        key = (body.path, local, path, ctx)
        if key in seen:
            return
        seen.add(key)
        du = self.du(body)
        defs = du.defs.get(local, [])
        is_param = 1 <= local <= body.arg_count
        if is_param:
            self._param(body, local, path, ctx, acc, seen)
        if not defs and not is_param:
            if local == 0:
                return
            acc.add(Atom(("unknown", "undefined local _%d in %s" % (local, body.path), "", "")))
            return
        for d in defs:
            kind, bb, idx, dpath, payload = d
            # relation between the written place (dpath) and the queried place (path)
            n = min(len(dpath), len(path))
            if dpath[:n] != path[:n]:
                # differing variant/field: disjoint — but '[]' matches anything
                if not any(a == "[]" or b == "[]" for a, b in zip(dpath[:n], path[:n])):
                    continue
            rest = path[len(dpath):] if len(path) >= len(dpath) else ()
            if kind == "assign":
                self._rvalue(body, payload, rest, ctx, acc, seen, bb)
            elif kind == "call":
                self._call(body, bb, payload, rest, ctx, acc, seen)
            elif kind == "yield":
                acc.add(Atom(("resume", bb, "", "")))

    def _param(self, body, local, path, ctx, acc, seen):
        # coroutine / closure environment: _1.<i> are captures
        if ctx:
            caller_body, call_bb, mode, extra = ctx[-1]
            cb = self.p.bodies.get(caller_body)
            if cb is not None:
                t = cb.term(call_bb)
                if mode == "call":
                    # direct call: param i <- arg i-1
                    if local - 1 < len(t["args"]):
                        self._operand(cb, t["args"][local - 1], path, ctx[:-1], acc, seen)
                        return
                elif mode == "async":
                    # coroutine body of async fn called at (caller, call_bb): _1.<i> <- arg i
                    if local == 1 and path and isinstance(path[0], str) and path[0].isdigit():
                        i = int(path[0])
                        if i < len(t["args"]):
                            self._operand(cb, t["args"][i], path[1:], ctx[:-1], acc, seen)
                            return
                    if local == 2:
                        acc.add(Atom(("resume", 0, "", "")))
                        return
                elif mode == "closure":
                    # extra = (agg_bb, agg_idx) of the closure aggregate in caller, receiver operands
                    agg_ops, recv_ops = extra
                    if local == 1:
                        if path and isinstance(path[0], str) and path[0].isdigit():
                            i = int(path[0])
                            if i < len(agg_ops):
                                self._operand(cb, agg_ops[i], path[1:], ctx[:-1], acc, seen)
                                return
                        for o in agg_ops:
                            self._operand(cb, o, (), ctx[:-1], acc, seen)
                        return
                    # closure argument: derives from the combinator's other operands (elements)
                    for o in recv_ops:
                        self._operand(cb, o, (), ctx[:-1], acc, seen)
                    return
        if body.is_coroutine and local == 1 and path and isinstance(path[0], str) and path[0].isdigit():
            acc.add(Atom(("upvar", int(path[0]), path[1:], body.path)))
        elif "{closure#" in body.path.rsplit("::", 1)[-1] and local == 1:
            acc.add(Atom(("upvar", int(path[0]) if path and isinstance(path[0], str) and path[0].isdigit() else -1, path[1:], body.path)))
        else:
            acc.add(Atom(("param", local, path, body.path)))

    def _rvalue(self, body, rv, path, ctx, acc, seen, bb):
        k = rv["k"]
        if k == "use":
            self._operand(body, rv["op"], path, ctx, acc, seen)
        elif k in ("ref", "copyforderef", "rawptr"):
            l, p = norm_place(rv["place"])
            self._place(body, l, p + path, ctx, acc, seen)
        elif k == "cast":
            self._operand(body, rv["op"], path, ctx, acc, seen)
        elif k == "agg":
            ak = rv.get("ak")
            ops = rv["ops"]
            if ak == "adt":
                fields = rv.get("fields", [])
                p = path
                if p and isinstance(p[0], tuple):
                    if p[0][1] != rv["variant"]:
                        return  # other variant: no flow
                    p = p[1:]
                if p and isinstance(p[0], str) and p[0] in fields and len(fields) == len(ops):
                    self._operand(body, ops[fields.index(p[0])], p[1:], ctx, acc, seen)
                    return
                if p and p[0] == "[]":
                    p = p[1:]
                acc.add(Atom(("agg", rv["adt"], rv["variant"], "")))
                if not p:
                    for o in ops:
                        self._operand(body, o, (), ctx, acc, seen)
                return
            if ak == "tuple":
                if path and isinstance(path[0], str) and path[0].isdigit() and int(path[0]) < len(ops):
                    self._operand(body, ops[int(path[0])], path[1:], ctx, acc, seen)
                    return
                for o in ops:
                    self._operand(body, o, (), ctx, acc, seen)
                return
            if ak == "array":
                p = path[1:] if path and path[0] == "[]" else path
                acc.add(Atom(("agg", "array", "", "")))
                for o in ops:
                    self._operand(body, o, p, ctx, acc, seen)
                return
            if ak in ("closure", "coroutine", "coroutine_closure"):
                acc.add(Atom(("closure", rv["def"], "", "")))
                for o in ops:
                    self._operand(body, o, (), ctx, acc, seen)
                return
            for o in ops:
                self._operand(body, o, (), ctx, acc, seen)
        elif k == "binop":
            acc.add(Atom(("binop", rv["op"], "", "")))
            self._operand(body, rv["a"], (), ctx, acc, seen)
            self._operand(body, rv["b"], (), ctx, acc, seen)
        elif k == "unop":
            acc.add(Atom(("unop", rv["op"], "", "")))
            self._operand(body, rv["a"], (), ctx, acc, seen)
        elif k == "discr":
            acc.add(Atom(("discr", "", "", "")))
            l, p = norm_place(rv["place"])
            self._place(body, l, p, ctx, acc, seen)
        elif k == "repeat":
            self._operand(body, rv["op"], (), ctx, acc, seen)
        else:
            acc.add(Atom(("unknown", rv.get("s", k), "", "")))

    # hook for rules: callees whose result is an opaque source (do not look through)
    opaque = frozenset()

    def _call(self, body, bb, t, path, ctx, acc, seen):
        callee = t.get("callee") or ""
        names = callee_names(t)
        args = t["args"]
        if names & self.opaque:
            acc.add(Atom(("call", bb, callee_of(t), body.path)))
            return
        # `?`: branch(x): Continue.0 <- x.Ok.0 / x.Some.0 ; Break.0 <- residual
        if callee == TRY_BRANCH:
            p = path
            if p and p[0] == ("v", "Continue"):
                rest = p[2:] if len(p) > 1 else ()
                ty = t.get("callee_full", "")
                wrap = ("v", "Some") if "Option<" in ty.split(" as ")[0] else ("v", "Ok")
                self._operand(body, args[0], (wrap, "0") + rest, ctx, acc, seen)
            elif p and p[0] == ("v", "Break"):
                acc.add(Atom(("residual", bb, "", body.path)))
                self._operand(body, args[0], (("v", "Err"),), ctx, acc, seen)
            else:
                self._operand(body, args[0], (), ctx, acc, seen)
            return
        if callee == FROM_RESIDUAL:
            acc.add(Atom(("residual", bb, "", body.path)))
            self._operand(body, args[0], (), ctx, acc, seen)
            return
        # poll: (result as Ready).0 <- output of the awaited future
        if callee == POLL:
            aw = [a for a in self.awaits_of(body) if a.poll_bb == bb]
            p = path
            if p and p[0] == ("v", "Ready"):
                p = p[2:]
            if aw and aw[0].call is not None:
                self._awaited(body, aw[0], p, ctx, acc, seen)
            elif aw and aw[0].future_local is not None:
                acc.add(Atom(("await_local", aw[0].future_local, "", body.path)))
                self._place(body, aw[0].future_local, (), ctx, acc, seen)
            else:
                acc.add(Atom(("unknown", "poll of unknown future", "", "")))
            return
        for n in names:
            if n in PASS_THROUGH:
                i = PASS_THROUGH[n]
                if i < len(args):
                    self._operand(body, args[i], path, ctx, acc, seen)
                # From/Into between different types is a conversion: also record it
                if n in ("core::convert::Into::into", "core::convert::From::from"):
                    acc.add(Atom(("conv", callee_of(t), t.get("callee_full", ""), "")))
                return
            if n in UNWRAP:
                v = UNWRAP[n][0]
                self._operand(body, args[0], (("v", v), "0") + path, ctx, acc, seen)
                if "unwrap_or" in n and len(args) > 1:
                    self._operand(body, args[1], path, ctx, acc, seen)
                return
        # workspace callee: descend (bounded call string)
        targets = self.p.local_callee_bodies(t)
        if targets and len(ctx) < self.max_depth:
            tb = targets[0]
            if tb.j.get("asyncness") or (tb.path + "::{closure#0}" in self.p.bodies and self._returns_future(tb)):
                # calling an async fn yields its future: origin is the call itself
                acc.add(Atom(("call", bb, callee_of(t), body.path)))
                return
            acc.add(Atom(("via", bb, tb.path, body.path)))
            self._place(tb, 0, path, ctx + ((body.path, bb, "call", None),), acc, seen)
            return
        # combinators taking closures: result derives from closure result + receiver
        clos = []
        for i, a in enumerate(args):
            pl = op_place(a)
            if pl and pl[1] == ():
                d = self.du(body).single_def(pl[0])
                if d and d[0] == "assign" and d[4]["k"] == "agg" and d[4].get("ak") == "closure":
                    clos.append((i, d[4]))
        if clos:
            acc.add(Atom(("call", bb, callee_of(t), body.path)))
            others = [a for i, a in enumerate(args) if i not in [c[0] for c in clos]]
            for o in others:
                self._operand(body, o, (), ctx, acc, seen)
            for i, agg in clos:
                cb = self.p.bodies.get(agg["def"])
                if cb is not None and len(ctx) < self.max_depth + 1:
                    self._place(cb, 0, (), ctx + ((body.path, bb, "closure", _Opaque((agg["ops"], others))),), acc, seen)
                else:
                    acc.add(Atom(("closure", agg["def"], "", "")))
            return
        # default: opaque call, result may depend on all arguments
        acc.add(Atom(("call", bb, callee_of(t), body.path)))
        for a in args:
            self._operand(body, a, (), ctx, acc, seen)

    def _returns_future(self, tb):
        return "Future" in tb.locals[0]["ty"]

    _aw = None

    def awaits_of(self, body):
        if self._aw is None:
            self._aw = {}
        if body.path not in self._aw:
            self._aw[body.path] = awaits(body, self.du(body))
        return self._aw[body.path]

    def _awaited(self, body, aw, path, ctx, acc, seen):
        t = aw.call
        names = callee_names(t)
        if names & self.opaque:
            acc.add(Atom(("call", aw.call_bb, callee_of(t), body.path)))
            return
        targets = self.p.local_callee_bodies(t)
        if targets and len(ctx) < self.max_depth:
            tb = targets[0]
            co = self.p.bodies.get(tb.path + "::{closure#0}")
            if co is not None and co.is_coroutine:
                acc.add(Atom(("via", aw.call_bb, tb.path, body.path)))
                self._place(co, 0, path, ctx + ((body.path, aw.call_bb, "async", None),), acc, seen)
                return
        acc.add(Atom(("call", aw.call_bb, callee_of(t), body.path)))
        for a in t["args"]:
            self._operand(body, a, (), ctx, acc, seen)


def atoms_summary(atoms):
    """compact, stable rendering for evidence"""
    out = []
    for a in sorted(atoms, key=lambda x: tuple(str(y) for y in x)):
        k = a[0]
        if k == "call":
            out.append("call:%s" % a[2])
        elif k == "const":
            out.append("const:%s" % (a[2] if len(str(a[2])) < 60 else str(a[2])[:57] + "..."))
        elif k == "param":
            out.append("param:_%s%s" % (a[1], "".join("." + (x if isinstance(x, str) else "as " + x[1]) for x in a[2])))
        elif k == "upvar":
            out.append("upvar:%s%s" % (a[1], "".join("." + (x if isinstance(x, str) else "as " + x[1]) for x in a[2])))
        elif k in ("agg",):
            out.append("agg:%s::%s" % (a[1], a[2]))
        elif k in ("via",):
            out.append("via:%s" % a[2])
        else:
            out.append("%s:%s" % (k, a[1]))
    return sorted(set(out))


# --------------------------------------------------------------------------
# Flow-sensitive layer: reaching definitions and value terms (global value
# numbering style).  Still purely static: terms are built from def chains.


def _is_prefix(a, b):
    return len(a) <= len(b) and b[:len(a)] == a


class ReachingDefs:
    """Classic forward may-analysis. A def site is (bb, idx) with idx = statement index or 't'
    (terminator).  Strong defs kill defs of the same local whose path they cover; taking `&mut L`
    or `&raw mut L` is a weak def of L (the callee receiving the reference may write it)."""

    def __init__(self, body, removed_edges=(), entry=0):
        self.body = body
        self.removed_edges = set(removed_edges)
        self.entry = entry
        self.sites = {}  # site -> (local, path, kind, payload, strong)
        self.by_local = defaultdict(list)
        nb = len(body.blocks)
        for bb, blk in enumerate(body.blocks):
            if blk["cleanup"]:
                continue
            for i, s in enumerate(blk["stmts"]):
                if s["k"] == "assign":
                    l, p = norm_place(s["place"])
                    # references are transparent in this model (`(*self).f = v` updates the object `self` denotes);
                    # a write through a deref with an empty path would overwrite the referent entirely: keep it weak
                    deref_write = any(e["k"] == "deref" for e in s["place"]["p"]) and p == ()
                    self._add((bb, i), l, p, "assign", s["rv"], not deref_write)
                    rv = s["rv"]
                    if (rv["k"] == "ref" and rv.get("mut")) or (rv["k"] == "rawptr" and rv.get("mut", True)):
                        l2, p2 = norm_place(rv["place"])
                        # (a plain reborrow `&mut *L` is not a new object — except for a byte-buffer out-parameter
                        # `out: &mut Vec<u8>`, whose appends are what the function is about)
                        lty = (body.j["locals"][l2].get("ty") or "").replace(" ", "") if l2 < len(body.j["locals"]) else ""
                        if p2 != () or not any(e["k"] == "deref" for e in rv["place"]["p"]) or lty in ("&mutalloc::vec::Vec<u8>", "&mutVec<u8>"):
                            # `&mut L` / `&mut (*L).field` handed to a callee: the place holds an updated value afterwards
                            self._add((bb, "m%d" % i), l2, p2, "mutref", (s, i), True)
            t = blk["term"]
            if t is None:
                continue
            if t["k"] == "call":
                l, p = norm_place(t["dest"])
                self._add((bb, "t"), l, p, "call", t, True)
            elif t["k"] == "yield":
                l, p = norm_place(t["resume_arg"])
                self._add((bb, "t"), l, p, "yield", t, True)
        # params
        for l in range(1, body.arg_count + 1):
            self._add((-1, l), l, (), "param", None, True)
        self._per = {}

    def _add(self, site, local, path, kind, payload, strong):
        self.sites[site] = (local, path, kind, payload, strong)
        self.by_local[local].append(site)

    def _order(self, bb):
        """sites of a block in execution order"""
        blk = self.body.blocks[bb]
        out = []
        for i, s in enumerate(blk["stmts"]):
            if (bb, i) in self.sites:
                out.append((bb, i))
            if (bb, "m%d" % i) in self.sites:
                out.append((bb, "m%d" % i))
        if (bb, "t") in self.sites:
            out.append((bb, "t"))
        return out

    def _apply(self, state, site):
        local, path, kind, payload, strong = self.sites[site]
        if strong:
            dead = [s for s in state if self.sites[s][0] == local and _is_prefix(path, self.sites[s][1])]
            for s in dead:
                state.discard(s)
        state.add(site)

    def _solve(self):
        body = self.body
        nb = len(body.blocks)
        self.inn = [set() for _ in range(nb)]
        self.inn[0] = {s for s in self.sites if s[0] == -1}
        work = deque([0])
        inq = {0}
        out_cache = {}
        while work:
            b = work.popleft()
            inq.discard(b)
            st = set(self.inn[b])
            for site in self._order(b):
                # call dest is only defined on the return edge; approximate: defined
                self._apply(st, site)
            if out_cache.get(b) == st:
                continue
            out_cache[b] = st
            for s in body.succs(b):
                if body.blocks[s]["cleanup"] or (b, s) in self.removed_edges:
                    continue
                if not st <= self.inn[s]:
                    self.inn[s] |= st
                    if s not in inq:
                        work.append(s)
                        inq.add(s)

    def at(self, bb, idx):
        """reaching set just before statement idx of bb (idx int, or 't' for the terminator)"""
        st = set(self.inn[bb])
        for site in self._order(bb):
            sidx = site[1]
            if idx != "t":
                if sidx == "t":
                    break
                n = int(sidx[1:]) if isinstance(sidx, str) else sidx
                if n >= idx:
                    break
            else:
                if sidx == "t":
                    break
            self._apply(st, site)
        return st

    def _solve_for(self, local, path, extra_removed=frozenset()):
        """Precise reaching defs for one access path: a def covering the path (its own path is a
        prefix of `path`) kills every earlier def; deeper or mutable-borrow defs accumulate."""
        key = (local, path, extra_removed)
        if key in self._per:
            return self._per[key]
        body = self.body
        nb = len(body.blocks)
        rel = [s for s in self.by_local.get(local, []) if _is_prefix(self.sites[s][1], path) or _is_prefix(path, self.sites[s][1])]
        relset = set(rel)
        inn = [None] * nb
        if self.entry == 0:
            inn[0] = frozenset(s for s in rel if s[0] == -1)
        else:
            # analysis of one loop iteration: every local holds its (symbolic) loop-entry value
            site = (-2, local)
            self.sites[site] = (local, (), "entry", None, True)
            relset.add(site)
            inn[self.entry] = frozenset([site])
        work = deque([self.entry])
        while work:
            b = work.popleft()
            st = set(inn[b])
            for site in self._order(b):
                if site in relset:
                    self._apply_for(st, site, path)
            st = frozenset(st)
            for sc in body.succs(b):
                if body.blocks[sc]["cleanup"] or (b, sc) in self.removed_edges or (b, sc) in extra_removed:
                    continue
                if inn[sc] is None:
                    inn[sc] = st
                    work.append(sc)
                elif not st <= inn[sc]:
                    inn[sc] = inn[sc] | st
                    work.append(sc)
        self._per[key] = (inn, relset)
        return self._per[key]

    def _apply_for(self, st, site, path):
        l, dpath, kind, payload, strong = self.sites[site]
        if strong and _is_prefix(dpath, path):
            st.clear()
        st.add(site)

    def defs_of(self, local, path, bb, idx, extra_removed=frozenset()):
        """def sites reaching (bb, idx) that may determine (part of) local.path; with `extra_removed` only along
        paths avoiding those CFG edges (None when the point is unreachable then)"""
        inn, relset = self._solve_for(local, path, extra_removed)
        if inn[bb] is None:
            return [] if not extra_removed else None
        st = set(inn[bb])
        for site in self._order(bb):
            sidx = site[1]
            if idx != "t":
                if sidx == "t":
                    break
                n = int(sidx[1:]) if isinstance(sidx, str) else sidx
                if n >= idx:
                    break
            else:
                if sidx == "t":
                    break
            if site in relset:
                self._apply_for(st, site, path)
        return sorted(st, key=str)


class Terms:
    """Value terms of operands at program points (value-numbering style, hashable tuples)."""

    def __init__(self, program, body, rd=None):
        self.p = program
        self.body = body
        self.rd = rd or ReachingDefs(body)
        self.du = DefUse(body)
        self._aw = None
        self.memo = {}

    def awaits(self):
        if self._aw is None:
            self._aw = awaits(self.body, self.du)
        return self._aw

    def operand(self, op, bb, idx, depth=0):
        if op is None:
            return ("none",)
        if op["k"] == "const":
            if "promoted" in op and op["promoted"] < len(self.body.promoted):
                pb = self.body.promoted[op["promoted"]]
                rets = pb.return_blocks()
                if rets:
                    return Terms(self.p, pb).place(0, (), rets[0], "t", depth + 1)
            v = op.get("str")
            if v is None and "bytes" in op:
                v = bytes(op["bytes"])
            if v is None and "bits" in op:
                v = int(op["bits"])
            if v is None:
                v = op.get("uneval") or op.get("fn_full") or op.get("fn") or op["s"]
            return ("const", v)
        if op["k"] in ("copy", "move"):
            l, p = norm_place(op["place"])
            if getattr(self, "indexed", False):
                # opt-in: an element read `base[i]` keeps its index:  ("elem_at", base term, index term)
                pj = [e for e in op["place"]["p"] if e["k"] != "deref"]
                if pj and pj[-1]["k"] in ("index", "cindex") and not any(e["k"] in ("index", "cindex", "subslice") for e in pj[:-1]) and not (pj[-1]["k"] == "cindex" and pj[-1].get("from_end")):
                    base = self.place(l, p[:-1], bb, idx, depth + 1)
                    it = self.place(pj[-1]["l"], (), bb, idx, depth + 1) if pj[-1]["k"] == "index" else ("const", pj[-1]["offset"])
                    return ("elem_at", base, it)
                if pj and pj[-1]["k"] == "subslice" and not any(e["k"] in ("index", "cindex", "subslice") for e in pj[:-1]):
                    # `[a, b, rest @ ..]` patterns: ("subslice_at", base, from, to, counted-from-the-end?)
                    base = self.place(l, p[:-1], bb, idx, depth + 1)
                    return ("subslice_at", base, pj[-1]["from"], pj[-1]["to"], bool(pj[-1].get("from_end")))
            return self.place(l, p, bb, idx, depth)
        return ("opaque", op.get("s", "?"))

    def place(self, local, path, bb, idx, depth=0):
        key = (local, path, bb, idx)
        if key in self.memo:
            return self.memo[key]
        if depth > 60:
            return ("deep",)
        self.memo[key] = ("cyclic", local)
        sites = self.rd.defs_of(local, path, bb, idx)
        terms = set()
        updates = set()
        whole_sites = []
        sub_paths = set()
        for s in sites:
            dpath = self.rd.sites[s][1]
            kind = self.rd.sites[s][2]
            if not _is_prefix(dpath, path):
                # def (or in-place mutation) of a sub-part of the queried place: functional update of the base value.
                # The member's value at this point is whatever reaches *for that member* (a conditional assignment
                # `if c { x.f = v }` makes it a selection on c, not an unconditional update)
                sub_paths.add(dpath)
            else:
                whole_sites.append(s)
                self._query_point = (bb, idx)
                terms.add(self._site_term(s, local, path, depth + 1))
        for dp in sorted(sub_paths, key=str):
            updates.add((dp[len(path):], self.place(local, dp, bb, idx, depth + 1)))
        sites_for_gamma = whole_sites
        if not sites:
            r = ("undef", local, path)
        elif len(terms) == 1:
            r = next(iter(terms))
        elif not terms:
            r = ("undef", local, path)
        else:
            r = None
            if len(sites_for_gamma) <= 8:
                r = self._gamma(local, path, bb, idx, sites_for_gamma, depth)
            if r is None:
                r = ("phi", frozenset(terms))
        if updates:
            r = ("with", r, frozenset(updates))
        self.memo[key] = r
        return r

    def _gamma(self, local, path, bb, idx, sites, depth, removed=frozenset(), level=0):
        """Gated phi: when the definitions reaching a point are selected by a dominating switch, return
        ("gamma", switch operand term, ((edge label, value term), ...)) instead of an unordered phi.  `if c {x = a} else
        {x = b}`, `match`, and `let mut x = d; if c {x = a}` all get the selecting condition attached."""
        body = self.body
        if level > 3:
            return None
        dom = body.dominators()
        if bb not in dom:
            return None
        site_blocks = [s[0] if isinstance(s[0], int) and s[0] >= 0 else 0 for s in sites]
        common = set.intersection(*(dom.get(b, {0}) for b in site_blocks)) if site_blocks else {0}
        if level == 0:
            cands = [d for d in dom[bb] if body.term(d) is not None and body.term(d)["k"] == "switch" and (d in common or common <= dom.get(d, set()))]
        else:
            # inside one edge of an outer selection: a switch gates the point if, with the outer decisions fixed,
            # every path to the point passes through it (dominance in the restricted graph)
            cands = []
            for d in dom:
                t = body.term(d)
                if t is None or t["k"] != "switch" or body.blocks[d]["cleanup"] or not (d in common or common <= dom.get(d, set())):
                    continue
                if d == bb:
                    continue
                outs = {(d, sc) for sc in body.succs(d)}
                if bb not in body.reachable(0, removed_edges=set(removed) | outs):
                    cands.append(d)
        cands.sort(key=lambda d: len(dom[d]))
        full = set(sites)
        for D in cands:
            succs = sorted(set(body.succs(D)))
            if len(succs) < 2:
                continue
            per = {}
            for sc in succs:
                rem = removed | frozenset((D, o) for o in succs if o != sc)
                ds = self.rd.defs_of(local, path, bb, idx, rem)
                if ds is None:
                    continue  # the point is not reachable through this edge
                per[sc] = (set(ds), rem)
            if len(per) < 2 or all(v[0] == full for v in per.values()):
                continue
            if any(not v[0] for v in per.values()):
                return None
            cond = self.operand(body.term(D)["op"], D, "t", depth + 1)
            branches = []
            for sc, (ds, rem) in sorted(per.items()):
                if any(not _is_prefix(self.rd.sites[x][1], path) for x in ds):
                    return None
                ts = {self._site_term(x, local, path, depth + 1) for x in ds}
                if len(ts) == 1:
                    v = next(iter(ts))
                else:
                    v = self._gamma(local, path, bb, idx, sorted(ds, key=str), depth, rem, level + 1) or ("phi", frozenset(ts))
                branches.append((edge_label(body, D, sc), v))
            return ("gamma", cond, tuple(sorted(branches, key=str)))
        return None

    def _project(self, term, path):
        """project a term by remaining access path"""
        for e in path:
            if term[0] == "agg":
                _, adt, variant, fields = term
                if isinstance(e, tuple):
                    if e[1] == variant:
                        continue
                    return ("never",)
                d = dict(fields)
                if e in d:
                    term = d[e]
                    continue
                if e == "[]":
                    term = ("elem", term)
                    continue
                return ("field", term, e)
            term = ("field", term, e if isinstance(e, str) else "as " + e[1])
        return term

    def _site_term(self, site, local, path, depth):
        l, dpath, kind, payload, strong = self.rd.sites[site]
        bb = site[0]
        if kind == "entry":
            return self._project(("in", l), path)
        if kind == "param":
            body = self.body
            if body.is_coroutine and l == 1 and path and isinstance(path[0], str) and path[0].isdigit():
                return self._project(("upvar", int(path[0])), path[1:])
            return self._project(("param", l), path)
        if kind == "mutref":
            return self._project(self._mutation(site, l, dpath, payload, depth), path[len(dpath):]) if _is_prefix(dpath, path) else ("mutated", l, site)
        if not _is_prefix(dpath, path):
            # def of a sub-part of the queried place
            return ("partial", l, site)
        rest = path[len(dpath):]
        if kind == "yield":
            return ("resume",)
        if kind == "assign":
            idx = site[1]
            return self._project(self._rvalue(payload, bb, idx, depth), rest)
        if kind == "call":
            return self._project(self._call(payload, bb, depth), rest)
        return ("opaque", str(site))

    def _mutation(self, site, local, dpath, payload, depth):
        """value of a place after `&mut place` was passed to a call: ("upd", callee, previous value, other args)"""
        stmt, i = payload
        bb = site[0]
        r = stmt["place"]["l"]
        aliases = {r}
        blk = self.body.blocks[bb]
        for s2 in blk["stmts"][i + 1:]:
            if s2["k"] == "assign" and s2["rv"]["k"] in ("ref", "use", "rawptr", "cast"):
                src = s2["rv"].get("place") or (s2["rv"].get("op") or {}).get("place")
                if src and src["l"] in aliases:
                    aliases.add(s2["place"]["l"])
        t = blk["term"]
        prev = self.place(local, dpath, bb, i, depth + 1)
        cb = bb
        for _ in range(12):
            if t and t["k"] == "call":
                idxs = [j for j, a in enumerate(t["args"]) if a["k"] in ("copy", "move") and a["place"]["l"] in aliases]
                if idxs == [0] and len(t["args"]) == 1 and t.get("t") is not None and any(_names_is(self.call_name(t), n_) for n_ in ("Option::as_mut", "Option::as_deref_mut")):
                    # `opt.as_mut()`: the result holds a reference to the payload; a write through it (`if let Some(x) =
                    # opt.as_mut() { *x = v }`) leaves Some(v) in the object, no write (or None) leaves it as it was
                    r_ = self._through_as_mut(t, cb, prev, depth)
                    if r_ is not None:
                        return r_
                if idxs:
                    others = tuple(self.operand(a, cb, "t", depth + 1) for j, a in enumerate(t["args"]) if j not in idxs)
                    return ("upd", self.call_name(t), prev, others)
            if t and t["k"] == "goto" and t.get("inlined_call") and t.get("cont") is not None and any(
                    s2["k"] == "assign" and s2["rv"]["k"] == "use" and (s2["rv"]["op"].get("place") or {}).get("l") in aliases for s2 in self.body.blocks[cb]["stmts"]):
                # the reference was handed to a helper whose body is inlined here (rules/inline.py): the object is what the
                # helper's copy of the reference denotes when the helper is done — references are transparent in this
                # model, so that is the value of the one alias the helper wrote through
                written = self._written_aliases(aliases, cb)
                if not written:
                    return prev
                if len(written) == 1:
                    # (read at the point of the query: the helper's copy is not written after the helper is done, and the
                    # helper's continuation block may exist in several copies after return threading)
                    qb, qi = getattr(self, "_query_point", None) or (t["cont"], 0)
                    if qb == site[0] or qb not in self.body.reachable(t["cont"], follow_yield_drop=False) and qb != t["cont"]:
                        qb, qi = t["cont"], 0
                    return self.place(written[0], (), qb, qi, depth + 1)
                return ("upd", "?", prev, ())
            # two-phase borrows: the reference is taken, the other arguments are evaluated (possibly by calls in
            # following blocks), then the reference is consumed — follow the straight-line continuation
            nxt = [sc for sc in self.body.succs(cb) if not self.body.blocks[sc]["cleanup"]]
            if len(nxt) != 1 or (t and t["k"] in ("switch", "yield", "return")):
                break
            cb = nxt[0]
            blk2 = self.body.blocks[cb]
            for s2 in blk2["stmts"]:
                if s2["k"] == "assign" and s2["rv"]["k"] in ("ref", "use", "rawptr", "cast"):
                    src = s2["rv"].get("place") or (s2["rv"].get("op") or {}).get("place")
                    if src and src["l"] in aliases:
                        aliases.add(s2["place"]["l"])
            t = blk2["term"]
        # the borrow is consumed elsewhere (e.g. by an awaited call): the object is the same, its contents may differ
        return ("upd", "?", prev, ())

    def _through_as_mut(self, t, cb, prev, depth):
        d_l, d_p = norm_place(t["dest"])
        if d_p != ():
            return None
        body = self.body
        reach = body.reachable(t["t"], follow_yield_drop=False) | {t["t"]}
        derived = {d_l}
        changed = True
        while changed:
            changed = False
            for b in reach:
                blk = body.blocks[b]
                if blk["cleanup"]:
                    continue
                for s2 in blk["stmts"]:
                    if s2["k"] != "assign" or s2["rv"]["k"] not in ("use", "ref", "copyforderef", "cast"):
                        continue
                    src = s2["rv"].get("place") or (s2["rv"].get("op") or {}).get("place")
                    if not src or src["l"] not in derived or s2["place"]["p"] or s2["place"]["l"] in derived:
                        continue
                    if s2["rv"]["k"] in ("use", "cast") and any(e["k"] == "deref" for e in src["p"]):
                        continue   # `x = *r`: a copy of the value, not another name for the object
                    derived.add(s2["place"]["l"])
                    changed = True
        # the reference itself handed on to a call (`list.retain(..)`, `helper(x)`): not followed here — the caller falls back
        # to the opaque update
        for b in reach:
            t2 = body.blocks[b]["term"]
            if body.blocks[b]["cleanup"] or not t2 or t2["k"] != "call":
                continue
            for a in t2["args"]:
                if a["k"] in ("copy", "move") and a["place"]["l"] in derived and not any(e["k"] == "deref" for e in a["place"]["p"]):
                    if not (b == cb and a["place"]["l"] == d_l):
                        return None
        writes = []
        for x in sorted(derived - {d_l}):
            for site in self.rd.by_local.get(x, []):
                l_, p_, kind_, payload_, strong_ = self.rd.sites[site]
                if site[0] in reach and kind_ == "assign" and p_ == () and not strong_:
                    writes.append((site, x))
                elif site[0] in reach and ((kind_ == "assign" and p_ != ()) or kind_ == "mutref" or (kind_ == "call" and p_ != ())):
                    return None   # written in a way this model does not follow
        if not writes:
            return prev
        if len(writes) != 1:
            return None
        (wb, wi), x = writes[0]
        qb, qi = getattr(self, "_query_point", None) or (None, None)
        if qb is not None and not (qb == wb and isinstance(qi, int) and isinstance(wi, int) and qi > wi) and qb not in body.reachable(wb, follow_yield_drop=False):
            return prev       # the query point is not after the write
        stmt = body.blocks[wb]["stmts"][wi]
        v = self._rvalue(stmt["rv"], wb, wi, depth + 1)
        some = ("agg", "core::option::Option", "Some", (("0", v),))
        return ("gamma", ("discr", prev, "Option"), ((("in", "0"), prev), (("in", "1"), some)))

    def _written_aliases(self, aliases, start_bb):
        """copies of a reference made in the blocks reachable from start_bb, and among all of them those that are written
        through (a member assigned, or re-borrowed mutably)"""
        al = set(aliases)
        reach = self.body.reachable(start_bb, follow_yield_drop=False)
        changed = True
        while changed:
            changed = False
            for b in reach:
                blk = self.body.blocks[b]
                if blk["cleanup"]:
                    continue
                for s2 in blk["stmts"]:
                    if s2["k"] != "assign" or s2["rv"]["k"] not in ("ref", "use", "rawptr", "cast", "copyforderef"):
                        continue
                    src = s2["rv"].get("place") or (s2["rv"].get("op") or {}).get("place")
                    if not src or src["l"] not in al or any(e["k"] != "deref" for e in src["p"]):
                        continue
                    dst = s2["place"]
                    if dst["p"] or dst["l"] in al:
                        continue
                    al.add(dst["l"])
                    changed = True
        out = []
        for a in sorted(al):
            for site in self.rd.by_local.get(a, []):
                l_, p_, kind_, payload_, strong_ = self.rd.sites[site]
                # (a whole-object reborrow in the block that sets the call up is how the reference is handed over, not a write)
                if site[0] in reach and ((kind_ == "assign" and p_ != ()) or (kind_ == "mutref" and not (p_ == () and site[0] == start_bb)) or (kind_ == "call" and p_ != ())):
                    out.append(a)
                    break
        return out

    def _rvalue(self, rv, bb, idx, depth):
        k = rv["k"]
        if k == "use":
            return self.operand(rv["op"], bb, idx, depth)
        if k in ("ref", "copyforderef", "rawptr"):
            if getattr(self, "indexed", False) and any(e["k"] in ("index", "cindex", "subslice") for e in rv["place"]["p"]):
                # a reference to an element / sub-slice (`[a, b, rest @ ..]` patterns bind by reference): the element itself
                return self.operand({"k": "copy", "place": rv["place"]}, bb, idx, depth)
            l, p = norm_place(rv["place"])
            return self.place(l, p, bb, idx, depth)
        if k == "cast":
            inner = self.operand(rv["op"], bb, idx, depth)
            if rv["ck"].startswith("PointerCoercion") or rv["ck"] in ("PtrToPtr", "Transmute"):
                return inner
            return ("cast", rv["ty"], inner)
        if k == "agg":
            ak = rv.get("ak")
            ops = [self.operand(o, bb, idx, depth) for o in rv["ops"]]
            if ak == "adt":
                fields = rv.get("fields", [])
                if len(fields) == len(ops):
                    return ("agg", rv["adt"], rv["variant"], tuple(zip(fields, ops)))
                return ("agg", rv["adt"], rv["variant"], tuple((str(i), o) for i, o in enumerate(ops)))
            if ak == "tuple":
                return ("agg", "tuple", "", tuple((str(i), o) for i, o in enumerate(ops)))
            if ak == "array":
                return ("array", tuple(ops))
            if ak in ("closure", "coroutine", "coroutine_closure"):
                return ("closure", rv["def"], tuple(ops))
            return ("agg", ak, "", tuple((str(i), o) for i, o in enumerate(ops)))
        if k == "binop":
            return ("binop", rv["op"], self.operand(rv["a"], bb, idx, depth), self.operand(rv["b"], bb, idx, depth))
        if k == "unop":
            return ("unop", rv["op"], self.operand(rv["a"], bb, idx, depth))
        if k == "discr":
            l, p = norm_place(rv["place"])
            return ("discr", self.place(l, p, bb, idx, depth), discr_kind(rv))
        if k == "repeat":
            return ("repeat", self.operand(rv["op"], bb, idx, depth), rv["n"])
        return ("opaque", rv.get("s", k))

    def _call(self, t, bb, depth):
        callee = t.get("callee") or ""
        names = callee_names(t)
        args = t["args"]
        if callee == TRY_BRANCH:
            inner = self.operand(args[0], bb, "t", depth)
            return ("try", inner)
        if callee == POLL:
            aw = [a for a in self.awaits() if a.poll_bb == bb]
            if aw and aw[0].call is not None:
                c = aw[0].call
                at = tuple(self.operand(a, aw[0].call_bb, "t", depth) for a in c["args"])
                return ("agg", "core::task::poll::Poll", "Ready", (("0", ("await", self.call_name(c), at, aw[0].call_bb)),))
            return ("agg", "core::task::poll::Poll", "Ready", (("0", ("await_unknown", bb)),))
        if getattr(self, "conversions", False) and callee in ("core::convert::Into::into", "core::convert::From::from") and len(args) == 1:
            # opt-in: a conversion implemented in the workspace is a function like any other (Bytes -> String is an
            # encoding, not an identity); std's own conversions stay transparent
            cb = self._conversion_body(t)
            if cb is not None:
                return ("call", cb.path, (self.operand(args[0], bb, "t", depth),), bb)
        for n in names:
            if n in PASS_THROUGH:
                return self.operand(args[PASS_THROUGH[n]], bb, "t", depth)
        if callee == FROM_RESIDUAL and len(args) == 1:
            # `x?` on its failure side: the function returns Err(From::from(e)) / None — say so, instead of an opaque call
            self_ty = ((t.get("gargs") or [""])[0] or "").strip()
            inner = self.operand(args[0], bb, "t", depth)
            if self_ty.startswith("core::result::Result<"):
                return ("agg", "core::result::Result", "Err", (("0", ("residual", inner)),))
            if self_ty.startswith("core::option::Option<"):
                return ("agg", "core::option::Option", "None", ())
        if callee == "core::default::Default::default" and not args:
            d = default_value(t.get("gargs") or [])
            if d is not None:
                return d
        at = tuple(self.operand(a, bb, "t", depth) for a in args)
        if callee.startswith("core::slice::<impl [T]>::") and callee.rsplit("::", 1)[-1] in ("first_chunk", "split_first_chunk", "last_chunk", "split_last_chunk", "first_chunk_mut", "split_first_chunk_mut", "as_chunks"):
            # the chunk size is a const generic argument: kept as an extra (last) argument of the term
            ga = [g.strip() for g in (t.get("gargs") or [])]
            if ga and ga[-1].isdigit():
                at = at + (("const", int(ga[-1])),)
        return ("call", self.call_name(t), at, bb)

    def _conversion_body(self, t):
        """the workspace body implementing this `from` / `into` call, if there is one"""
        r = t.get("resolved")
        if r and r in self.p.bodies:
            return self.p.bodies[r]
        ga = t.get("gargs") or []
        if (t.get("callee") or "") == "core::convert::Into::into" and len(ga) == 2:
            src, dst = ga[0].strip(), ga[1].strip()
            for cand in ("<%s as core::convert::From<%s>>::from" % (dst, src),):
                if cand in self.p.bodies:
                    return self.p.bodies[cand]
            suffix = "<impl core::convert::From<%s> for %s>::from" % (src, dst)
            hits = [b for path, b in self.p.bodies.items() if path.endswith(suffix)]
            if len(hits) == 1:
                return hits[0]
        return None

    def call_name(self, t):
        """workspace callees by their resolved body path; everything else by the declared item
        (trait methods of std keep their trait name: core::cmp::PartialEq::eq)"""
        r = t.get("resolved")
        if r and r in self.p.bodies:
            return r
        return t.get("callee") or r or "?"

    # `try` projections: (try x).Continue.0 == x.Ok.0
    def simplify(self, term):
        return simplify_term(term)


def simplify_term(t):
    """normalise: field(try(x), Continue, 0) -> field(x, Ok/Some, 0); project through aggs"""
    if not isinstance(t, tuple) or not t:
        return t
    if t[0] == "field":
        base = simplify_term(t[1])
        name = t[2]
        if base == ("never",):
            return base  # a projection of a value on an infeasible path
        if base[0] == "agg":
            _, adt, variant, fields = base
            if name.startswith("as "):
                return base if name[3:] == variant else ("never",)
            d = dict(fields)
            if name in d:
                return simplify_term(d[name])
        if base[0] == "try" and name in ("as Continue",):
            return ("field", simplify_term(base[1]), "as OkOrSome")
        if base[0] == "try" and name in ("as Break",):
            return ("field", simplify_term(base[1]), "as ErrOrNone")
        if base[0] == "field" and base[2] in ("as OkOrSome", "as Some", "as Ok") and name == "0":
            return simplify_term(("payload", base[1]))
        if base[0] == "field" and base[2] in ("as ErrOrNone", "as Err") and name == "0":
            return simplify_term(("errpayload", base[1]))
        if base[0] == "with" and isinstance(name, str) and not name.startswith("as "):
            # reading a member of a functionally updated record
            exact = [v for pth, v in base[2] if pth == (name,)]
            if len(exact) == 1:
                return exact[0]
            deeper = frozenset((pth[1:], v) for pth, v in base[2] if len(pth) > 1 and pth[0] == name)
            inner = simplify_term(("field", base[1], name))
            return ("with", inner, deeper) if deeper else inner
        if base[0] == "phi":
            return ("phi", frozenset(simplify_term(("field", x, name)) for x in base[1]))
        if base[0] == "gamma":
            return simplify_term(("gamma", base[1], tuple((l, ("field", v, name)) for l, v in base[2])))
        return ("field", base, name)
    if t[0] in ("payload", "errpayload") and len(t) == 2:
        x = simplify_term(t[1])
        if x == ("never",):
            return x
        if isinstance(x, tuple) and len(x) == 4 and x[0] == "agg" and x[1] in ("core::option::Option", "core::result::Result", "core::ops::control_flow::ControlFlow"):
            good = ("Some", "Ok", "Continue") if t[0] == "payload" else ("Err", "Break")
            return dict(x[3]).get("0", ("never",)) if x[2] in good else ("never",)
        if isinstance(x, tuple) and x and x[0] == "try":
            x = x[1]
        return (t[0], x)
    if t[0] == "gamma":
        c = simplify_term(t[1])
        brs = [(l, simplify_term(_resolve_nested(v, t[1], l))) for l, v in t[2]]
        brs = [(l, v) for l, v in brs if v != ("never",)] or brs
        if isinstance(c, tuple) and c and c[0] == "gamma" and all(isinstance(v, tuple) and v and v[0] == "const" and isinstance(v[1], int) for l, v in c[2]):
            # a selection on a selection of constants (`if opt.is_some() {a} else {b}`): select on the inner test directly
            inner = []
            for l_in, k in c[2]:
                hit = [v for l, v in brs if lab_holds(l, str(k[1]))]
                if len(hit) != 1:
                    inner = None
                    break
                inner.append((l_in, hit[0]))
            if inner is not None:
                return simplify_term(("gamma", c[1], tuple(inner)))
        dec = [_decide_label(c, l) for l, v in brs]
        if any(d is True for d in dec):
            return [v for (l, v), d in zip(brs, dec) if d is True][0]
        brs = [(l, v) for (l, v), d in zip(brs, dec) if d is not False] or brs
        vals = {v for l, v in brs}
        if len(vals) == 1:
            return next(iter(vals))
        return ("gamma", c, tuple(sorted(brs, key=str)))
    if t[0] == "phi":
        s = frozenset(simplify_term(x) for x in t[1])
        s = frozenset(x for x in s if x != ("never",)) or s
        return next(iter(s)) if len(s) == 1 else ("phi", s)
    if t[0] == "closure" and len(t) == 3:
        return ("closure", t[1], tuple(simplify_term(c) for c in t[2]))
    if t[0] == "agg":
        return ("agg", t[1], t[2], tuple((k, simplify_term(v)) for k, v in t[3]))
    if t[0] in ("call", "await"):
        args = tuple(simplify_term(a) for a in t[2])
        if t[0] == "call" and args and isinstance(args[0], tuple) and args[0] and args[0][0] == "agg" and args[0][1] in ("core::option::Option", "core::result::Result"):
            r = _fold_known(t[1], args)
            if r is not None:
                return r
        return (t[0], t[1], args, t[3])
    if t[0] in ("binop",):
        return ("binop", t[1], simplify_term(t[2]), simplify_term(t[3]))
    if t[0] == "discr":
        return ("discr", simplify_term(t[1])) + t[2:]
    if t[0] in ("unop", "cast", "try"):
        return t[:-1] + (simplify_term(t[-1]),)
    if t[0] == "with":
        b = simplify_term(t[1])
        ups = {pth: simplify_term(v) for pth, v in t[2]}
        if isinstance(b, tuple) and b and b[0] == "with":
            # successive updates of one record: later ones override
            merged = {pth: v for pth, v in b[2] if not any(_is_prefix(p2, pth) for p2 in ups)}
            merged.update(ups)
            return ("with", b[1], frozenset(merged.items()))
        return ("with", b, frozenset(ups.items()))
    if t[0] == "upd":
        if isinstance(t[1], str) and t[1].startswith("core::option::Option::") and t[1].endswith("::take") and not t[3]:
            # `opt.take()` leaves None behind, whatever was there
            return ("agg", "core::option::Option", "None", ())
        return ("upd", t[1], simplify_term(t[2]), tuple(simplify_term(a) for a in t[3]))
    return t


def _labels_compatible(a, b):
    if a[0] == "in" and b[0] == "in":
        return bool(set(a[1:]) & set(b[1:]))
    if a[0] == "in":
        return bool(set(a[1:]) - set(b[1:]))
    if b[0] == "in":
        return bool(set(b[1:]) - set(a[1:]))
    return True


def _resolve_nested(v, cond, lab, depth=0):
    """inside the branch `lab` of a selection on `cond`, a nested selection on the same `cond` is already decided"""
    if depth > 40 or not isinstance(v, (tuple, frozenset)) or not v:
        return v
    if isinstance(v, frozenset):
        return frozenset(_resolve_nested(x, cond, lab, depth + 1) for x in v)
    if v[0] == "gamma" and v[1] == cond:
        live = [(l2, b) for l2, b in v[2] if _labels_compatible(lab, l2)]
        if len(live) == 1:
            return _resolve_nested(live[0][1], cond, lab, depth + 1)
    return tuple(_resolve_nested(x, cond, lab, depth + 1) if isinstance(x, (tuple, frozenset)) else x for x in v)


_STD_IDX = {"Option": {"None": "0", "Some": "1"}, "Result": {"Ok": "0", "Err": "1"}, "ControlFlow": {"Continue": "0", "Break": "1"}, "Poll": {"Ready": "0", "Pending": "1"}}


WORKSPACE_DISCR = {}  # adt path -> {variant name: discriminant}; filled by core.load_program


def _decide_label(cond, labs):
    """is the switch operand `cond` known to take (True) / not to take (False) the edge `labs`?  None = unknown"""
    if not isinstance(cond, tuple) or not cond:
        return None
    if cond[0] == "const" and isinstance(cond[1], int):
        return lab_holds(labs, str(cond[1]))
    if cond[0] == "discr" and isinstance(cond[1], tuple) and len(cond[1]) == 2 and cond[1][0] == "try" and isinstance(cond[1][1], tuple) and cond[1][1][:1] == ("agg",):
        # discriminant of Try::branch(known aggregate): Continue (0) for Some/Ok/Continue, Break (1) otherwise
        v = cond[1][1][2]
        if v in ("Some", "Ok", "Continue"):
            return lab_holds(labs, "0")
        if v in ("None", "Err", "Break"):
            return lab_holds(labs, "1")
        return None
    if cond[0] == "discr" and isinstance(cond[1], tuple) and cond[1] and cond[1][0] == "agg":
        adt = cond[1][1].rsplit("::", 1)[-1]
        if len(cond) > 2 and cond[2] == "try":
            # the switch is on Try::branch(x): Continue (0) for Some/Ok/Continue, Break (1) otherwise
            if cond[1][2] in ("Some", "Ok", "Continue"):
                return lab_holds(labs, "0")
            if cond[1][2] in ("None", "Err", "Break"):
                return lab_holds(labs, "1")
            return None
        idx = _STD_IDX.get(adt, {}).get(cond[1][2])
        if idx is not None:
            return lab_holds(labs, idx)
        idx = WORKSPACE_DISCR.get(cond[1][1], {}).get(cond[1][2])
        if idx is not None:
            return lab_holds(labs, idx)
    return None


def _fold_known(callee, args):
    """Option/Result adaptors applied to a *known* Some/None/Ok/Err aggregate"""
    from . import names as _n
    a = args[0]
    variant = a[2]
    payload = dict(a[3]).get("0")
    ok = variant in ("Some", "Ok")
    is_ = lambda *ps: any(_n.is_(callee, p) for p in ps)
    if is_("Option::unwrap_or", "Result::unwrap_or") and len(args) == 2:
        return payload if ok else args[1]
    if is_("Option::is_some", "Result::is_ok"):
        return ("const", 1 if ok else 0)
    if is_("Option::is_none", "Result::is_err"):
        return ("const", 0 if ok else 1)
    if is_("Option::unwrap", "Option::expect", "Result::unwrap", "Result::expect") and ok:
        return payload
    if is_("Option::ok_or") and len(args) == 2:
        return ("agg", "core::result::Result", "Ok", (("0", payload),)) if ok else ("agg", "core::result::Result", "Err", (("0", args[1]),))
    if is_("Option::or") and len(args) == 2:
        return a if ok else args[1]
    if not ok and variant == "None" and is_("Option::map", "Option::and_then", "Option::filter", "Option::is_some_and"):
        return a if not is_("Option::is_some_and") else ("const", 0)
    return None


def term_str(t, depth=0):
    if not isinstance(t, tuple) or not t:
        return str(t)
    if depth > 6:
        return "…"
    k = t[0]
    d = depth + 1
    if k == "const":
        return repr(t[1]) if not isinstance(t[1], (bytes,)) else "b" + repr(t[1])[1:]
    if k == "param":
        return "param_%d" % t[1]
    if k == "upvar":
        return "upvar_%d" % t[1]
    if k == "field":
        return "%s.%s" % (term_str(t[1], d), t[2])
    if k == "payload":
        return "payload(%s)" % term_str(t[1], d)
    if k == "agg":
        return "%s::%s{%s}" % (t[1].rsplit("::", 1)[-1], t[2], ", ".join("%s: %s" % (a, term_str(b, d)) for a, b in t[3]))
    if k in ("call", "await"):
        return "%s%s(%s)" % ("await " if k == "await" else "", t[1].rsplit("::", 2)[-2] + "::" + t[1].rsplit("::", 1)[-1] if "::" in t[1] else t[1], ", ".join(term_str(a, d) for a in t[2]))
    if k == "binop":
        return "%s(%s, %s)" % (t[1], term_str(t[2], d), term_str(t[3], d))
    if k == "phi":
        return "phi{%s}" % " | ".join(sorted(term_str(x, d) for x in t[1]))
    if k == "gamma":
        return "γ(%s){%s}" % (term_str(t[1], d), " | ".join("%s→%s" % (lab_str(l), term_str(v, d)) for l, v in t[2]))
    if k == "upd":
        return "%s.%s(%s)" % (term_str(t[2], d), t[1].rsplit("::", 1)[-1], ", ".join(term_str(a, d) for a in t[3]))
    if k == "with":
        return "%s with {%s}" % (term_str(t[1], d), ", ".join(sorted("%s: %s" % (".".join(str(e) for e in pth), term_str(v, d)) for pth, v in t[2])))
    if k == "discr":
        return "discr(%s)" % term_str(t[1], d)
    if k in ("unop", "cast", "try"):
        return "%s(%s)" % (k if k not in ("unop", "cast") else t[1], term_str(t[-1], d))
    return str(t)


def term_contains(t, pred):
    """does any sub-term satisfy pred?"""
    if pred(t):
        return True
    if isinstance(t, tuple):
        for x in t:
            if isinstance(x, (tuple, frozenset)):
                if isinstance(x, frozenset):
                    if any(term_contains(y, pred) for y in x):
                        return True
                elif term_contains(x, pred):
                    return True
    return False


# --------------------------------------------------------------------------
# A7: path conditions / decision tables


def mandatory_edges(body, target, start=0):
    """Switch edges (switch_bb, label, succ) that lie on *every* path start ->* target.
    Their conjunction is a necessary condition for reaching target."""
    out = []
    reach = body.reachable(start)
    if target not in reach:
        return out
    for sb in sorted(reach):
        t = body.term(sb)
        if not t or t["k"] != "switch" or body.blocks[sb]["cleanup"]:
            continue
        edges = body.succ_edges(sb)
        # group labels by successor
        by_succ = defaultdict(list)
        for lab, s in edges:
            by_succ[s].append(lab)
        if len(by_succ) < 2:
            continue
        explicit = [lab for lab, _ in edges if lab != "otherwise"]
        for s, labs in by_succ.items():
            # the edge to s is mandatory iff target is unreachable without it
            r = body.reachable(start, removed_edges=[(sb, s)])
            if target not in r:
                if "otherwise" in labs:
                    # canonical negative form: every value except the explicit labels that go elsewhere
                    lab = ("notin",) + tuple(sorted(x for x in explicit if x not in labs))
                else:
                    lab = ("in",) + tuple(sorted(labs))
                out.append((sb, lab, s))
    return out


def conditions(program, body, target, terms=None, start=0):
    """[(switch_bb, labels, term_of_switch_operand)] necessary for reaching `target`."""
    T = terms or Terms(program, body)
    out = []
    for sb, labs, s in mandatory_edges(body, target, start):
        t = body.term(sb)
        term = simplify_term(T.operand(t["op"], sb, "t"))
        out.append((sb, labs, term))
    return out


def cond_str(c):
    sb, labs, term = c
    return "bb%d: %s %s" % (sb, term_str(term), lab_str(labs))


def lab_str(labs):
    return ("∈{%s}" if labs[0] == "in" else "∉{%s}") % ",".join(labs[1:])


def lab_holds(labs, value):
    """does switch value (string) satisfy the edge label set?"""
    return (value in labs[1:]) if labs[0] == "in" else (value not in labs[1:])


def lab_true(labs):
    """edge taken when a bool operand is true"""
    return lab_holds(labs, "1") and not lab_holds(labs, "0")


def lab_false(labs):
    return lab_holds(labs, "0") and not lab_holds(labs, "1")


# --------------------------------------------------------------------------
# Presence tests in normal form.  `x?`, `match x { Some/Ok .. }`, `if let`, `let else`, `x.is_some()`, `x.is_none()`,
# `!x.is_ok()`, `x.ok_or(e)?`, `x.map(f).is_some()` ... all test the same thing: "x is Some / Ok / Continue".
# Rules ask asserts_ok / asserts_fail instead of matching one of those idioms.

STD_KIND = {
    "core::option::Option": "Option",
    "core::result::Result": "Result",
    "core::ops::control_flow::ControlFlow": "ControlFlow",
    "core::task::poll::Poll": "Poll",
}
SUCCESS_IDX = {"Option": "1", "Result": "0", "ControlFlow": "0", "try": "0"}


def discr_kind(rv):
    adt = rv.get("adt")
    return STD_KIND.get(adt, adt or "")


def is_discr(t, inner=None):
    return isinstance(t, tuple) and len(t) >= 2 and t[0] == "discr" and (inner is None or t[1] == inner)


def _flip(labs):
    """label of the same edge for the negated boolean"""
    sw = {"0": "1", "1": "0"}
    return (labs[0],) + tuple(sorted(sw.get(x, x) for x in labs[1:]))


_BOOL_TESTS = {  # callee -> (polarity asserted on the true edge, polarity asserted on the false edge); None = nothing asserted
    "Option::is_some": (True, False), "Option::is_none": (False, True),
    "Result::is_ok": (True, False), "Result::is_err": (False, True),
    "ControlFlow::is_continue": (True, False), "ControlFlow::is_break": (False, True),
    "Option::is_some_and": (True, None), "Result::is_ok_and": (True, None),
    "Option::is_none_or": (None, True),
}
# wrappers under which "is Some/Ok" is *equivalent* for wrapper(x) and x
_EQUIV = ("Option::ok_or", "Option::ok_or_else", "Option::map", "Result::map", "Result::map_err", "Result::ok",
          "Option::as_ref", "Option::as_mut", "Option::as_deref", "Option::as_deref_mut", "Result::as_ref", "Result::as_mut",
          "Result::as_deref", "Option::cloned", "Option::copied", "Result::cloned", "Result::copied", "Option::inspect",
          "Result::inspect", "Result::inspect_err", "Option::take", "Option::map_or_else", "Into::into", "From::from")
# wrappers under which success of wrapper(x) *implies* success of x (not the converse)
_IMPLIES = ("Option::and_then", "Result::and_then", "Option::filter", "Option::zip", "Option::and", "Result::and", "Option::is_some_and", "Result::is_ok_and")


def _callee_is(t, pats):
    from . import names as _n
    return isinstance(t, tuple) and len(t) == 4 and t[0] in ("call", "await") and isinstance(t[1], str) and any(_n.is_(t[1], p) for p in pats)


def presence_test(t, labs):
    """-> (subject, polarity) if the edge (t, labs) asserts that `subject` is Some/Ok/Continue (True) or None/Err/Break
    (False); polarity None when the edge asserts neither; returns None when t is not a presence test at all."""
    if not isinstance(t, tuple) or not t:
        return None
    if t[0] == "discr":
        x = t[1]
        kind = t[2] if len(t) > 2 else ""
        if isinstance(x, tuple) and x and x[0] == "try":
            kind, x = "try", x[1]
        ok = SUCCESS_IDX.get(kind)
        if ok is None:
            return None
        bad = "1" if ok == "0" else "0"
        if lab_holds(labs, ok) and not lab_holds(labs, bad):
            return (x, True)
        if lab_holds(labs, bad) and not lab_holds(labs, ok):
            return (x, False)
        return (x, None)
    if t[0] == "unop" and t[1] == "Not":
        return presence_test(t[2], _flip(labs))
    if len(t) == 4 and t[0] == "call":
        from . import names as _n
        for pat, (on_true, on_false) in _BOOL_TESTS.items():
            if _n.is_(t[1], pat):
                pol = on_true if lab_true(labs) else (on_false if lab_false(labs) else None)
                return (t[2][0], pol)
    return None


def _subjects(x, equiv_only):
    """x and everything whose presence is implied by / equivalent to the presence of x"""
    seen = 0
    while isinstance(x, tuple) and x and seen < 12:
        yield x
        seen += 1
        if x[0] == "try":
            x = x[1]
        elif x[0] == "payload" and False:
            break
        elif _callee_is(x, _EQUIV) or (not equiv_only and _callee_is(x, _IMPLIES)):
            x = x[2][0]
        else:
            break


def bool_atom(t, labs):
    """strip negations: -> (atom, polarity) with polarity True/False when the edge asserts atom / not atom, else None"""
    pol = True if lab_true(labs) else (False if lab_false(labs) else None)
    while isinstance(t, tuple) and t and t[0] == "unop" and t[1] == "Not":
        t = t[2]
        pol = None if pol is None else not pol
    return t, pol


def emptiness_test(t, labs):
    """-> (collection term, polarity): the edge asserts that the collection is empty (True) / non-empty (False).
    Recognises is_empty(), len() == 0, len() != 0, len() > 0, len() >= 1, 0 < len() and their negations."""
    a, pol = bool_atom(t, labs)
    if pol is None or not isinstance(a, tuple) or not a:
        # switch directly on len()
        if isinstance(t, tuple) and len(t) == 4 and t[0] == "call" and t[1].endswith("::len"):
            if lab_holds(labs, "0") and labs[0] == "in" and labs[1:] == ("0",):
                return t[2][0], True
            if not lab_holds(labs, "0"):
                return t[2][0], False
        return None
    if len(a) == 4 and a[0] == "call" and a[1].endswith("::is_empty"):
        return a[2][0], pol
    if a[0] == "binop":
        op, x, y = a[1], a[2], a[3]
        # `len()` as a call, or as the pointer metadata a slice pattern (`[]`, `[first, ..]`) reads
        is_len = lambda z: isinstance(z, tuple) and ((len(z) == 4 and z[0] == "call" and z[1].endswith("::len")) or (len(z) == 3 and z[0] == "unop" and z[1] == "PtrMetadata"))
        of = lambda z: z[2][0] if z[0] == "call" else z[2]
        zero = lambda z: z == ("const", 0)
        one = lambda z: z == ("const", 1)
        if is_len(x) and zero(y):
            if op == "Eq" or op == "Le":
                return of(x), pol
            if op in ("Ne", "Gt"):
                return of(x), not pol
        if is_len(y) and zero(x):
            if op == "Eq" or op == "Ge":
                return of(y), pol
            if op in ("Ne", "Lt"):
                return of(y), not pol
        if is_len(x) and one(y) and op == "Ge":
            return of(x), not pol
        if is_len(x) and one(y) and op == "Lt":
            return of(x), pol
    return None


def variant_test(t, labs):
    """-> (subject, variant name, polarity): the edge asserts that `subject` (a value of a workspace enum) is / is not the
    named variant — a switch on its discriminant with a single value in or out; None otherwise"""
    if not (isinstance(t, tuple) and len(t) >= 3 and t[0] == "discr" and isinstance(t[2], str)):
        return None
    tab = WORKSPACE_DISCR.get(t[2])
    if not tab or labs is None or len(labs) < 2:
        return None
    by_val = {v: k for k, v in tab.items()}
    vals = [x for x in labs[1:]]
    if len(vals) == 1 and vals[0] in by_val:
        return (t[1], by_val[vals[0]], labs[0] == "in")
    rest = [v for v in by_val if v not in vals]
    if len(rest) == 1 and all(v in by_val for v in vals):
        return (t[1], by_val[rest[0]], labs[0] != "in")
    return None


def variant_bool(t):
    """-> (subject, variant name, polarity): the boolean term is `subject is <variant>` (True) or `subject is not <variant>`
    (False) — written as ==/!= against the unit variant, `matches!`, or a match with constant arms; None otherwise"""
    e = eq_test(t, ("notin", "0"))
    if e is not None and len(e[0]) == 2 and e[1] is not None:
        a, b = tuple(e[0])
        for x, y in ((a, b), (b, a)):
            if isinstance(y, tuple) and len(y) == 4 and y[0] == "agg" and not y[3] and not (isinstance(x, tuple) and len(x) == 4 and x[0] == "agg"):
                return (x, y[2], e[1])
    if isinstance(t, tuple) and t and t[0] == "gamma" and all(v in (("const", 0), ("const", 1)) for l, v in t[2]):
        out = set()
        for l, v in t[2]:
            vt = variant_test(t[1], l)
            if vt is None:
                return None
            subj, name, pol = vt
            # on this edge `subject is name` has truth value pol, and the term has value v
            out.add((subj, name, pol == (v == ("const", 1))))
        if len(out) == 1:
            return next(iter(out))
    return None


def eq_test(t, labs):
    """-> (frozenset{a, b}, polarity): the edge asserts a == b (True) / a != b (False); Eq/Ne binops, PartialEq::eq/ne
    calls and negations of them; None when t is not an equality test or the edge asserts neither"""
    a, pol = bool_atom(t, labs)
    if pol is None or not isinstance(a, tuple) or not a:
        return None
    if a[0] == "binop" and a[1] in ("Eq", "Ne"):
        x, y = a[2], a[3]
        # derived PartialEq of a field-less enum compares discriminants
        dv = lambda z: isinstance(z, tuple) and len(z) == 4 and z[0] == "call" and z[1].endswith("intrinsics::discriminant_value") and z[2]
        if dv(x) and dv(y):
            x, y = x[2][0], y[2][0]
        return frozenset((x, y)), (pol if a[1] == "Eq" else not pol)
    if len(a) == 4 and a[0] == "call" and isinstance(a[1], str) and len(a[2]) == 2:
        from . import names as _n
        if _n.is_(a[1], "PartialEq::eq"):
            return frozenset(a[2]), pol
        if _n.is_(a[1], "PartialEq::ne"):
            return frozenset(a[2]), not pol
    return None


def iterator_source(t):
    """the iterator a loop walks: for the receiver term of `Iterator::next` inside a `for` loop — phi{initial iterator,
    the same state advanced by next()} — return the initial iterator expression when the state is advanced by nothing
    else; for any other term return it unchanged"""
    if isinstance(t, tuple) and t and t[0] == "phi":
        base = [x for x in t[1] if not (isinstance(x, tuple) and len(x) == 4 and x[0] == "upd")]
        adv = [x for x in t[1] if isinstance(x, tuple) and len(x) == 4 and x[0] == "upd"]
        if len(base) == 1 and all(isinstance(x[1], str) and x[1].endswith("::next") for x in adv):
            return base[0]
        return None
    return t


def gamma_select(t, test):
    """for a gamma term: {key: value} where key = test(cond, labs) for each branch (None keys kept as None)"""
    if not (isinstance(t, tuple) and t and t[0] == "gamma"):
        return None
    return {test(t[1], l): v for l, v in t[2]}


def payload_subject(t):
    """if t is the payload of a successful value — payload(x), x.as Some.0, x.as Ok.0, unwrap/expect(x) — return x"""
    if isinstance(t, tuple) and t:
        if t[0] == "payload":
            return t[1]
        if t[0] == "field" and t[2] == "0" and isinstance(t[1], tuple) and t[1][0] == "field" and t[1][2] in ("as Some", "as Ok", "as OkOrSome", "as Continue"):
            return t[1][1]
        if _callee_is(t, ("Option::unwrap", "Option::expect", "Result::unwrap", "Result::expect", "Option::unwrap_unchecked")):
            return t[2][0]
    return None


def is_payload_of(t, pred):
    """t is the success payload of a value x such that pred holds for x or for something x is an
    error-mapping / reference wrapper of (ok_or, map_err, as_ref ... — wrappers that do not change the payload)"""
    x = payload_subject(t)
    if x is None:
        return False
    same_payload = ("Option::ok_or", "Option::ok_or_else", "Result::map_err", "Result::ok", "Option::as_ref", "Option::as_deref",
                    "Result::as_ref", "Option::cloned", "Option::copied", "Into::into", "From::from")
    n = 0
    while isinstance(x, tuple) and x and n < 10:
        if pred(x):
            return True
        n += 1
        if x[0] == "try":
            x = x[1]
        elif _callee_is(x, same_payload):
            x = x[2][0]
        else:
            break
    return False


def asserts_ok(t, labs, pred):
    """the edge asserts that some value satisfying pred is Some/Ok/Continue"""
    r = presence_test(t, labs)
    return bool(r and r[1] is True and any(pred(s) for s in _subjects(r[0], False)))


def asserts_fail(t, labs, pred):
    """the edge asserts that some value satisfying pred is None/Err/Break"""
    r = presence_test(t, labs)
    return bool(r and r[1] is False and any(pred(s) for s in _subjects(r[0], True)))


def presence_selection(t, pred):
    """for a selection γ(test){..} whose test is a presence test of a value satisfying pred:
    ({True: value when present, False: value when absent}, the tested value)"""
    sel, subj = {}, None
    if isinstance(t, tuple) and t and t[0] == "gamma":
        for l, v in t[2]:
            r = presence_test(t[1], l)
            if r is not None and r[1] is not None:
                s = [x for x in _subjects(r[0], True) if pred(x)]
                if s:
                    sel[r[1]] = v
                    subj = s[0]
    return sel, subj


def tests_presence_of(t, pred):
    """the switch operand is a presence test (either polarity) of a value satisfying pred"""
    r = presence_test(t, ("in", "1")) or presence_test(t, ("in", "0"))
    return bool(r and any(pred(s) for s in _subjects(r[0], True)))


def success_edges(program, body, pred, terms=None, N=None):
    """CFG edges (switch block, successor) asserting that a value satisfying pred is Some/Ok/Continue, and the
    complementary failure edges of the same switches: ([(sb, succ)], [(sb, succ)]).  With a Normalizer N a test on a value
    that was *selected* from the tested one (`let r = match x {Ok(v) => .., Err(e) => Err(e)}; r?`) counts too: the edge
    is reduced to the tests it implies (normal.norm_cond)."""
    T = terms or Terms(program, body)
    ok, bad = [], []
    for sb, blk in enumerate(body.blocks):
        t = blk["term"]
        if not t or t["k"] != "switch" or blk["cleanup"]:
            continue
        term = simplify_term(T.operand(t["op"], sb, "t"))
        if N is not None:
            from . import normal as _normal
            term = N.norm(term)
        elif not tests_presence_of(term, pred) and presence_test(term, ("in", "1")) is None:
            continue
        for succ in sorted(set(body.succs(sb))):
            labs = edge_label(body, sb, succ)
            implied = [(term, labs)]
            if N is not None:
                implied = _normal.norm_cond(term, labs)
                if implied is None:
                    continue
            if any(asserts_ok(t2, l2, pred) for t2, l2 in implied):
                ok.append((sb, succ))
            elif any(presence_test(t2, l2) is not None and any(pred(s) for s in _subjects(presence_test(t2, l2)[0], False)) for t2, l2 in implied):
                bad.append((sb, succ))
    return ok, bad



def decision_paths(body, target, start=0, cap=400):
    """Enumerate the distinct sets of switch decisions along acyclic paths start ->* target.
    Each decision is (switch_bb, succ).  Poll loops are cut (a block is not revisited on a path).
    Returns list of tuples of decisions in path order, or None if more than `cap` paths."""
    can_reach = set()
    preds = body.preds()
    dq = deque([target])
    can_reach.add(target)
    while dq:
        x = dq.popleft()
        for pr in preds.get(x, []):
            if pr not in can_reach and not body.blocks[pr]["cleanup"]:
                can_reach.add(pr)
                dq.append(pr)
    results = set()
    count = [0]

    def dfs(b, onpath, decisions):
        if count[0] > cap * 50:
            return
        if b == target:
            results.add(tuple(decisions))
            count[0] += 1
            return
        t = body.term(b)
        edges = body.succ_edges(b)
        succs = []
        for lab, sc in edges:
            if lab == "drop":
                continue
            if sc not in succs:
                succs.append(sc)
        is_switch = t is not None and t["k"] == "switch" and len(succs) > 1
        for sc in succs:
            if sc in onpath or sc not in can_reach:
                continue
            if is_switch:
                decisions.append((b, sc))
            onpath.add(sc)
            dfs(sc, onpath, decisions)
            onpath.discard(sc)
            if is_switch:
                decisions.pop()

    import sys
    old = sys.getrecursionlimit()
    sys.setrecursionlimit(max(old, 10000))
    try:
        dfs(start, {start}, [])
    finally:
        sys.setrecursionlimit(old)
    if len(results) > cap or count[0] > cap * 50:
        return None
    return sorted(results)


def edge_label(body, sb, succ):
    """canonical label ('in', ...) / ('notin', ...) of the switch edge sb -> succ"""
    edges = body.succ_edges(sb)
    explicit = [lab for lab, _ in edges if lab != "otherwise"]
    labs = [lab for lab, sc in edges if sc == succ]
    if "otherwise" in labs:
        return ("notin",) + tuple(sorted(x for x in explicit if x not in labs))
    return ("in",) + tuple(sorted(labs))


def contradicting_edges(body, decisions):
    """edges of the decided switches that were not taken"""
    out = []
    for sb, succ in decisions:
        for sc in set(body.succs(sb)):
            if sc != succ:
                out.append((sb, sc))
    return out


def flagset(t, depth=0):
    """the set of named bit-flag constants OR-ed together in a flags-valued term (`Flags::empty() | A | B`,
    `f |= A`, `Flags::from_bits_retain(A.bits() | B.bits())`, the expanded bitflags internals ...); None if unknown"""
    from . import names as _n
    if depth > 20 or not isinstance(t, tuple) or not t:
        return None
    if t == ("const", 0):
        return set()
    if t[0] == "const" and isinstance(t[1], str) and "::" in t[1]:
        return {t[1].rsplit("::", 1)[-1]}
    if t[0] == "agg" and len(t[3]) == 1:
        return flagset(t[3][0][1], depth + 1)
    if t[0] == "field" and t[2] == "0":
        return flagset(t[1], depth + 1)
    if t[0] == "binop" and t[1] == "BitOr":
        a, b = flagset(t[2], depth + 1), flagset(t[3], depth + 1)
        return None if a is None or b is None else a | b
    if len(t) == 4 and t[0] == "call" and isinstance(t[1], str):
        if t[1].endswith("::empty") and not t[2]:
            return set()
        if (_n.is_(t[1], "BitOr::bitor") or t[1].endswith("::union")) and len(t[2]) == 2:
            a, b = flagset(t[2][0], depth + 1), flagset(t[2][1], depth + 1)
            return None if a is None or b is None else a | b
        if (t[1].endswith("::bits") or t[1].endswith("::from_bits_retain") or t[1].endswith("::from_bits_truncate")) and len(t[2]) == 1:
            return flagset(t[2][0], depth + 1)
    if len(t) == 4 and t[0] == "upd" and isinstance(t[1], str) and (_n.is_(t[1], "BitOrAssign::bitor_assign") or t[1].endswith("::insert")) and len(t[3]) == 1:
        a, b = flagset(t[2], depth + 1), flagset(t[3][0], depth + 1)
        return None if a is None or b is None else a | b
    return None


def flag_conditions(t, depth=0):
    """{flag name: True | condition term}: which named flags a flags-valued term holds, and under which boolean — like
    flagset(), plus `f.set(FLAG, b)` (member exactly when b) ; None if unknown"""
    fs = flagset(t)
    if fs is not None:
        return {k: True for k in fs}
    if depth > 20 or not isinstance(t, tuple) or not t:
        return None
    if len(t) == 4 and t[0] == "upd" and isinstance(t[1], str) and t[1].endswith("::set") and len(t[3]) == 2:
        base = flag_conditions(t[2], depth + 1)
        which = flagset(t[3][0])
        if base is None or which is None or len(which) != 1:
            return None
        name = next(iter(which))
        out = dict(base)
        b = t[3][1]
        if b == ("const", 1):
            out[name] = True
        elif b == ("const", 0):
            out.pop(name, None)
        else:
            out[name] = b
        return out
    if len(t) == 4 and t[0] == "upd" and isinstance(t[1], str) and (_names_is(t[1], "BitOrAssign::bitor_assign") or t[1].endswith("::insert")) and len(t[3]) == 1:
        base, add = flag_conditions(t[2], depth + 1), flagset(t[3][0])
        if base is None or add is None:
            return None
        out = dict(base)
        out.update({k: True for k in add})
        return out
    return None


def flag_delta(t, depth=0):
    """(base, added): a flags-valued term as `base | added-flags` where base is the first sub-term that is not an OR of
    named constants (e.g. `self.flags`), or None when the value is built from constants only"""
    from . import names as _n
    fs = flagset(t)
    if fs is not None:
        return None, fs
    if depth > 20 or not isinstance(t, tuple) or not t:
        return t, set()
    if len(t) == 4 and t[0] == "upd" and isinstance(t[1], str) and (_n.is_(t[1], "BitOrAssign::bitor_assign") or t[1].endswith("::insert")) and len(t[3]) == 1:
        add = flagset(t[3][0])
        if add is not None:
            b, s0 = flag_delta(t[2], depth + 1)
            return b, s0 | add
    if len(t) == 4 and t[0] == "call" and isinstance(t[1], str) and (_n.is_(t[1], "BitOr::bitor") or t[1].endswith("::union") or t[1].endswith("::set_flags")) and len(t[2]) == 2:
        add = flagset(t[2][1])
        if add is not None:
            b, s0 = flag_delta(t[2][0], depth + 1)
            return b, s0 | add
    if t[0] == "binop" and t[1] == "BitOr":
        for x, y in ((t[2], t[3]), (t[3], t[2])):
            add = flagset(y)
            if add is not None:
                b, s0 = flag_delta(x, depth + 1)
                return b, s0 | add
    if t[0] == "agg" and len(t[3]) == 1:
        return flag_delta(t[3][0][1], depth + 1)
    if t[0] == "field" and t[2] == "0":
        b, s0 = flag_delta(t[1], depth + 1)
        if s0:
            return b, s0
    return t, set()


def merge_const_segments(segs):
    """adjacent constant segments as one byte string:  b"ab", [0x00]  ==  b"ab\0";  other segments unchanged"""
    out = []
    for s in segs:
        b = None
        if isinstance(s, tuple) and len(s) == 2 and s[0] in ("const", "bytes") and isinstance(s[1], (bytes, bytearray)):
            b = bytes(s[1])
        elif isinstance(s, tuple) and len(s) == 2 and s[0] == "array" and s[1] and all(isinstance(e, tuple) and len(e) == 2 and e[0] == "const" and isinstance(e[1], int) and 0 <= e[1] < 256 for e in s[1]):
            b = bytes(e[1] for e in s[1])
        if b is not None and out and out[-1][0] == "bytes":
            out[-1] = ("bytes", out[-1][1] + b)
        elif b is not None:
            out.append(("bytes", b))
        else:
            out.append(s)
    return out


def byte_segments(t):
    """Ordered segments of a byte-sequence-building value, whichever way it is built:
    `a.into_iter().chain(b).chain(c).collect()`  or  `let mut v = Vec::new(); v.push(x); v.extend(b); v` (functional
    updates of one buffer).  A pushed element x is the one-element array segment ("array", (x,)) — the same as `[x]`.
    A part that is only present under a test — `opt.map(f).into_iter().flatten()` in a chain, or `if let Some(x) = opt
    { v.extend(f(x)) }` — is ("when", test term, edge label, [segments]).  Give it normal-form terms (normal.Normalizer)."""
    from . import names as _n
    is_ = lambda name, *ps: any(_n.is_(name, p) for p in ps)
    while isinstance(t, tuple) and len(t) == 4 and t[0] == "call" and is_(t[1], "Iterator::collect", "IntoIterator::into_iter", "Iterator::copied", "Iterator::cloned", "slice::iter", "Vec::from", "slice::to_vec") and t[2]:
        t = t[2][0]
    if isinstance(t, tuple) and len(t) == 4 and t[0] == "call" and isinstance(t[1], str) and (t[1].endswith("box_assume_init_into_vec_unsafe") or t[1].endswith("::into_vec")) and len(t[2]) == 1:
        # `vec![a, b, c]`: a boxed array turned into a vector — the array's elements
        arrs = []

        def _find_arr(x, d=0):
            if isinstance(x, tuple) and len(x) == 2 and x[0] == "array":
                arrs.append(x)
                return
            if isinstance(x, (tuple, frozenset)) and d < 8:
                for y in x:
                    if isinstance(y, (tuple, frozenset)):
                        _find_arr(y, d + 1)
        _find_arr(t[2][0])
        if len(arrs) == 1:
            return [arrs[0]] if arrs[0][1] else []
    if t == ("default",) or t == ("const", b"") or (isinstance(t, tuple) and len(t) == 2 and t[0] == "array" and not t[1]):
        return []  # an empty sequence
    # a borrowed view of the same bytes
    while isinstance(t, tuple) and len(t) == 4 and t[0] == "call" and t[2] and (is_(t[1], "Vec::as_slice", "array::as_slice", "slice::as_ref", "AsRef::as_ref", "Deref::deref", "Bytes::as_slice")
                                                                                 or (is_(t[1], "Index::index") and len(t[2]) == 2 and isinstance(t[2][1], tuple) and len(t[2][1]) == 4 and t[2][1][0] == "agg" and str(t[2][1][1]).endswith("RangeFull"))):
        t = t[2][0]
    if isinstance(t, tuple) and len(t) == 4 and t[0] == "call":
        if is_(t[1], "slice::concat", "<[T]>::concat", "Concat::concat", "slice::Concat::concat") and len(t[2]) == 1 and isinstance(t[2][0], tuple) and t[2][0] and t[2][0][0] == "array":
            out = []
            for e in t[2][0][1]:
                out += byte_segments(e)
            return out
        if is_(t[1], "Iterator::chain"):
            return byte_segments(t[2][0]) + byte_segments(t[2][1])
        if is_(t[1], "Vec::new", "Vec::with_capacity") or (is_(t[1], "Default::default") and not t[2]):
            return []
        if is_(t[1], "iter::once", "core::iter::sources::once::once") and t[2]:
            return [("array", (t[2][0],))]
        if is_(t[1], "Iterator::flatten") and t[2]:
            # an Option (or a selection yielding Some(x)/None) flattened into the stream: present only when Some
            x = t[2][0]
            while isinstance(x, tuple) and len(x) == 4 and x[0] == "call" and is_(x[1], "IntoIterator::into_iter", "Option::into_iter", "Option::iter") and x[2]:
                x = x[2][0]
            if isinstance(x, tuple) and x and x[0] == "gamma":
                out = []
                for l, v in x[2]:
                    if isinstance(v, tuple) and len(v) == 4 and v[0] == "agg" and v[1] == "core::option::Option":
                        if v[2] == "Some":
                            out.append(("when", x[1], l, byte_segments(dict(v[3])["0"])))
                    else:
                        return [t]
                return out
            if isinstance(x, tuple) and len(x) == 4 and x[0] == "agg" and x[1] == "core::option::Option":
                return byte_segments(dict(x[3])["0"]) if x[2] == "Some" else []
    if isinstance(t, tuple) and len(t) == 4 and t[0] == "upd" and isinstance(t[1], str):
        prev, args = t[2], t[3]
        if is_(t[1], "Vec::push") and len(args) == 1:
            return byte_segments(prev) + [("array", (args[0],))]
        if is_(t[1], "Extend::extend", "Vec::extend_from_slice", "Vec::extend", "Vec::append") and len(args) == 1:
            return byte_segments(prev) + byte_segments(args[0])
        if is_(t[1], "ciborium::ser::into_writer", "Write::write_all") and args:
            # a writer over a byte vector appends: what was there, then what this call writes (kept as the same call on an
            # empty buffer)
            ps = byte_segments(prev)
            if ps != [prev] or prev == ("default",):
                return ps + [("upd", t[1], ("call", "alloc::vec::Vec::<T>::new", (), 0), args)]
    if isinstance(t, tuple) and len(t) == 2 and t[0] == "phi" and len(t[1]) == 2:
        # the buffer after `for part in [a, b, c] { buffer.extend_from_slice(&part) }`: a loop over an array literal that
        # appends each element as it comes is the elements appended in order
        cyc = lambda x: term_contains(x, lambda y: isinstance(y, tuple) and len(y) == 2 and y[0] == "cyclic")
        loop = [x for x in t[1] if isinstance(x, tuple) and len(x) == 4 and x[0] == "upd" and isinstance(x[1], str) and is_(x[1], "Extend::extend", "Vec::extend_from_slice", "Vec::extend", "Vec::push") and len(x[3]) == 1 and cyc(x)]
        base = [x for x in t[1] if not cyc(x)]
        if len(loop) == 1 and len(base) == 1:
            elem = loop[0][3][0]
            while isinstance(elem, tuple) and len(elem) == 4 and elem[0] == "call" and elem[2] and is_(elem[1], "Deref::deref", "AsRef::as_ref", "Vec::as_slice", "Clone::clone"):
                elem = elem[2][0]
            nxt = elem[1] if isinstance(elem, tuple) and len(elem) == 2 and elem[0] == "payload" else None
            if nxt is not None and isinstance(nxt, tuple) and len(nxt) == 4 and nxt[0] == "call" and is_(nxt[1], "Iterator::next"):
                arrs = []
                def find_arr(x, d=0):
                    if isinstance(x, tuple) and len(x) == 2 and x[0] == "array":
                        arrs.append(x)
                        return
                    if isinstance(x, (tuple, frozenset)) and d < 8:
                        for y in x:
                            if isinstance(y, (tuple, frozenset)):
                                find_arr(y, d + 1)
                find_arr(nxt[2][0])
                # the loop body's own previous value must be the loop-carried buffer itself (nothing else is appended)
                inner = loop[0][2]
                plain = inner == ("cyclic", inner[1]) if isinstance(inner, tuple) and len(inner) == 2 and inner[0] == "cyclic" else (isinstance(inner, tuple) and len(inner) == 2 and inner[0] == "phi" and any(y == base[0] for y in inner[1]))
                if len(arrs) == 1 and plain:
                    out = byte_segments(base[0])
                    for e in arrs[0][1]:
                        out += [("array", (e,))] if is_(loop[0][1], "Vec::push") else byte_segments(e)
                    return out
    if isinstance(t, tuple) and t and t[0] == "gamma" and len(t[2]) == 2:
        # the buffer after `if test { buffer.extend(x) }`: common prefix and suffix, the difference is conditional
        (l1, v1), (l2, v2) = t[2]
        s1, s2 = byte_segments(v1), byte_segments(v2)
        if s1 != [v1] or s2 != [v2]:
            # align the two segment lists (longest common subsequence); what differs is conditional
            n1, n2 = len(s1), len(s2)
            L = [[0] * (n2 + 1) for _ in range(n1 + 1)]
            for i in range(n1 - 1, -1, -1):
                for j in range(n2 - 1, -1, -1):
                    L[i][j] = L[i + 1][j + 1] + 1 if s1[i] == s2[j] else max(L[i + 1][j], L[i][j + 1])
            out, i, j, g1, g2 = [], 0, 0, [], []

            def flush():
                if g1 and g2 and len(g1) == len(g2) and all(a[0] == "array" and b[0] == "array" and len(a[1]) == 1 and len(b[1]) == 1 for a, b in zip(g1, g2)):
                    for a, b in zip(g1, g2):
                        out.append(("array", (simplify_term(("gamma", t[1], ((l1, a[1][0]), (l2, b[1][0])))),)))
                else:
                    if g1:
                        out.append(("when", t[1], l1, list(g1)))
                    if g2:
                        out.append(("when", t[1], l2, list(g2)))
                del g1[:], g2[:]
            while i < n1 and j < n2:
                if s1[i] == s2[j]:
                    flush()
                    out.append(s1[i])
                    i += 1
                    j += 1
                elif L[i + 1][j] >= L[i][j + 1]:
                    g1.append(s1[i])
                    i += 1
                else:
                    g2.append(s2[j])
                    j += 1
            g1.extend(s1[i:])
            g2.extend(s2[j:])
            flush()
            return out
    return [t]


def expand_byte_calls(program, N, segs, depth=0):
    """segments that are calls to workspace functions building a byte sequence themselves are replaced by that function's
    own segments (its parameters substituted) — `x.encode()` written out where it is used, one level per call"""
    from . import summary as _s
    out = []
    for s in segs:
        if isinstance(s, tuple) and len(s) == 4 and s[0] == "when":
            out.append(("when", s[1], s[2], expand_byte_calls(program, N, s[3], depth)))
            continue
        b = program.bodies.get(s[1]) if isinstance(s, tuple) and len(s) == 4 and s[0] == "call" and isinstance(s[1], str) else None
        if b is None or depth > 3 or not b.return_blocks() or len(s[2]) != b.arg_count:
            out.append(s)
            continue
        ret = N.norm(Terms(program, b).place(0, (), b.return_blocks()[0], "t"))
        inner = byte_segments(ret)
        # (a helper whose value is one indivisible byte string — `x.to_be_bytes()`, an array, a constant — is read through its
        # value; one that fills a buffer at positions, selects, or loops stays a call for the layout reader of the rule)
        if inner == [ret] and (not isinstance(ret, tuple) or ret[:1] not in (("call",), ("array",), ("const",), ("field",)) or term_contains(ret, lambda y: isinstance(y, tuple) and y and y[0] in ("cyclic", "opaque", "undef", "upd", "with", "repeat", "gamma", "phi"))):
            out.append(s)
            continue
        sub = []
        for x in inner:
            for k, a in enumerate(s[2]):
                x = _s.replace(x, ("param", k + 1), a)
            sub.append(simplify_term(x))
        out += expand_byte_calls(program, N, sub, depth + 1)
    return out


def strip_sites(t):
    """drop call-site identities (block ids) from call/await terms: two calls of the same function on the same
    argument terms compare equal (valid for pure accessors; callers decide when that is appropriate)"""
    if isinstance(t, frozenset):
        return frozenset(strip_sites(x) for x in t)
    if not isinstance(t, tuple):
        return t
    if len(t) == 4 and t and t[0] in ("call", "await") and isinstance(t[1], str):
        return (t[0], t[1], tuple(strip_sites(a) for a in t[2]), None)
    return tuple(strip_sites(x) if isinstance(x, (tuple, frozenset)) else x for x in t)



def loops(body):
    """natural loops: {head: set(blocks)} from back edges (target dominates source)"""
    dom = body.dominators()
    out = {}
    for b in dom:
        for sc in body.succs(b):
            if sc in dom.get(b, ()):  # back edge b -> sc
                blocks = {sc, b}
                stack = [b]
                preds = body.preds()
                while stack:
                    x = stack.pop()
                    for pr in preds.get(x, []):
                        if pr not in blocks and pr in dom and sc in dom[pr]:
                            blocks.add(pr)
                            stack.append(pr)
                out.setdefault(sc, set()).update(blocks)
    return out


def loop_steps(program, body, head, blocks, state_locals, cap=400):
    """Transition table of one loop iteration.  For every acyclic decision path from the loop head to
    (a) a back edge or (b) the first block outside the loop: the branch conditions and the values of the
    state locals at the end of the path, all expressed over the loop-entry values ('in', local).
    Returns list of dicts {kind: 'continue'|'exit', end: bb, conds: [(term, labels)], state: {local: term}}"""
    back = [(b, head) for b in blocks if head in body.succs(b)]
    exits = sorted({sc for b in blocks for sc in body.succs(b) if sc not in blocks and not body.blocks[sc]["cleanup"]
                    and (body.term(sc) or {}).get("k") != "unreachable"})
    # post-loop join: the first block every exit reaches
    post = None
    if exits:
        sets = [body.reachable(e, follow_yield_drop=False) for e in exits]
        common = set.intersection(*sets)
        for c in sorted(common):
            if common <= body.reachable(c, follow_yield_drop=False):
                post = c
                break
    rows = []
    allowed = set(blocks)
    if post is not None:
        for e in exits:
            allowed |= {x for x in body.reachable(e, removed_blocks=[post], follow_yield_drop=False)}
        allowed.add(post)
    for kind, targets in (("continue", sorted({b for b, _ in back})), ("exit", [post] if post is not None else [])):
        for tgt in targets:
            paths = _loop_paths(body, head, tgt, allowed if kind == "exit" else blocks, back, cap)
            if paths is None:
                rows.append({"kind": kind, "end": tgt, "conds": None, "state": {}})
                continue
            for dec in paths:
                removed = contradicting_edges(body, dec) + back
                rd = ReachingDefs(body, removed_edges=removed, entry=head)
                T = Terms(program, body, rd)
                conds = []
                for sb, succ in dec:
                    t = body.term(sb)
                    conds.append((simplify_term(T.operand(t["op"], sb, "t")), edge_label(body, sb, succ), sb))
                state = {}
                for l in state_locals:
                    state[l] = simplify_term(T.place(l, (), tgt, 0 if kind == "exit" else "t"))
                rows.append({"kind": kind, "end": tgt, "conds": conds, "state": state})
    return rows


def _loop_paths(body, head, target, blocks, back, cap):
    backset = set(back)
    results = set()
    count = [0]

    def dfs(b, onpath, decisions):
        if count[0] > cap * 20:
            return
        if b == target:
            results.add(tuple(decisions))
            count[0] += 1
            return
        if b not in blocks:
            return
        t = body.term(b)
        succs = []
        for lab, sc in body.succ_edges(b):
            if lab == "drop" or (b, sc) in backset:
                continue
            if sc not in succs:
                succs.append(sc)
        is_switch = t is not None and t["k"] == "switch" and len(succs) > 1
        for sc in succs:
            if sc in onpath:
                continue
            if is_switch:
                decisions.append((b, sc))
            onpath.add(sc)
            dfs(sc, onpath, decisions)
            onpath.discard(sc)
            if is_switch:
                decisions.pop()

    import sys
    old = sys.getrecursionlimit()
    sys.setrecursionlimit(max(old, 10000))
    try:
        dfs(head, {head}, [])
    finally:
        sys.setrecursionlimit(old)
    if len(results) > cap or count[0] > cap * 20:
        return None
    return sorted(results)
