"""MIR-level inlining of workspace-private callees (a *view* of a body; the facts on disk are untouched).

Rules are stated at public entry points.  Whether the code behind an entry point sits in the method itself or in a
private helper (`self.sign_assertion(..)`, `self.has_excluded_credential(..).await`, `collect_client_data(..)`) must not
change a verdict.  Value-level questions already look through helpers (summary expansion, Normalizer.inline); the
CFG-level ones — "this call is cut by that success edge", "no suspension point after the save", "the aggregate built
here" — need the helper's blocks in the caller's graph.  `inlined(program, body, keep)` returns a synthetic Body in
which every call to a workspace function that is not exported from its crate (and not in `keep`) is replaced by a copy
of the callee's blocks:

  sync call   dest = f(a1..an) -> T     ==>  p1 = a1; ..; pn = an; goto f.bb0 ;  f's `return` ==> dest = move f._0; goto T
  awaited     f(a1..an).await           ==>  the coroutine body of f with its captured arguments bound to a1..an;
                                             f's `return` ==> poll_result = Poll::Ready(move f._0); goto <Ready arm>
                                             (f's own suspension points stay suspension points of the caller)

Locals, blocks and promoted constants of the callee are renumbered.  Recursion and depth are bounded; what is not
inlined stays a call.  Nothing of the analysed repository is executed.
"""
import copy
import re

from . import core, flow

MAX_DEPTH = 6
MAX_BLOCKS = 6000


def _remap(x, lmap, bmap, poff):
    """deep copy of a JSON fragment with locals / promoted indices renumbered (block references are handled by the caller)"""
    if isinstance(x, dict):
        out = {}
        for k, v in x.items():
            if k == "l" and isinstance(v, int):
                out[k] = lmap(v)
            elif k == "promoted" and isinstance(v, int):
                out[k] = v + poff
            elif k == "s" and isinstance(v, str) and "_" in v:
                out[k] = re.sub(r"\b_(\d+)\b", lambda m: "_%d" % lmap(int(m.group(1))), v)
            else:
                out[k] = _remap(v, lmap, bmap, poff)
        return out
    if isinstance(x, list):
        return [_remap(v, lmap, bmap, poff) for v in x]
    return x


def _remap_term(t, lmap, bmap, poff):
    if t is None:
        return None
    t2 = _remap(t, lmap, bmap, poff)
    for k in ("t", "otherwise", "drop", "imaginary", "unwind"):
        if isinstance(t.get(k), int):
            t2[k] = bmap(t[k])
    if "targets" in t:
        t2["targets"] = [[v, bmap(b)] for v, b in t["targets"]]
    return t2


def _place(l):
    return {"l": l, "p": [], "s": "_%d" % l}


def _assign(dst_place, rv, line):
    return {"k": "assign", "place": dst_place, "rv": rv, "line": line, "inlined": True}


def default_policy(program, callee, keep=()):
    """inline functions that are not part of their crate's exported API"""
    if callee is None or callee.crate not in core.WORKSPACE_CRATES:
        return False
    if callee.def_kind not in ("Fn", "AssocFn"):
        return False
    if callee.j.get("is_pub"):
        return False
    ri = callee.j.get("root_item") or {}
    if isinstance(ri, dict) and (ri.get("impl") or {}).get("trait"):
        return False  # trait impl methods are the trait's API
    for k in keep:
        if k(callee):
            return False
    return True


class _Builder:
    def __init__(self, program, body, policy):
        self.p = program
        self.policy = policy
        self.j = copy.deepcopy(body.j)
        self.root = body
        self.n_inlined = []

    def callee_of(self, t):
        rid = t.get("resolved_id") or t.get("callee_id")
        b = self.p.by_id.get(rid) if rid else None
        if b is None:
            r = t.get("resolved") or t.get("callee")
            b = self.p.bodies.get(r) if r else None
        return b

    def run(self):
        stack = [self.root.path]
        # work list of (block index, depth, call stack); new blocks are appended and examined in turn
        todo = [(i, 0, tuple(stack)) for i in range(len(self.j["blocks"]))]
        while todo:
            bb, depth, stk = todo.pop(0)
            if len(self.j["blocks"]) > MAX_BLOCKS or depth >= MAX_DEPTH:
                continue
            blk = self.j["blocks"][bb]
            t = blk["term"]
            if not t or t["k"] != "call" or blk["cleanup"]:
                continue
            callee = self.callee_of(t)
            if callee is None or callee.path in stk or not self.policy(self.p, callee):
                continue
            self._chain = stk + (callee.path,)
            if callee.j.get("asyncness") or self._is_async_wrapper(callee):
                new = self._inline_await(bb, callee)
            else:
                new = self._inline_sync(bb, callee)
            if new:
                self.n_inlined.append(callee.path)
                todo += [(i, depth + 1, stk + (callee.path,)) for i in new]
        return self.j

    def _is_async_wrapper(self, callee):
        co = self.p.async_body(callee)
        return co is not None and co.is_coroutine

    # ---- copying a callee
    @staticmethod
    def _generic_subst(callee, call_term):
        """{generic parameter name: argument text} for this call (const generics and type parameters), from the
        callee's parameter names and the call's generic arguments"""
        gn = callee.j.get("generics") or []
        ga = (call_term or {}).get("gargs") or []
        if not gn or len(gn) != len(ga):
            return {}
        return {n: a for n, a in zip(gn, ga) if n and not n.startswith("'") and n != a and re.match(r"^[A-Za-z_][A-Za-z_0-9]*$", n)}

    @staticmethod
    def _apply_subst(x, sub):
        if not sub:
            return x
        pat = re.compile(r"\b(%s)\b" % "|".join(re.escape(k) for k in sorted(sub, key=len, reverse=True)))
        rep = lambda m: sub[m.group(1)]

        def walk(v):
            if isinstance(v, dict):
                if v.get("k") == "const" and v.get("tyconst") in sub and str(sub[v["tyconst"]]).strip().isdigit():
                    # a const generic parameter used as a value: the argument of this call
                    w = dict(v)
                    w["bits"] = str(sub[v["tyconst"]]).strip()
                    w["s"] = "const %s" % w["bits"]
                    w.pop("tyconst", None)
                    return w
                return {k: (pat.sub(rep, vv) if k in ("ty", "n") and isinstance(vv, str) else walk(vv)) for k, vv in v.items()}
            if isinstance(v, list):
                return [walk(y) for y in v]
            return v
        return walk(x)

    def _copy(self, callee, lmap_special=None, call_term=None):
        """append callee's locals/blocks/promoted; -> (local map fn, block map fn, list of new block ids)"""
        sub = self._generic_subst(callee, call_term)
        j = self.j
        loff = len(j["locals"])
        boff = len(j["blocks"])
        poff = len(j.get("promoted", []))
        cj = callee.j
        for l in cj["locals"]:
            j["locals"].append(self._apply_subst(dict(l), sub))
        if cj.get("promoted"):
            j.setdefault("promoted", [])
            j["promoted"] += copy.deepcopy(cj["promoted"])
        lmap = lambda l: loff + l
        bmap = lambda b: boff + b
        new = []
        for cb in cj["blocks"]:
            nb = {"cleanup": cb["cleanup"], "stmts": [self._apply_subst(_remap(s, lmap, bmap, poff), sub) for s in cb["stmts"]],
                  "term": self._apply_subst(_remap_term(cb["term"], lmap, bmap, poff), sub), "file": callee.file, "from": callee.path, "from_bb": len(new), "chain": list(getattr(self, "_chain", ()))}
            for k in cb:
                if k not in nb:
                    nb[k] = copy.deepcopy(cb[k])
            j["blocks"].append(nb)
            new.append(len(j["blocks"]) - 1)
        return lmap, bmap, new, poff

    def _inline_sync(self, bb, callee):
        blk = self.j["blocks"][bb]
        t = blk["term"]
        if t.get("t") is None or len(t["args"]) != callee.arg_count:
            return None
        lmap, bmap, new, poff = self._copy(callee, call_term=t)
        line = t.get("line", 0)
        for i, a in enumerate(t["args"]):
            blk["stmts"].append(_assign(_place(lmap(i + 1)), {"k": "use", "op": a}, line))
        target, dest = t["t"], t["dest"]
        blk["term"] = {"k": "goto", "t": bmap(0), "line": line, "exp": t.get("exp", False), "inlined_call": callee.path, "cont": target}
        for nb in new:
            b2 = self.j["blocks"][nb]
            tt = b2["term"]
            if tt and tt["k"] == "return":
                b2["stmts"].append(_assign(copy.deepcopy(dest), {"k": "use", "op": {"k": "move", "place": _place(lmap(0))}}, tt.get("line", line)))
                b2["term"] = {"k": "goto", "t": target, "line": tt.get("line", line), "exp": False}
                b2["inlined_ret"] = True
        return new

    def _inline_await(self, bb, callee):
        """the call in block bb creates a future that is awaited right away: splice the coroutine body in"""
        co = self.p.async_body(callee)
        if co is None or not co.is_coroutine:
            return None
        view = core.Body(self.j, self.root.crate)
        aw = [a for a in flow.awaits(view) if a.call_bb == bb]
        if len(aw) != 1 or aw[0].ready_bb is None or aw[0].poll_bb is None:
            return None
        a = aw[0]
        blk = self.j["blocks"][bb]
        t = blk["term"]
        poll_dest = self.j["blocks"][a.poll_bb]["term"]["dest"]
        line = t.get("line", 0)
        # upvars of the coroutine = the async fn's parameters, in order: (_1.k) ==> fresh local holding argument k
        loff = len(self.j["locals"])
        nco = len(co.locals)
        up_base = loff + nco
        args = t["args"]

        lmap, bmap, new, poff = self._copy(co)
        for k, arg in enumerate(args):
            ty = callee.locals[k + 1]["ty"] if k + 1 < len(callee.locals) else "?"
            self.j["locals"].append({"ty": ty, "name": callee.locals[k + 1].get("name") if k + 1 < len(callee.locals) else None, "user": False})
        # rewrite (_1.k ..) places of the copied blocks

        def fix(x):
            if isinstance(x, dict):
                if isinstance(x.get("l"), int) and x["l"] == lmap(1) and isinstance(x.get("p"), list) and x["p"] and x["p"][0].get("k") == "field":
                    k = x["p"][0].get("i")
                    if k is None:
                        nm = x["p"][0].get("name")
                        k = int(nm) if isinstance(nm, str) and nm.isdigit() else None
                    if k is not None and k < len(args):
                        x["l"] = up_base + k
                        x["p"] = x["p"][1:]
                        x["s"] = "_%d%s" % (up_base + k, "" if not x["p"] else ".…")
                for v in x.values():
                    fix(v)
            elif isinstance(x, list):
                for v in x:
                    fix(v)
        for nb in new:
            fix(self.j["blocks"][nb])
        for k, arg in enumerate(args):
            blk["stmts"].append(_assign(_place(up_base + k), {"k": "use", "op": arg}, line))
        blk["term"] = {"k": "goto", "t": bmap(0), "line": line, "exp": t.get("exp", False), "inlined_call": callee.path, "cont": a.ready_bb}
        for nb in new:
            b2 = self.j["blocks"][nb]
            tt = b2["term"]
            if tt and tt["k"] == "return":
                rv = {"k": "agg", "ak": "adt", "adt": "core::task::poll::Poll", "variant": "Ready", "fields": ["0"],
                      "ops": [{"k": "move", "place": _place(lmap(0))}]}
                b2["stmts"].append(_assign(copy.deepcopy(poll_dest), rv, tt.get("line", line)))
                b2["term"] = {"k": "goto", "t": a.ready_bb, "line": tt.get("line", line), "exp": False}
                b2["inlined_ret"] = True
        return new


def _prune(j):
    """blocks no longer reachable from the entry (the replaced await plumbing) become empty `unreachable` blocks"""
    view = core.Body(j, "")
    reach = set()
    work = [0]
    while work:
        b = work.pop()
        if b in reach:
            continue
        reach.add(b)
        for lab, sc in view.succ_edges(b, cleanup=True):
            if sc is not None and sc not in reach:
                work.append(sc)
    for i, blk in enumerate(j["blocks"]):
        if i not in reach:
            blk["stmts"] = []
            blk["term"] = {"k": "unreachable", "line": 0, "exp": False}
            blk["dead"] = True


def _retarget(term, m):
    """replace normal-successor block indices of a terminator by m[index]"""
    if not term:
        return
    k = term["k"]
    if k == "switch":
        term["targets"] = [[v, m.get(tg, tg)] for v, tg in term["targets"]]
        term["otherwise"] = m.get(term["otherwise"], term["otherwise"])
    elif term.get("t") is not None:
        term["t"] = m.get(term["t"], term["t"])


_PLUMBING = ("core::ops::try_trait::", "core::result::Result::", "core::option::Option::", "core::convert::", "core::ops::control_flow::",
             "core::task::poll::Poll", "core::ops::deref::", "core::borrow::", "core::clone::Clone::clone")


def _plumbing_call(t):
    """std calls that only re-wrap or test a Result/Option (`Try::branch`, `map_err`, `ok`, `as_ref`, `From::from` …)"""
    c = (t.get("callee") or "")
    return any(c.startswith(p_) for p_ in _PLUMBING)


def _thread_returns(program, j, crate, max_chain=60, rounds=8):
    """An inlined callee's return block is a join: every `return Err(..)` / `return Ok(..)` of the callee meets there (often
    through several nested joins and a straight-line epilogue of drops), and the caller then tests the result (`?`,
    `match`).  On the plain CFG the callee's error return could flow into the caller's success arm — an infeasible path that
    would make every cut rule ("only past the successful check") fail as soon as a check is moved into a fallible helper.
    Tail-duplicate the straight-line chain from the nearest join before an inlined return to the first switch after it,
    once per predecessor, repeat for the joins further up, and fold the switches whose operand is then decided.  Nothing
    else changes: every duplicated block keeps its statements and successors."""
    fold = set()
    for _round in range(rounds):
        view = core.Body(j, crate)
        nblocks = len(j["blocks"])
        preds = {}
        for b in range(nblocks):
            if j["blocks"][b]["cleanup"] or j["blocks"][b].get("dead"):
                continue
            for lab, sc in view.succ_edges(b):
                if sc is not None:
                    preds.setdefault(sc, []).append(b)
        progress = False
        done_joins = set()
        for R0 in range(nblocks):
            blk = j["blocks"][R0]
            if not blk.get("inlined_ret") or blk["cleanup"] or blk.get("dead"):
                continue
            # the nearest join of the callee's return paths: walk back over straight-line blocks
            J, back = R0, 0
            while back < max_chain:
                pj = sorted(set(preds.get(J, [])))
                if len(pj) != 1:
                    break
                q = pj[0]
                tq = j["blocks"][q]["term"]
                if j["blocks"][q]["cleanup"] or not tq or tq["k"] not in ("goto", "drop", "falseedge", "falseunwind") or tq.get("t") != J or q == 0:
                    break
                J = q
                back += 1
            ps = sorted(set(preds.get(J, [])))
            if len(ps) < 2 or J in done_joins or len(j["blocks"]) > MAX_BLOCKS:
                continue
            chain, cur, ok = [J], J, False
            while len(chain) <= max_chain:
                t = j["blocks"][cur]["term"]
                if not t:
                    break
                if t["k"] == "switch":
                    ok = True
                    break
                if t["k"] == "call" and not _plumbing_call(t):
                    break  # never duplicate a call that does something: only the test of the returned value is threaded
                if t["k"] in ("goto", "call", "drop", "assert", "falseedge", "falseunwind") and t.get("t") is not None:
                    nxt = t["t"]
                    if len(set(preds.get(nxt, []))) != 1 or j["blocks"][nxt]["cleanup"] or nxt in chain:
                        break
                    chain.append(nxt)
                    cur = nxt
                else:
                    break
            if not ok:
                continue
            done_joins.add(J)
            fold.add(chain[-1])
            for P in ps[1:]:
                m = {}
                for b in chain:
                    nb = copy.deepcopy(j["blocks"][b])
                    nb["threaded_from"] = nb.get("threaded_from", b)
                    j["blocks"].append(nb)
                    m[b] = len(j["blocks"]) - 1
                for k, b in enumerate(chain[:-1]):
                    _retarget(j["blocks"][m[b]]["term"], {chain[k + 1]: m[chain[k + 1]]})
                _retarget(j["blocks"][P]["term"], {J: m[J]})
                fold.add(m[chain[-1]])
            progress = True
        if not progress:
            break
    if not fold:
        return
    view = core.Body(j, crate)
    T = flow.Terms(program, view)
    for sb in sorted(fold):
        t = j["blocks"][sb]["term"]
        if not t or t["k"] != "switch":
            continue
        term = flow.simplify_term(T.operand(t["op"], sb, "t"))
        dead = set()
        succs = sorted(set(view.succs(sb)))
        for sc in succs:
            if flow._decide_label(term, flow.edge_label(view, sb, sc)) is False:
                dead.add(sc)
        live = [sc for sc in succs if sc not in dead]
        if dead and len(live) == 1:
            j["blocks"][sb]["term"] = {"k": "goto", "t": live[0], "line": t.get("line", 0), "exp": False, "folded_switch": True}
        elif dead and live:
            keep = [[v, tg] for v, tg in t["targets"] if tg not in dead]
            other = t["otherwise"]
            if other in dead:
                other = keep[-1][1]
                keep = keep[:-1]
            t["targets"], t["otherwise"] = keep, other


_cache = {}


def inlined(program, body, keep=(), policy=None):
    """synthetic Body: `body` with its non-exported workspace callees inlined (transitively)"""
    if body is None:
        return None
    key = (id(program), body.path, tuple(getattr(k, "__name__", repr(k)) for k in keep), policy is not None)
    if key in _cache and policy is None:
        return _cache[key]
    pol = policy or (lambda p, c: default_policy(p, c, keep))
    b = _Builder(program, body, pol)
    j = b.run()
    _prune(j)
    if b.n_inlined:
        _thread_returns(program, j, body.crate)
        _prune(j)
    j["inlined"] = b.n_inlined
    nb = core.Body(j, body.crate)
    nb.inlined_callees = b.n_inlined
    if policy is None:
        _cache[key] = nb
    return nb
