"""A10 — interval abstract interpretation over MIR for slice lengths and integers.

A small forward dataflow (interval domain, branch refinement on comparisons, widening) that
tracks  (a) integer locals and (b) the length of slice / array / Vec / str values.
It is used to discharge panic-site obligations: bounds checks, range slicing, split_at,
copy_from_slice, arithmetic overflow and exact-length conversions.  Nothing is executed.
"""
import re
from collections import deque

from . import flow, names

INF = float("inf")
TYPE_MAX = {"u8": 255, "u16": 65535, "u32": 2**32 - 1, "u64": 2**64 - 1, "usize": 2**64 - 1, "u128": 2**128 - 1,
            "i8": 127, "i16": 32767, "i32": 2**31 - 1, "i64": 2**63 - 1, "isize": 2**63 - 1, "bool": 1}
LEN_MAX = 2**63 - 1  # isize::MAX: upper bound of every slice length


class Iv(tuple):
    __slots__ = ()

    def __new__(cls, lo, hi):
        return tuple.__new__(cls, (lo, hi))

    @property
    def lo(self):
        return self[0]

    @property
    def hi(self):
        return self[1]

    def join(self, o):
        return Iv(min(self.lo, o.lo), max(self.hi, o.hi))

    def meet(self, o):
        return Iv(max(self.lo, o.lo), min(self.hi, o.hi))

    def empty(self):
        return self.lo > self.hi

    def exact(self):
        return self.lo if self.lo == self.hi else None

    def __repr__(self):
        return "[%s,%s]" % (self.lo, "inf" if self.hi == INF else self.hi)


TOP = Iv(0, INF)


def ty_range(ty):
    ty = ty.strip()
    if ty in TYPE_MAX:
        return Iv(0 if ty.startswith("u") or ty == "bool" else -TYPE_MAX[ty] - 1, TYPE_MAX[ty])
    return None


ARR_RE = re.compile(r"^&?(?:mut )?\[.*; (\d+)\]$")


def ty_len(ty):
    """exact length for array types / references to arrays"""
    m = ARR_RE.match(ty.strip().replace("&'_ ", "&").replace("&'a ", "&"))
    if m:
        return int(m.group(1))
    m = re.match(r"^generic_array::GenericArray<.*>$", ty)
    return None


LEN_CALLS = ("slice::len", "Vec::len", "str::len", "String::len", "Bytes::len", "array::len")
SAME_LEN_CALLS = ("Deref::deref", "DerefMut::deref_mut", "Vec::as_slice", "Vec::as_mut_slice", "AsRef::as_ref", "AsMut::as_mut", "Borrow::borrow",
                  "str::as_bytes", "String::as_bytes", "String::as_str", "array::as_slice", "slice::to_vec", "Clone::clone", "ToOwned::to_owned",
                  "slice::iter", "Bytes::as_slice", "Into::into", "From::from", "slice::as_ref")


class State(dict):
    """var -> Iv ; var = ('i', local) integer, ('l', local) length of the value held/pointed to by local"""

    def copy(self):
        return State(self)

    def get_iv(self, v, default=TOP):
        return self.get(v, default)


class Intervals:
    def __init__(self, program, body, passes=4, init=None):
        self.p = program
        self.body = body
        self.init = init
        self.du = flow.DefUse(body)
        self.passes = passes
        self.entry = {}  # bb -> State at block entry
        self.cmp_defs = {}  # local -> (op, a_operand, b_operand)  for single-def comparison temps
        self.not_defs = {}
        self._collect()
        self._solve()

    # ---------------- helpers
    def _collect(self):
        for bb, s in self.body.stmts():
            if s["k"] != "assign":
                continue
            l, p = flow.norm_place(s["place"])
            if p != ():
                continue
            rv = s["rv"]
            if rv["k"] == "binop" and rv["op"] in ("Lt", "Le", "Gt", "Ge", "Eq", "Ne"):
                if len(self.du.defs.get(l, [])) == 1:
                    self.cmp_defs[l] = (rv["op"], rv["a"], rv["b"])
            if rv["k"] == "unop" and rv["op"] == "Not":
                pl = flow.op_place(rv["a"])
                if pl and pl[1] == () and len(self.du.defs.get(l, [])) == 1:
                    self.not_defs[l] = pl[0]
            if rv["k"] == "use":
                pl = flow.op_place(rv["op"])
                if pl and pl[1] == () and len(self.du.defs.get(l, [])) == 1 and self.body.local_ty(l) == "bool":
                    self.not_defs.setdefault(("copy", l), pl[0])

    def local_default(self, l, kind):
        ty = self.body.local_ty(l)
        if kind == "i":
            r = ty_range(ty)
            return r if r is not None else Iv(-INF, INF)
        n = ty_len(ty)
        if n is not None:
            return Iv(n, n)
        return Iv(0, LEN_MAX)

    def iv_operand(self, st, op):
        """interval of an integer operand"""
        if op is None:
            return Iv(-INF, INF)
        if op["k"] == "const":
            b = flow.const_bits(op)
            if b is not None:
                return Iv(b, b)
            r = ty_range(op.get("ty", ""))
            if op.get("tyconst") and any(("; %s]" % op["tyconst"]) in (l_.get("ty") or "") for l_ in self.body.locals):
                # a const generic parameter that is the length of an array type of this function: no array is longer than
                # isize::MAX bytes
                return Iv(0, LEN_MAX)
            return r if r is not None else Iv(-INF, INF)
        pl = flow.op_place(op)
        if pl is None:
            return Iv(-INF, INF)
        l, p = pl
        if p == ():
            return st.get(("i", l), self.local_default(l, "i"))
        v = ("i", l) + tuple(str(x) for x in p)
        if v in st:
            return st[v]
        ty = op["place"]["p"][-1].get("ty") if op["place"]["p"] and op["place"]["p"][-1]["k"] == "field" else None
        r = ty_range(ty) if ty else None
        return r if r is not None else Iv(-INF, INF)

    def len_operand(self, st, op):
        """interval of the length of a slice-like operand (never above isize::MAX, whatever widening did to it)"""
        r = self._len_operand(st, op)
        if r.hi > LEN_MAX or r.lo < 0:
            return Iv(max(r.lo, 0), min(r.hi, LEN_MAX))
        return r

    def _len_operand(self, st, op):
        if op is None:
            return Iv(0, LEN_MAX)
        if op["k"] == "const":
            if "str" in op:
                n = len(op["str"].encode())
                return Iv(n, n)
            if "bytes" in op:
                return Iv(len(op["bytes"]), len(op["bytes"]))
            n = ty_len(op.get("ty", ""))
            return Iv(n, n) if n is not None else Iv(0, LEN_MAX)
        pl = flow.op_place(op)
        if pl is None:
            return Iv(0, LEN_MAX)
        l, p = pl
        if p == ():
            return st.get(("l", l), self.local_default(l, "l"))
        v = ("l", l) + tuple(str(x) for x in p)
        if v in st:
            return st[v]
        last = op["place"]["p"][-1]
        if last["k"] == "field":
            n = ty_len(last.get("ty", ""))
            if n is not None:
                return Iv(n, n)
        return Iv(0, LEN_MAX)

    # ---------------- relational facts (difference constraints between symbols)
    def sym(self, op, depth=0):
        """symbolic name of an integer operand: the length of a slice root, or the local itself"""
        pl = flow.op_place(op) if op else None
        if not pl:
            return None
        l, p = pl
        if p != () or depth > 8:
            return ("i", l) + tuple(str(x) for x in p)
        d = self.du.single_def(l)
        if d is None:
            return ("i", l)
        if d[0] == "call" and names.call_is(d[4], *LEN_CALLS):
            r = self.root(d[4]["args"][0])
            return ("l",) + r if r else ("i", l)
        if d[0] == "assign":
            rv = d[4]
            if rv["k"] == "unop" and rv["op"] == "PtrMetadata":
                r = self.root(rv["a"])
                return ("l",) + r if r else ("i", l)
            if rv["k"] == "use" and flow.op_place(rv["op"]) and flow.op_place(rv["op"])[1] == ():
                return self.sym(rv["op"], depth + 1)
            if rv["k"] == "use" and rv["op"]["k"] in ("copy", "move") and flow.op_place(rv["op"]) and flow.op_place(rv["op"])[1] != () \
                    and not any(e["k"] in ("index", "cindex", "subslice") for e in rv["op"]["place"]["p"]):
                # a temporary holding a copy of a member: named after the member (relations about it are dropped when the
                # member is written, rel_kill)
                l2, p2 = flow.op_place(rv["op"])
                if any(isinstance(x, str) and not x.isdigit() for x in p2):
                    return ("i", l2) + tuple(str(x) for x in p2)
        return ("i", l)

    def root(self, op, depth=0):
        """root place (local, path...) of a slice-like operand through copies, reborrows and same-length calls"""
        pl = flow.op_place(op) if op else None
        if not pl:
            return None
        l, p = pl
        if p != () or depth > 10:
            return (l,) + tuple(str(x) for x in p)
        d = self.du.single_def(l)
        if d is None or (1 <= l <= self.body.arg_count):
            return (l,)
        if d[0] == "assign" and d[3] == ():
            rv = d[4]
            if rv["k"] in ("use", "cast") and flow.op_place(rv["op"]):
                return self.root(rv["op"], depth + 1)
            if rv["k"] in ("ref", "copyforderef", "rawptr"):
                return self.root({"k": "copy", "place": rv["place"]}, depth + 1)
        if d[0] == "call" and names.call_is(d[4], *SAME_LEN_CALLS) and d[4]["args"]:
            return self.root(d[4]["args"][0], depth + 1)
        return (l,)

    @staticmethod
    def rel_add(st, kind, a, b):
        """record a < b ('lt') or a <= b ('le'), with one step of transitive closure"""
        if a is None or b is None or a == b:
            return
        rel = set(st.get(("rel",), frozenset()))
        new = {(kind, a, b)}
        for k2, x, y in list(rel):
            if x == b:
                new.add(("lt" if "lt" in (kind, k2) else "le", a, y))
            if y == a:
                new.add(("lt" if "lt" in (kind, k2) else "le", x, b))
        st[("rel",)] = frozenset(rel | new)

    @staticmethod
    def rel_holds(st, kind, a, b):
        rel = st.get(("rel",), frozenset())
        if a is None or b is None:
            return False
        if a == b:
            return kind == "le"
        if ("lt", a, b) in rel:
            return True
        return kind == "le" and ("le", a, b) in rel

    @staticmethod
    def rel_kill(st, local, path=None):
        """forget the relations about a local (and every member of it), or about one member and what is inside it"""
        rel = st.get(("rel",))
        if rel:
            k = ("i", local) + (tuple(str(x) for x in path) if path else ())
            hit = lambda s_: isinstance(s_, tuple) and s_[:len(k)] == k
            st[("rel",)] = frozenset(r for r in rel if not hit(r[1]) and not hit(r[2]))

    # ---------------- transfer
    def _assign(self, st, s):
        l, p = flow.norm_place(s["place"])
        rv = s["rv"]
        k = rv["k"]
        key_i = ("i", l) + tuple(str(x) for x in p)
        key_l = ("l", l) + tuple(str(x) for x in p)
        if p != ():
            self.rel_kill(st, l, p)
        if p == ():
            # whole-local write: forget sub-facts
            for v in [v for v in st if len(v) > 2 and v[0] in ("i", "l") and v[1] == l]:
                del st[v]
            self.rel_kill(st, l)
        if k == "use" or k == "copyforderef":
            if k == "use":
                op = rv["op"]
                st[key_i] = self.iv_operand(st, op)
                if p == ():
                    # a value of unknown provenance still lies in the range of the destination's integer type
                    r = ty_range(self.body.local_ty(l))
                    if r is not None and (st[key_i].lo < r.lo or st[key_i].hi > r.hi):
                        m = st[key_i].meet(r)
                        st[key_i] = r if m.empty() else m
                st[key_l] = self.len_operand(st, op)
                pl = flow.op_place(op)
                if pl and (pl[1] == ("0",) or pl[1] == (("v", "Some"), "0")) and p == ():
                    so = st.get(("i", pl[0], "subof"))
                    if isinstance(so, tuple) and so[0] is not None:
                        self.rel_add(st, "lt" if so[1] else "le", ("i", l), so[0])
                        if st[key_i].lo < 0:
                            st[key_i] = Iv(0, st[key_i].hi)
                if pl and p == ():
                    # copy sub-facts (tuple results of split_at / WithOverflow)
                    src = ("i", pl[0]) + tuple(str(x) for x in pl[1])
                    for v in list(st):
                        if v[:len(src)] == src and len(v) > len(src):
                            st[key_i + v[len(src):]] = st[v]
                    srcl = ("l", pl[0]) + tuple(str(x) for x in pl[1])
                    for v in list(st):
                        if v[:len(srcl)] == srcl and len(v) > len(srcl):
                            st[key_l + v[len(srcl):]] = st[v]
            else:
                op = {"k": "copy", "place": rv["place"]}
                st[key_i] = self.iv_operand(st, op)
                st[key_l] = self.len_operand(st, op)
        elif k in ("ref", "rawptr"):
            if rv.get("mut", k == "rawptr"):
                # whoever receives the mutable borrow may write the place: what was known about its members is dropped
                bl, bp = flow.norm_place(rv["place"])
                self.rel_kill(st, bl, bp)
            op = {"k": "copy", "place": rv["place"]}
            st[key_l] = self.len_operand(st, op)
            st[key_i] = self.iv_operand(st, op)
        elif k == "cast":
            src = self.iv_operand(st, rv["op"])
            r = ty_range(rv["ty"])
            if r is not None:
                st[key_i] = src.meet(r) if not src.meet(r).empty() and src.lo >= r.lo and src.hi <= r.hi else r
            st[key_l] = self.len_operand(st, rv["op"])
            n = ty_len(rv["ty"])
            if n is not None:
                st[key_l] = Iv(n, n)
        elif k == "binop":
            a = self.iv_operand(st, rv["a"])
            b = self.iv_operand(st, rv["b"])
            op = rv["op"]
            base = op.replace("WithOverflow", "").replace("Unchecked", "")
            res = None
            if base == "Add":
                res = Iv(a.lo + b.lo, a.hi + b.hi)
            elif base == "Sub":
                res = Iv(a.lo - b.hi, a.hi - b.lo)
            elif base == "Mul" and a.lo >= 0 and b.lo >= 0:
                res = Iv(a.lo * b.lo, a.hi * b.hi if INF not in (a.hi, b.hi) else INF)
            elif base == "BitAnd" and b.lo >= 0 and b.hi != INF:
                res = Iv(0, b.hi)
            elif base == "Div" and b.lo > 0 and a.lo >= 0:
                res = Iv(a.lo // b.hi if b.hi != INF else 0, a.hi // b.lo if a.hi != INF else INF)
            elif base == "Rem" and b.lo > 0:
                res = Iv(0, b.hi - 1)
            elif base == "Shr" and a.lo >= 0:
                res = Iv(0, a.hi)
            elif base == "Shl" and a.lo >= 0 and a.hi != INF and b.lo >= 0 and b.hi < 64:
                # bits shifted out only make the value smaller; the type-range clamp below covers wrapping
                res = Iv(0 if b.hi != b.lo else a.lo << b.lo, a.hi << b.hi)
            elif base in ("BitOr", "BitXor") and a.lo >= 0 and b.lo >= 0 and INF not in (a.hi, b.hi):
                res = Iv(max(a.lo, b.lo) if base == "BitOr" else 0, (1 << max(int(a.hi).bit_length(), int(b.hi).bit_length())) - 1)
            if "WithOverflow" in op:
                if res is not None:
                    st[key_i + ("0",)] = res
                st[key_i + ("raw",)] = res if res is not None else Iv(-INF, INF)
                # x = a - b (checked): x <= a, and x < a when b >= 1 ; remembered for the `.0` projection
                if base == "Sub" and b.lo >= 0:
                    st[key_i + ("subof",)] = (self.sym(rv["a"]), b.lo >= 1)
                    ra = self.sym(rv["a"]), self.sym(rv["b"])
                    if self.rel_holds(st, "le", ra[1], ra[0]) and res is not None:
                        lo = 1 if self.rel_holds(st, "lt", ra[1], ra[0]) else 0
                        st[key_i + ("0",)] = Iv(max(res.lo, lo), res.hi)
            elif res is not None:
                r = ty_range(self.body.local_ty(l)) if p == () else None
                st[key_i] = res if r is None or (res.lo >= r.lo and res.hi <= r.hi) else r
            else:
                st.pop(key_i, None)
        elif k == "agg":
            st.pop(key_i, None)
            st.pop(key_l, None)
            ak = rv.get("ak")
            if ak == "array":
                st[key_l] = Iv(len(rv["ops"]), len(rv["ops"]))
            if ak == "adt" and rv["adt"].startswith("core::ops::range::"):
                fields = rv.get("fields", [])
                for f, o in zip(fields, rv["ops"]):
                    st[key_i + (f,)] = self.iv_operand(st, o)
            if ak == "tuple":
                for i, o in enumerate(rv["ops"]):
                    st[key_i + (str(i),)] = self.iv_operand(st, o)
                    st[key_l + (str(i),)] = self.len_operand(st, o)
        elif k == "repeat":
            try:
                n = int(re.sub(r"[^0-9]", "", rv["n"].split("_")[0]))
                st[key_l] = Iv(n, n)
            except Exception:
                st.pop(key_l, None)
        else:
            st.pop(key_i, None)
            st.pop(key_l, None)
        # PtrMetadata / Len
        if k == "unop" and rv["op"] in ("PtrMetadata",):
            st[key_i] = self.len_operand(st, rv["a"])

    def _call(self, st, t):
        l, p = flow.norm_place(t["dest"])
        key_i = ("i", l) + tuple(str(x) for x in p)
        key_l = ("l", l) + tuple(str(x) for x in p)
        for v in [v for v in st if len(v) > 1 and v[0] in ("i", "l") and v[1] == l and (len(v) > 2 or p == ())]:
            if p == ():
                del st[v]
        args = t["args"]
        st.pop(key_i, None)
        st.pop(key_l, None)
        if p == ():
            self.rel_kill(st, l)
        if names.call_is(t, *LEN_CALLS):
            st[key_i] = self.len_operand(st, args[0])
            return
        if names.call_is(t, *SAME_LEN_CALLS) and args:
            st[key_l] = self.len_operand(st, args[0])
            st[key_i] = self.iv_operand(st, args[0])
            n = ty_len(self.body.local_ty(l)) if p == () else None
            if n is not None:
                st[key_l] = Iv(n, n)
            return
        if names.call_is(t, "slice::split_at", "slice::split_at_mut", "str::split_at"):
            s = self.len_operand(st, args[0])
            kx = self.iv_operand(st, args[1])
            st[key_l + ("0",)] = Iv(max(kx.lo, 0), kx.hi)
            st[key_l + ("1",)] = Iv(max(s.lo - kx.hi, 0) if kx.hi != INF else 0, s.hi - kx.lo if s.hi != INF else LEN_MAX)
            return
        if names.call_is(t, "Index::index", "IndexMut::index_mut") and len(args) == 2:
            s = self.len_operand(st, args[0])
            r = self.range_of(st, args[1])
            if r is not None:
                kind, a, b = r
                if kind == "range":
                    st[key_l] = Iv(max(b.lo - a.hi, 0), max(b.hi - a.lo, 0))
                elif kind == "to":
                    st[key_l] = Iv(max(b.lo, 0), b.hi)
                elif kind == "from":
                    st[key_l] = Iv(max(s.lo - a.hi, 0) if a.hi != INF else 0, s.hi - a.lo if s.hi != INF else LEN_MAX)
                elif kind == "full":
                    st[key_l] = s
            return
        if names.call_is(t, "core::cmp::min", "Ord::min", "usize::min", "u32::min", "u16::min", "u8::min") and len(args) == 2:
            a, b = self.iv_operand(st, args[0]), self.iv_operand(st, args[1])
            st[key_i] = Iv(min(a.lo, b.lo), min(a.hi, b.hi))
            # min(x, y) <= x and <= y: kept as relations between the result and each argument's symbol (a length, a local)
            if len(key_i) == 2:
                self.rel_kill(st, key_i[1])
                for x_ in args:
                    sx = self.sym(x_)
                    if sx is not None and sx != key_i:
                        self.rel_add(st, "le", key_i, sx)
            return
        if names.call_is(t, "core::cmp::max", "Ord::max") and len(args) == 2:
            a, b = self.iv_operand(st, args[0]), self.iv_operand(st, args[1])
            st[key_i] = Iv(max(a.lo, b.lo), max(a.hi, b.hi))
            return
        if names.call_is(t, "Option::map_or") and len(args) == 3 and getattr(self, "_depth", 0) < 2:
            # `opt.map_or(d, |x| f(x))`: d, or what the closure returns (its body analysed with an unconstrained argument)
            pl_ = flow.op_place(args[2])
            d_ = self.du.single_def(pl_[0]) if pl_ and pl_[1] == () else None
            cdef = d_[4].get("def") if d_ and d_[0] == "assign" and d_[4]["k"] == "agg" and d_[4].get("ak") == "closure" else None
            cb_ = self.p.bodies.get(cdef) if cdef else None
            if cb_ is not None:
                civ = Intervals(self.p, cb_)
                civ._depth = getattr(self, "_depth", 0) + 1
                rets = [civ.at(rb, "t") for rb in cb_.return_blocks()]
                rets = [r_.get(("i", 0)) for r_ in rets if r_ is not None]
                if rets and all(r_ is not None for r_ in rets):
                    out_ = self.iv_operand(st, args[1])
                    for r_ in rets:
                        out_ = out_.join(r_)
                    st[key_i] = out_
                    return
        if names.call_is(t, "Ord::clamp", "u8::clamp", "u16::clamp", "u32::clamp", "usize::clamp") and len(args) == 3:
            # clamp(v, lo, hi) = min(max(v, lo), hi)  (it panics when lo > hi: no value then)
            v, a, b = (self.iv_operand(st, x) for x in args)
            st[key_i] = Iv(min(max(v.lo, a.lo), b.lo), min(max(v.hi, a.hi), b.hi))
            return
        if names.call_is(t, "usize::saturating_sub", "u32::saturating_sub", "u16::saturating_sub", "u8::saturating_sub") and len(args) == 2:
            a, b = self.iv_operand(st, args[0]), self.iv_operand(st, args[1])
            st[key_i] = Iv(max(a.lo - b.hi, 0) if b.hi != INF else 0, max(a.hi - b.lo, 0) if a.hi != INF else INF)
            return
        c = t.get("callee") or ""
        if re.match(r"core::num::<impl (u8|u16|u32|u64|usize)>::checked_sub$", c) and len(args) == 2:
            # Some(a - b) exactly when b <= a: the payload is at most a, and below a when b >= 1
            a, b = self.iv_operand(st, args[0]), self.iv_operand(st, args[1])
            kp = key_i + (str(("v", "Some")), "0")
            st[kp] = Iv(max(a.lo - b.hi, 0) if b.hi != INF else 0, max(a.hi - b.lo, 0) if a.hi != INF else INF)
            st[key_i + ("subof",)] = (self.sym(args[0]), b.lo >= 1)
            return
        m = re.match(r"core::num::<impl (u8|u16|u32|u64|usize)>::(from_be_bytes|from_le_bytes|from_ne_bytes)$", c)
        if m:
            st[key_i] = ty_range(m.group(1))
            return
        if p == ():
            r = ty_range(self.body.local_ty(l))
            if r is not None:
                st[key_i] = r
            n = ty_len(self.body.local_ty(l))
            if n is not None:
                st[key_l] = Iv(n, n)

    def range_of(self, st, op):
        """('range'|'to'|'from'|'full', start_iv, end_iv) of a range operand"""
        ty = None
        pl = flow.op_place(op)
        if op["k"] == "const":
            ty = op.get("ty", "")
            if "RangeFull" in ty:
                return ("full", None, None)
            return None
        if pl is None:
            return None
        l, p = pl
        ty = self.body.local_ty(l)
        base = ("i", l) + tuple(str(x) for x in p)
        if "RangeFull" in ty:
            return ("full", None, None)
        if "RangeInclusive" in ty or "RangeToInclusive" in ty:
            return None
        if "RangeTo<" in ty:
            return ("to", None, st.get(base + ("end",), Iv(0, INF)))
        if "RangeFrom<" in ty:
            return ("from", st.get(base + ("start",), Iv(0, INF)), None)
        if "Range<" in ty:
            return ("range", st.get(base + ("start",), Iv(0, INF)), st.get(base + ("end",), Iv(0, INF)))
        return None

    # ---------------- branch refinement
    def _refine(self, st, local, truth):
        """assume bool `local` == truth"""
        seen = 0
        while local in self.not_defs and seen < 8:
            local = self.not_defs[local]
            truth = not truth
            seen += 1
        while ("copy", local) in self.not_defs and seen < 8:
            local = self.not_defs[("copy", local)]
            seen += 1
        if local not in self.cmp_defs:
            # `a.ends_with(b)` / `starts_with` / `strip_*` … holding: b is not longer than a
            d = self.du.single_def(local)
            if truth and d is not None and d[0] == "call" and names.call_is(d[4], "str::ends_with", "str::starts_with", "str::contains", "slice::ends_with", "slice::starts_with") and len(d[4]["args"]) == 2:
                ra, rb = self.root(d[4]["args"][0]), self.root(d[4]["args"][1])
                if ra and rb and flow.op_place(d[4]["args"][1]) is not None and "char" not in (self.body.local_ty(flow.op_place(d[4]["args"][1])[0]) or "char"):
                    st = st.copy()
                    self.rel_add(st, "le", ("l",) + rb, ("l",) + ra)
            return st
        op, a, b = self.cmp_defs[local]
        if not truth:
            op = {"Lt": "Ge", "Le": "Gt", "Gt": "Le", "Ge": "Lt", "Eq": "Ne", "Ne": "Eq"}[op]
        ia, ib = self.iv_operand(st, a), self.iv_operand(st, b)
        na, nb = ia, ib
        if op == "Lt":
            na, nb = Iv(ia.lo, min(ia.hi, ib.hi - 1)), Iv(max(ib.lo, ia.lo + 1), ib.hi)
        elif op == "Le":
            na, nb = Iv(ia.lo, min(ia.hi, ib.hi)), Iv(max(ib.lo, ia.lo), ib.hi)
        elif op == "Gt":
            na, nb = Iv(max(ia.lo, ib.lo + 1), ia.hi), Iv(ib.lo, min(ib.hi, ia.hi - 1))
        elif op == "Ge":
            na, nb = Iv(max(ia.lo, ib.lo), ia.hi), Iv(ib.lo, min(ib.hi, ia.hi))
        elif op == "Eq":
            m = ia.meet(ib)
            na = nb = m
        elif op == "Ne":
            # x != c with c the bound of x's range: the range shrinks by one
            if ib.exact() is not None and ia.lo == ib.exact() and ia.hi > ia.lo:
                na = Iv(ia.lo + 1, ia.hi)
            elif ib.exact() is not None and ia.hi == ib.exact() and ia.hi > ia.lo:
                na = Iv(ia.lo, ia.hi - 1)
            elif ia.exact() is not None and ib.lo == ia.exact() and ib.hi > ib.lo:
                nb = Iv(ib.lo + 1, ib.hi)
        st = st.copy()
        sa, sb = self.sym(a), self.sym(b)
        if op == "Lt":
            self.rel_add(st, "lt", sa, sb)
        elif op == "Le":
            self.rel_add(st, "le", sa, sb)
        elif op == "Gt":
            self.rel_add(st, "lt", sb, sa)
        elif op == "Ge":
            self.rel_add(st, "le", sb, sa)
        for o, n in ((a, na), (b, nb)):
            pl = flow.op_place(o)
            if pl and pl[1] == ():
                st[("i", pl[0])] = n
                self._propagate_len_alias(st, pl[0], n)
                # the compared temporary is a plain copy of another local that is not reassigned: what is learnt about the
                # copy is learnt about the original (`if value > MAX` compares a copy of `value`)
                cur, hops = pl[0], 0
                while hops < 4:
                    d = self.du.single_def(cur)
                    if not (d and d[0] == "assign" and d[4]["k"] == "use" and d[4]["op"]["k"] in ("copy", "move")):
                        break
                    q = flow.op_place(d[4]["op"])
                    rawp = d[4]["op"]["place"]
                    if q and (q[1] != () or any(e["k"] == "deref" for e in rawp["p"])):
                        # a copy of a member (`(opt as Some).0`), possibly read through a reference to it: the member itself is
                        # what was compared, as long as its owner is assigned only once
                        owner, path = q
                        if rawp["p"] and rawp["p"][0]["k"] == "deref" and len(rawp["p"]) == 1:
                            rd_ = self.du.single_def(rawp["l"])
                            if rd_ and rd_[0] == "assign" and rd_[4]["k"] == "ref":
                                owner, path = flow.norm_place(rd_[4]["place"])
                            else:
                                break
                        if path and len(self.du.defs.get(owner, [])) == 1:
                            key = ("i", owner) + tuple(str(x) for x in path)
                            prev = st.get(key)
                            st[key] = n if prev is None or prev.meet(n).empty() else prev.meet(n)
                        break
                    nd = len(self.du.defs.get(q[0], [])) if q else 0
                    if not q or q[1] != () or not ((q[0] <= self.body.arg_count and nd == 0) or nd == 1):
                        break
                    prev = st.get(("i", q[0]), self.local_default(q[0], "i"))
                    m = prev.meet(n)
                    if not m.empty():
                        st[("i", q[0])] = m
                    cur = q[0]
                    hops += 1
        return st

    def _chunk_presence(self, st, discr_local, value):
        """`s.first_chunk::<N>()` / `split_first_chunk::<N>()` is Some exactly when len(s) >= N: refine the length on the edge
        of the discriminant test"""
        d = self.du.single_def(discr_local)
        if not (d and d[0] == "assign" and d[4]["k"] == "discr"):
            return
        ol, op_ = flow.norm_place(d[4]["place"])
        if op_ != ():
            return
        dc = self.du.single_def(ol)
        if dc and dc[0] == "call" and names.call_is(dc[4], "Try::branch") and dc[4]["args"]:
            # `s.first_chunk::<N>()?`: Continue (0) exactly when the chunk is there
            pl_ = flow.op_place(dc[4]["args"][0])
            dc = self.du.single_def(pl_[0]) if pl_ and pl_[1] == () else None
            for _ in range(4):
                if dc and dc[0] == "assign" and dc[4]["k"] == "use" and flow.op_place(dc[4]["op"]) and flow.op_place(dc[4]["op"])[1] == ():
                    dc = self.du.single_def(flow.op_place(dc[4]["op"])[0])
            value = 1 if value == 0 else 0
        if not (dc and dc[0] == "call" and names.call_is(dc[4], "slice::first_chunk", "slice::split_first_chunk", "slice::last_chunk", "slice::split_last_chunk")):
            return
        ga = [g.strip() for g in (dc[4].get("gargs") or [])]
        if not ga or not ga[-1].isdigit():
            return
        n = int(ga[-1])
        r = self.root(dc[4]["args"][0])
        if not r:
            return
        key = ("l",) + r
        cur = st.get(key, Iv(0, LEN_MAX))
        m = cur.meet(Iv(n, LEN_MAX)) if value == 1 else cur.meet(Iv(0, n - 1))
        if not m.empty():
            st[key] = m

    def _propagate_len_alias(self, st, int_local, iv):
        """if int_local was computed as the length of slice locals, refine those lengths"""
        d = self.du.single_def(int_local)
        if d is None:
            return
        src = None
        if d[0] == "assign":
            rv = d[4]
            if rv["k"] == "unop" and rv["op"] == "PtrMetadata":
                src = rv["a"]
            elif rv["k"] == "use":
                pl = flow.op_place(rv["op"])
                if pl and pl[1] == ():
                    self._propagate_len_alias(st, pl[0], iv)
                return
        elif d[0] == "call" and names.call_is(d[4], *LEN_CALLS):
            src = d[4]["args"][0]
        if src is None:
            return
        # refine every alias of the slice along the copy / deref chain
        seen = set()
        work = [src]
        while work:
            o = work.pop()
            pl = flow.op_place(o)
            if not pl or pl in seen:
                continue
            seen.add(pl)
            l, p = pl
            key = ("l", l) + tuple(str(x) for x in p)
            cur = st.get(key, self.local_default(l, "l") if p == () else Iv(0, LEN_MAX))
            m = cur.meet(Iv(max(iv.lo, 0), iv.hi))
            st[key] = m if not m.empty() else cur
            if p == ():
                dd = self.du.single_def(l)
                if dd and dd[0] == "assign" and dd[4]["k"] in ("use", "ref", "copyforderef", "cast"):
                    rv = dd[4]
                    work.append(rv["op"] if "op" in rv else {"k": "copy", "place": rv["place"]})
                elif dd and dd[0] == "call" and names.call_is(dd[4], *SAME_LEN_CALLS) and dd[4]["args"]:
                    work.append(dd[4]["args"][0])

    # ---------------- fixpoint
    def _transfer_block(self, bb, st, upto=None):
        blk = self.body.blocks[bb]
        for i, s in enumerate(blk["stmts"]):
            if upto is not None and upto != "t" and i >= upto:
                return st
            if s["k"] == "assign":
                self._assign(st, s)
        return st

    def _solve(self):
        body = self.body
        nb = len(body.blocks)
        entry = {0: State(self.init or {})}
        visits = {}
        work = deque([0])
        while work:
            b = work.popleft()
            visits[b] = visits.get(b, 0) + 1
            if visits[b] > 40:
                continue
            st = self._transfer_block(b, entry[b].copy())
            t = body.term(b)
            outs = []
            if t is None:
                continue
            if t["k"] == "call":
                st2 = st.copy()
                self._call(st2, t)
                if t.get("t") is not None:
                    outs.append((t["t"], st2))
            elif t["k"] == "switch":
                pl = flow.op_place(t["op"])
                for lab, sc in body.succ_edges(b):
                    st2 = st
                    if pl and pl[1] == () and self.body.local_ty(pl[0]) == "bool":
                        if lab == "0":
                            st2 = self._refine(st, pl[0], False)
                        elif lab in ("otherwise", "1"):
                            st2 = self._refine(st, pl[0], True)
                    elif pl and pl[1] == () and lab not in ("otherwise",):
                        try:
                            v = int(lab)
                            st2 = st.copy()
                            st2[("i", pl[0])] = Iv(v, v)
                            self._propagate_len_alias(st2, pl[0], Iv(v, v))
                            self._chunk_presence(st2, pl[0], v)
                        except ValueError:
                            pass
                    outs.append((sc, st2))
            elif t["k"] == "assert":
                # after a passing assert the condition holds
                st2 = st
                pl = flow.op_place(t["cond"])
                if pl and pl[1] == () and self.body.local_ty(pl[0]) == "bool":
                    st2 = self._refine(st, pl[0], bool(t["expected"]))
                outs.append((t["t"], st2))
            else:
                for lab, sc in body.succ_edges(b):
                    outs.append((sc, st))
            for sc, s2 in outs:
                if body.blocks[sc]["cleanup"]:
                    continue
                if sc not in entry:
                    entry[sc] = s2.copy()
                    work.append(sc)
                else:
                    old = entry[sc]
                    new = State()
                    changed = False
                    for v in old:
                        if v == ("rel",):
                            j = old[v] & s2.get(v, frozenset())
                            new[v] = j
                            if j != old[v]:
                                changed = True
                            continue
                        if not isinstance(old[v], Iv):
                            if s2.get(v) == old[v]:
                                new[v] = old[v]
                            else:
                                changed = True
                            continue
                        if v in s2:
                            j = old[v].join(s2[v])
                            if visits.get(sc, 0) > self.passes and j != old[v]:
                                # widen
                                j = Iv(j.lo if j.lo == old[v].lo else (0 if v[0] == "l" or j.lo >= 0 else -INF), j.hi if j.hi == old[v].hi else INF)
                            new[v] = j
                            if j != old[v]:
                                changed = True
                        else:
                            changed = True
                    if changed or len(new) != len(old):
                        entry[sc] = new
                        work.append(sc)
        self.entry = entry

    def at(self, bb, idx="t"):
        """abstract state just before statement idx / the terminator of bb"""
        if bb not in self.entry:
            return None
        return self._transfer_block(bb, self.entry[bb].copy(), upto=idx)
