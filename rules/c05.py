"""C05 — credentials are used only for their own RP and as the allow/exclude lists say.

R1 lookup arguments : at both CredentialStore::find_credentials call sites of the ceremonies the `ids` argument is the
                      request's allow list filtered for non-emptiness / the exclude list, and `rp_id` is the request's RP id
                      (value terms over reaching definitions; nothing else may flow in).
R2 first result     : the credential that is used is `into_iter().next()` / first element of the lookup result; no reordering
                      or last/extremum adaptor occurs in the ceremony.
R3 exclusion        : Err(CredentialExcluded) is built exactly under (non-empty exclude list) ∧ (lookup Ok) ∧ (result not
                      empty) — read off the MIR decision tree — and no key generation or save is reachable from it.
R5 ids matched exactly: in the shipped leaf stores everything that consumes a descriptor's id is an equality test against a
                      stored credential id, or a keyed map lookup (an id that is merely similar must not select a credential).
R4 store contract   : for every `impl CredentialStore` in the workspace: wrappers forward `ids` and `rp_id` unchanged to the
                      inner store; leaf stores must *use* `rp_id` in a comparison against a stored credential's rp_id.
"""
import re

from . import core, flow, names, normal
from .framework import where, short, api_name
from .common import AUTH, ceremony, find_aggs, upvar_names, is_upvar_field, forward_taint, place_reads, term_reads, place_has_field

REORDER = ("Iterator::rev", "Iterator::last", "Iterator::max", "Iterator::min", "Iterator::max_by", "Iterator::min_by",
           "Iterator::max_by_key", "Iterator::min_by_key", "Iterator::nth", "Iterator::skip", "Iterator::rfind", "Iterator::rposition",
           "Vec::pop", "Vec::swap_remove", "Vec::remove", "DoubleEndedIterator::next_back", "DoubleEndedIterator::rfind",
           "DoubleEndedIterator::nth_back", "slice::last", "slice::reverse", "slice::sort", "slice::sort_by", "slice::sort_by_key",
           "slice::sort_unstable", "slice::sort_unstable_by", "slice::sort_unstable_by_key", "Iterator::step_by", "Iterator::skip_while")


def closure_ret(p, defpath):
    cb = p.bodies.get(defpath)
    if cb is None:
        return None, None
    T = flow.Terms(p, cb)
    rets = cb.return_blocks()
    if len(rets) != 1:
        return cb, None
    return cb, flow.simplify_term(T.place(0, (), rets[0], "t"))


def is_nonempty_pred(term):
    """Not(is_empty(param_2))"""
    return (isinstance(term, tuple) and term[0] == "unop" and term[1] == "Not" and term[2][0] == "call"
            and term[2][1].endswith("is_empty") and term[2][2] and term[2][2][0] == ("param", 2))


def is_empty_pred(term):
    return isinstance(term, tuple) and term[0] == "call" and term[1].endswith("is_empty") and term[2] and term[2][0] == ("param", 2)


def tidy(self_ty):
    return re.sub(r"\b[a-z_0-9]+::", "", self_ty)


def run(chk):
    p = core.load_program("all")
    chk.configs = ["all-features"]
    chk.explanation = __doc__
    from . import summary
    N = normal.Normalizer(p, summary.Summaries(p))

    ga = ceremony(p, "get_assertion")
    mc = ceremony(p, "make_credential")
    if not chk.require("R1 lookup arguments", "R1|ceremonies", ga is not None and mc is not None, AUTH, "ceremony bodies not found"):
        return
    chk.touched(ga)
    chk.touched(mc)

    # ---------------- R1
    for co, nm, want_ids, want_rp in ((ga, "get_assertion", ("allow_list",), ("rp_id",)), (mc, "make_credential", ("exclude_list",), ("rp", "id"))):
        T = flow.Terms(p, co)
        uv = upvar_names(p, co)
        req = [i for i, n in uv.items() if n == "input"]
        req_i = req[0] if req else 1
        sites = names.calls_to(co, "CredentialStore::find_credentials")
        chk.require("R1 lookup arguments", "R1|%s|site" % nm, len(sites) == 1, where(co), "expected exactly one find_credentials call in %s, found %d" % (nm, len(sites)))
        for bb, t in sites:
            ids = flow.simplify_term(T.operand(t["args"][1], bb, "t"))
            rp = flow.simplify_term(T.operand(t["args"][2], bb, "t"))
            ok_rp = is_upvar_field(rp, req_i, *want_rp)
            chk.ob("R1 lookup arguments", "R1|%s|rp_id" % nm, ok_rp, where(co, bb), "rp_id argument = %s (expected request.%s)" % (flow.term_str(rp), ".".join(want_rp)))
            # ids: the request list itself, or (normal form of filter / match / if) the list exactly when it is non-empty
            idsn = N.inline(ids)
            wit = "ids argument = %s" % flow.term_str(idsn)[:260]
            is_list = lambda x: is_upvar_field(x, req_i, *want_ids)
            filtered = False
            if is_list(idsn):
                ok_ids = True
            else:
                ok_ids = True
                n_some = 0
                # tests on the path to the call count like tests inside the value (`match list { Some(l) if !l.is_empty() => f(Some(l)) }`)
                site_cs = [(t2, l2) for sb2, l2, t2 in (normal.conditions(N, p, co, bb, T) or [])]
                for cs0, v in normal.cases_deep(idsn):
                    cs = cs0 + site_cs
                    if v == normal.NONE:
                        continue
                    # an Option has two variants: a branch for "neither" cannot be taken
                    if any(isinstance(t, tuple) and t[:1] == ("discr",) and (len(t) < 3 or t[2] == "Option") and not flow.lab_holds(l, "0") and not flow.lab_holds(l, "1") for t, l in cs):
                        continue
                    if is_list(v) and any(flow.asserts_ok(t, l, is_list) for t, l in cs):
                        # the list itself, on a branch where it is present: Some(its content)
                        v = normal.some(("payload", v))
                    if not (isinstance(v, tuple) and v[:3] == ("agg", "core::option::Option", "Some") and flow.is_payload_of(dict(v[3])["0"], is_list)):
                        ok_ids = False
                        continue
                    n_some += 1
                    present = any(flow.asserts_ok(t, l, is_list) for t, l in cs)
                    nonempty = any((flow.emptiness_test(t, l) or (None, None))[1] is False and flow.is_payload_of(flow.emptiness_test(t, l)[0], is_list) for t, l in cs)
                    filtered = filtered or nonempty
                    ok_ids = ok_ids and present and all(flow.asserts_ok(t, l, is_list) or ((flow.emptiness_test(t, l) or (None, None))[1] is False) for t, l in cs0)
                ok_ids = ok_ids and n_some >= 1
            if nm == "get_assertion":
                # an empty allow list must mean "no list": the non-emptiness filter is required
                ok_ids = ok_ids and filtered
            chk.ob("R1 lookup arguments", "R1|%s|ids" % nm, ok_ids, where(co, bb), wit)

    # ---------------- R2
    allb = p.nested_of(ga)
    bad = []
    for b in allb:
        for bb, t in b.calls():
            if names.call_is(t, *REORDER):
                bad.append((b, bb, core.callee_of(t)))
    chk.ob("R2 first result", "R2|get_assertion|no-reordering", not bad, where(bad[0][0], bad[0][1]) if bad else where(ga),
           "reordering/last-element adaptors in the ceremony: %s" % ([short(x[2]) for x in bad] or "none"))
    # how the element is selected: follow the signing key back to the lookup result, in normal form (helpers and closures
    # looked through): everything that consumes the lookup's list must take its first element
    T = flow.Terms(p, ga)
    is_lookup = lambda x: isinstance(x, tuple) and len(x) == 4 and x[0] == "await" and names.is_(x[1], "CredentialStore::find_credentials")
    signs = names.calls_to(ga, "SignerMut::sign", "Signer::sign")
    sel_ok = False
    sel_w = "no signature site found"
    if signs:
        key = N.inline(T.operand(signs[0][1]["args"][0], signs[0][0], "t"))
        consumers = set()

        def walk(x):
            if isinstance(x, frozenset):
                for y in x:
                    walk(y)
                return
            if not isinstance(x, tuple) or not x:
                return
            if len(x) == 4 and x[0] in ("call", "await") and isinstance(x[2], tuple):
                for a in x[2]:
                    b = a
                    while isinstance(b, tuple) and len(b) == 4 and b[0] == "call" and b[2] and (names.is_(b[1], "IntoIterator::into_iter") or b[1].endswith("::iter") or b[1].endswith("::into_iter")):
                        b = b[2][0]
                    if flow.is_payload_of(b, is_lookup):
                        consumers.add(x[1])
            for y in x:
                if isinstance(y, (tuple, frozenset)):
                    walk(y)
        walk(key)
        first = {c for c in consumers if names.is_(c, "Iterator::next") or c.endswith("::first") or c.endswith("::first_mut") or c.endswith("::swap_remove") and False}
        sel_ok = bool(consumers) and consumers == first
        sel_w = "the signing key derives from the lookup result through %s" % sorted(short(c) for c in consumers)
    chk.ob("R2 first result", "R2|get_assertion|first-element", sel_ok, where(ga), sel_w)

    # ---------------- R3
    T = flow.Terms(p, mc)
    ex = find_aggs(mc, "Ctap2Error", "CredentialExcluded")
    chk.require("R3 exclusion", "R3|site", len(ex) == 1, where(mc), "expected exactly one CredentialExcluded construction, found %d" % len(ex))
    for bb, idx, rv in ex:
        # necessary conditions of the site in normal form (combinator / match / if-let idioms all reduce to the same tests)
        conds = normal.conditions(N, p, mc, bb, T) or []
        c_nonempty = c_ok = c_notempty = False
        is_lookup = lambda x: isinstance(x, tuple) and x and x[0] == "await" and names.is_(x[1], "CredentialStore::find_credentials")
        is_list = lambda x: x == ("field", ("upvar", 1), "exclude_list")
        for sb, labs, term in conds:
            e = flow.emptiness_test(term, labs)
            if e is not None and e[1] is False and flow.is_payload_of(e[0], is_list):
                c_nonempty = True
            if flow.asserts_ok(term, labs, is_lookup):
                c_ok = True
            if e is not None and e[1] is False and flow.is_payload_of(e[0], is_lookup):
                c_notempty = True
        site = where(mc, line=mc.blocks[bb]["stmts"][idx]["line"])
        cs = "; ".join(flow.cond_str(c) for c in conds[-4:])
        chk.ob("R3 exclusion", "R3|non-empty-list", c_nonempty, site, "necessary conditions of the CredentialExcluded return: " + cs)
        chk.ob("R3 exclusion", "R3|lookup-ok", c_ok, site, "lookup result must be Ok: %s" % c_ok)
        chk.ob("R3 exclusion", "R3|result-not-empty", c_notempty, site, "is_empty(result) == false edge: %s" % c_notempty)
        # "exactly when": nothing but the option check and the consent step can refuse the request before the exclusion is
        # decided — every other test that must pass on the way to the CredentialExcluded return and whose failure ends the
        # ceremony with an error would answer an excluded request with that other error
        outs_ = [s_ for s_ in flow.outcome_sites(mc) if s_["path"] == ()]
        early = []
        for sb, labs, term in flow.conditions(p, mc, bb, T):
            tn = N.norm(term)
            if flow.term_contains(tn, lambda x: x == ("field", ("field", ("upvar", 1), "options"), "up")):
                continue
            if flow.term_contains(tn, lambda x: isinstance(x, tuple) and x and x[0] == "await" and (names.is_(x[1], "Authenticator::check_user") or names.is_(x[1], "UserValidationMethod::check_user"))):
                continue
            if flow.term_contains(tn, is_lookup) or flow.term_contains(tn, is_list):
                continue
            taken = [sc for sc in mc.succs(sb) if flow.edge_label(mc, sb, sc) == labs]
            for sc in set(mc.succs(sb)) - set(taken):
                if mc.blocks[sc]["cleanup"]:
                    continue
                reach = mc.reachable([sc], follow_yield_drop=False) | {sc}
                kinds = {s_["kind"] for s_ in outs_ if s_["bb"] in reach}
                if kinds and "Ok" not in kinds and (kinds & {"Err", "residual", "call"}):
                    early.append("%s (at %s)" % (flow.term_str(tn)[:90], where(mc, sb)))
        chk.ob("R3 exclusion", "R3|nothing-but-consent-refuses-before-exclusion", not early, site,
               ("a request that names a held credential is refused with another error first: failing test(s) before the exclusion decision: %s" % "; ".join(early[:3])) if early else "on the way to the CredentialExcluded return only the `up` option and the consent step can fail")
        # nothing is created after the exclusion decision
        after = mc.reachable(bb)
        eff = [b2 for b2, t in mc.calls() if b2 in after and names.call_is(t, "CredentialStore::save_credential", "SecretKey::random", "rand::random_vec", "random_vec")]
        chk.ob("R3 exclusion", "R3|creates-nothing", not eff, site, "effects reachable after CredentialExcluded: %s" % [core.callee_of(mc.term(x)) for x in eff])
    # the exclusion lookup precedes key generation and save on every path with a non-empty list
    fc = names.calls_to(mc, "CredentialStore::find_credentials")
    gens = [b2 for b2, t in mc.calls() if names.call_is(t, "SecretKey::random", "CredentialStore::save_credential")]
    if fc and gens:
        fb = fc[0][0]
        # switch that guards the lookup (non-empty list): its false edge bypasses legitimately
        ok = True
        for g in gens:
            if fb in mc.reachable(g):
                ok = False
        chk.ob("R3 exclusion", "R3|lookup-before-creation", ok, where(mc, fb), "find_credentials is never reachable after key generation/save: %s" % ok)

    # ---------------- R4
    strait = [t for t in p.traits.values() if t["path"].startswith("passkey_authenticator::") and t["path"].endswith("::CredentialStore")]
    if not chk.require("R4 store contract", "R4|trait", len(strait) == 1, "passkey_authenticator", "trait CredentialStore not found"):
        return
    tpath = strait[0]["path"]
    impls = p.impls_of(trait=tpath)
    n_impl = 0
    for im in impls:
        n_impl += 1
        st = tidy(im["self_ty"])
        fb = [b for b in p.bodies.values() if b.path == b.root and b.j.get("root_item", {}).get("impl", {}).get("def") == im["def"] and b.path.endswith("::find_credentials")]
        if not chk.require("R4 store contract", "R4|%s|find_credentials" % st, len(fb) == 1, im["def"], "find_credentials body missing"):
            continue
        fnb = fb[0]
        co = p.async_body(fnb)
        if not chk.require("R4 store contract", "R4|%s|async" % st, co, where(fnb), "async body missing"):
            continue
        chk.touched(co)
        # parameter positions (async_trait captures the fn parameters in order)
        params = {fnb.local_name(i) or "_%d" % i: i - 1 for i in range(1, fnb.arg_count + 1)}
        # trait signature: (self, ids, rp_id) -> indices 0,1,2
        inner = names.calls_to(co, "CredentialStore::find_credentials")
        T = flow.Terms(p, co)
        if inner:
            for bb, t in inner:
                ids = flow.simplify_term(T.operand(t["args"][1], bb, "t"))
                rp = flow.simplify_term(T.operand(t["args"][2], bb, "t"))
                chk.ob("R4 store contract", "R4|%s|forwards-ids" % st, ids == ("upvar", 1), where(co, bb), "delegating store passes ids = %s" % flow.term_str(ids))
                chk.ob("R4 store contract", "R4|%s|forwards-rp_id" % st, rp == ("upvar", 2), where(co, bb), "delegating store passes rp_id = %s" % flow.term_str(rp))
        else:
            # leaf store: rp_id (upvar 2) must reach a comparison with a Passkey.rp_id
            seeds = set()
            for bb, s in co.stmts():
                if s["k"] == "assign":
                    for pj in place_reads(s["rv"]):
                        l, pth = flow.norm_place(pj)
                        if l == 1 and pth[:1] == ("2",):
                            seeds.add(s["place"]["l"])
            used = False
            wit = "parameter rp_id is never read" if not seeds else ""
            bodies = [co] + [b for b in p.nested_of(co) if b is not co]
            # taint in the coroutine, then into closures through captured operands
            tainted = forward_taint(co, seeds) if seeds else set()
            cmp_sites = []
            for b in bodies:
                if b is co:
                    tb = tainted
                else:
                    # closure captures: which upvars are tainted?
                    tb = set()
                    for bb2, s in co.stmts():
                        if s["k"] == "assign" and s["rv"]["k"] == "agg" and s["rv"].get("def") == b.path:
                            for i, o in enumerate(s["rv"]["ops"]):
                                pl = flow.op_place(o)
                                if pl and pl[0] in tainted:
                                    # closure local reading _1.<i>
                                    for bb3, s3 in b.stmts():
                                        if s3["k"] == "assign":
                                            for pj in place_reads(s3["rv"]):
                                                l, pth = flow.norm_place(pj)
                                                if l == 1 and pth[:1] == (str(i),):
                                                    tb.add(s3["place"]["l"])
                    tb = forward_taint(b, tb) if tb else set()
                for bb2, t in b.calls():
                    if names.call_is(t, "PartialEq::eq", "PartialEq::ne"):
                        pls = [flow.op_place(a) for a in t["args"]]
                        if any(pl and pl[0] in tb for pl in pls):
                            cmp_sites.append((b, bb2))
            # is one of the compared values a Passkey.rp_id?
            for b, bb2 in cmp_sites:
                rp_seeds = set()
                for bb3, s3 in b.stmts():
                    if s3["k"] == "assign" and any(place_has_field(pj, "Passkey", "rp_id") for pj in place_reads(s3["rv"])):
                        rp_seeds.add(s3["place"]["l"])
                t = b.term(bb2)
                tt = forward_taint(b, rp_seeds) | rp_seeds
                if any((flow.op_place(a) or (None,))[0] in tt for a in t["args"]):
                    used = True
                    wit = "rp_id is compared with Passkey.rp_id at %s" % where(b, bb2)
            if not used and not wit:
                wit = "rp_id is read but never compared with a stored credential's rp_id"
            chk.ob("R4 store contract", "R4|%s|uses-rp_id" % st, used, where(co),
                   wit + " — a credential of another RP is returned when its id is listed (or, with no ids, any stored credential)")
            # R5: the listed ids select stored credentials by *equality* of the whole id: everything that consumes a
            # descriptor's `id` is an equality test against a stored credential_id or a keyed map lookup
            is_desc_id = lambda x: isinstance(x, tuple) and len(x) == 3 and x[0] == "field" and x[2] == "id"
            strip = ("Deref::deref", "AsRef::as_ref", "Vec::as_slice", "Bytes::as_slice", "slice::as_ref", "Borrow::borrow")

            def core_of(x):
                while isinstance(x, tuple) and len(x) == 4 and x[0] == "call" and x[2] and any(names.is_(x[1], s) for s in strip):
                    x = x[2][0]
                return x
            good, other = [], []
            for b in p.nested_of(co):
                Tb = flow.Terms(p, b)
                for bb2, t2 in b.calls():
                    cal = core.callee_of(t2)
                    if any(names.is_(cal, s) for s in strip) or names.is_(cal, "Clone::clone"):
                        continue
                    args = [core_of(N.inline(Tb.operand(a, bb2, "t"))) for a in t2["args"]]
                    if not any(is_desc_id(a) for a in args):
                        continue
                    if names.call_is(t2, "HashMap::get", "HashMap::get_mut", "HashMap::contains_key", "HashMap::get_key_value", "BTreeMap::get", "BTreeMap::contains_key"):
                        good.append(short(cal))
                    elif names.call_is(t2, "PartialEq::eq", "PartialEq::ne") and len(args) == 2 and any(isinstance(a, tuple) and len(a) == 3 and a[0] == "field" and a[2] == "credential_id" for a in args):
                        good.append(short(cal))
                    else:
                        other.append("%s at %s" % (short(cal), where(b, bb2)))
            chk.ob("R5 ids matched exactly", "R5|%s|ids-matched-by-equality" % st, bool(good) and not other, where(co),
                   "descriptor ids are consumed by %s%s" % (sorted(set(good)), (" and by " + "; ".join(other) + " — not an equality of whole ids: an id that is merely similar (prefix, different length) selects the credential") if other else ""))
    # R5 (second half): *every* listed id counts — the descriptor list is walked as a whole (iter / into_iter / contains and
    # a searching or filtering consumer), never read through an accessor of one position or a truncating adaptor
    PARTIAL = ("slice::first", "slice::last", "slice::get", "slice::split_first", "slice::split_last", "slice::first_chunk", "slice::last_chunk",
               "Index::index", "slice::get_unchecked", "Iterator::take", "Iterator::nth", "Iterator::skip", "Iterator::step_by", "Iterator::last",
               "Iterator::take_while", "Iterator::skip_while", "DoubleEndedIterator::next_back", "DoubleEndedIterator::nth_back", "Iterator::max_by_key", "Iterator::min_by_key")
    for (adt, trait, name), bodies in sorted(p.methods.items(), key=lambda kv: str(kv[0])):
        if trait != tpath or name != "find_credentials":
            continue
        for fb in bodies:
            co = p.async_body(fb) or fb
            stn = tidy(adt or "?")
            of_desc = lambda t: "PublicKeyCredentialDescriptor" in ((t.get("callee_full") or "") + " " + " ".join(t.get("gargs") or []))
            bad, walks = [], 0
            for b in p.nested_of(co):
                for bb2, t2 in b.calls():
                    if not of_desc(t2):
                        continue
                    if names.call_is(t2, *PARTIAL):
                        bad.append("%s at %s" % (short(core.callee_of(t2)), where(b, bb2)))
                    elif names.call_is(t2, "Iterator::next") and bb2 not in b.reachable(b.succs(bb2)):
                        bad.append("a single Iterator::next outside a loop at %s" % where(b, bb2))
                    elif names.call_is(t2, "slice::iter", "IntoIterator::into_iter", "slice::contains"):
                        walks += 1
            uses_ids = any(of_desc(t2) for b in p.nested_of(co) for bb2, t2 in b.calls())
            if uses_ids:
                chk.ob("R5 ids matched exactly", "R5|%s|every-listed-id-counts" % stn, not bad and walks >= 1, where(co),
                       ("the descriptor list is read through %s — only part of the list is looked at: a credential named further down the allow / exclude list is missed" % "; ".join(bad)) if bad else "the descriptor list is walked as a whole (%d traversal(s)), no positional accessor or truncating adaptor" % walks)
    chk.require("R4 store contract", "R4|impl-count", n_impl >= 2, tpath, "expected >= 2 CredentialStore impls (all-features: 6), found %d" % n_impl)
    chk.floor("R1", 4)
    chk.floor("R2", 2)
    chk.floor("R3", 5)
    chk.floor("R5", 2)
    chk.floor("R4", 10, default=2)  # the four lock wrappers (two methods each) exist only with the `tokio` feature
    chk.assumptions = ["user-written stores implement the documented lookup contract (match by id list and RP ID)",
                       "the first element of the store's result is the store's preferred credential"]
