"""A7 (interprocedural): outcome summaries.

For a function, every site that assigns the return place is an *outcome* with
 - a variant path ('Ok', 'Err', 'Break.Ok', 'Continue', 'Some', 'value', ...),
 - the value term,
 - the conjunction of branch conditions that are necessary to reach it
   (switch operand terms with the edge labels taken).
Conditions on / values forwarded from calls to workspace functions (and awaited workspace
async fns) are expanded with the callee's own outcomes, parameters substituted by the
caller's argument terms, so that rules can be stated at public entry points and do not
depend on how the code is split into private helpers.
"""
from . import flow, names

STD_VARIANTS = {
    "ControlFlow": ["Continue", "Break"],
    "Result": ["Ok", "Err"],
    "Option": ["None", "Some"],
    "Poll": ["Ready", "Pending"],
}


class Outcome:
    def __init__(self, variant, value, conds, site, fn):
        self.variant = variant  # tuple of variant names from the outside in
        self.value = value
        self.conds = list(conds)  # [(term, labels, fn_path, where)]
        self.site = site  # (body, bb, line)
        self.fn = fn

    def vstr(self):
        return ".".join(self.variant) if self.variant else "value"

    def cond_strs(self):
        return ["%s %s" % (flow.term_str(t), flow.lab_str(l)) for t, l, f, w in self.conds]


def variant_path(term):
    """('agg', Result, Ok, (('0', agg ...),)) -> ('Ok', ...)"""
    out = []
    while isinstance(term, tuple) and term and term[0] == "agg" and term[1].rsplit("::", 1)[-1] in STD_VARIANTS:
        out.append(term[2])
        d = dict(term[3])
        if "0" in d:
            term = d["0"]
        else:
            break
    return tuple(out), term


def subst(term, params, upvars=None):
    """replace ('param', i) by params[i-1] and ('upvar', i) by upvars[i]"""
    if not isinstance(term, tuple):
        if isinstance(term, frozenset):
            return frozenset(subst(x, params, upvars) for x in term)
        return term
    if term and term[0] == "param" and len(term) == 2:
        i = term[1]
        if 1 <= i <= len(params):
            return params[i - 1]
        return term
    if term and term[0] == "upvar" and len(term) == 2 and upvars is not None:
        i = term[1]
        if 0 <= i < len(upvars):
            return upvars[i]
        return term
    return tuple(subst(x, params, upvars) if isinstance(x, (tuple, frozenset)) else x for x in term)


def find_calls(term, program, acc=None):
    """local call / await sub-terms of a term: ('call'|'await', callee, args, bb)"""
    if acc is None:
        acc = []
    if isinstance(term, frozenset):
        for x in term:
            find_calls(x, program, acc)
        return acc
    if not isinstance(term, tuple) or not term:
        return acc
    if term[0] in ("call", "await") and len(term) == 4 and isinstance(term[1], str):
        if term[1] in program.bodies:
            acc.append(term)
    for x in term:
        if isinstance(x, (tuple, frozenset)):
            find_calls(x, program, acc)
    return acc


class Summaries:
    def __init__(self, program, max_depth=4):
        self.p = program
        self.max_depth = max_depth
        self.memo = {}
        self.terms = {}
        self.path_cap = 300
        self.imprecise = set()

    def T(self, body):
        if body.path not in self.terms:
            self.terms[body.path] = flow.Terms(self.p, body)
            self.terms[body.path].indexed = getattr(self, "indexed", False)
        return self.terms[body.path]

    def local_outcomes(self, body):
        """outcomes of one body without expansion; path-sensitive when the body is small enough:
        one outcome per (return-place assignment, distinct set of switch decisions)."""
        key = ("local", body.path)
        if key in self.memo:
            return self.memo[key]
        outs = []
        for s in flow.outcome_sites(body):
            if s["path"] != ():
                continue
            bb = s["bb"]
            paths = flow.decision_paths(body, bb, cap=self.path_cap)
            if paths is None:
                self.imprecise.add(body.path)
                T = self.T(body)
                conds = [(t, l, body.path, "%s:%d" % (body.file, body.term(sb)["line"])) for sb, l, t in flow.conditions(self.p, body, bb, T)]
                outs.append(self._mk(body, s, T, conds))
                continue
            for dec in paths:
                rd = flow.ReachingDefs(body, removed_edges=flow.contradicting_edges(body, dec))
                T = flow.Terms(self.p, body, rd)
                T.indexed = getattr(self, "indexed", False)
                conds = []
                for sb, succ in dec:
                    t = body.term(sb)
                    term = flow.simplify_term(T.operand(t["op"], sb, "t"))
                    conds.append((term, flow.edge_label(body, sb, succ), body.path, "%s:%d" % (body.file, t["line"])))
                outs.append(self._mk(body, s, T, conds))
        self.memo[key] = outs
        return outs

    def _mk(self, body, s, T, conds):
        bb = s["bb"]
        if s.get("idx") is not None:
            val = flow.simplify_term(T._rvalue(s["rv"], bb, s["idx"], 0))
        else:
            val = flow.simplify_term(T._call(s["term"], bb, 0))
            if s["kind"] == "residual":
                # `?` error edge: Err(residual) — or None when the function returns an Option
                rty = (body.locals[0].get("ty") or "") if body.locals else ""
                if rty.startswith("core::option::Option<"):
                    val = ("agg", "core::option::Option", "None", ())
                else:
                    val = ("agg", "core::result::Result", "Err", (("0", ("residual", val)),))
        vp, inner = variant_path(val)
        return Outcome(vp, val, conds, (body, bb, s["line"]), body.path)

    def callee_body(self, callterm):
        kind, callee = callterm[0], callterm[1]
        b = self.p.bodies.get(callee)
        if b is None:
            return None
        if kind == "await" or (kind == "call" and False):
            co = self.p.bodies.get(callee + "::{closure#0}")
            return co if co is not None and co.is_coroutine else None
        return b

    def outcomes(self, body, depth=0):
        """outcomes with conditions on / values forwarded from workspace calls expanded"""
        key = ("full", body.path)
        if key in self.memo:
            return self.memo[key]
        self.memo[key] = []  # recursion guard
        res = []
        for o in self.local_outcomes(body):
            for x in self._expand(o, depth):
                if not contradictory(x.conds):
                    res.append(x)
        self.memo[key] = res
        return res

    def _expand(self, o, depth):
        if depth >= self.max_depth:
            return [o]
        # pick a local call term occurring in a discriminant-style condition or in the forwarded value
        cand = None
        for t, labs, fn, w in o.conds:
            for c in find_calls(t, self.p):
                if self.callee_body(c) is not None:
                    cand = c
                    break
            if cand:
                break
        if cand is None:
            vp, inner = variant_path(o.value)
            for c in find_calls(inner, self.p):
                if self.callee_body(c) is not None and self._forwarded(inner, c) is not None:
                    cand = c
                    break
        if cand is None:
            return [o]
        cb = self.callee_body(cand)
        args = cand[2]
        couts = self.outcomes(cb, depth + 1)
        if not couts:
            return [o]
        res = []
        for co in couts:
            if cand[0] == "await":
                csub = lambda t: subst(t, (), args)
            else:
                csub = lambda t: subst(t, args, None)
            cval = flow.simplify_term(csub(co.value))
            # replace the call term by the callee's value in conditions and value; drop decided conditions
            feasible = True
            newconds = []
            for t, labs, fn, w in o.conds:
                if cand in find_calls(t, self.p) or t == cand:
                    t2 = flow.simplify_term(replace(t, cand, cval))
                    dec = decide(t2, labs)
                    if dec is False:
                        feasible = False
                        break
                    if dec is True:
                        continue
                    newconds.append((t2, labs, fn, w))
                else:
                    newconds.append((t, labs, fn, w))
            if not feasible:
                continue
            newval = flow.simplify_term(replace(o.value, cand, cval))
            if flow.term_contains(newval, lambda x: x == ("never",)):
                continue
            cc = [(flow.simplify_term(csub(t)), l, f, w) for t, l, f, w in co.conds]
            vp, _ = variant_path(newval)
            n = Outcome(vp, newval, cc + newconds, o.site, o.fn)
            n.via = getattr(o, "via", []) + [co.site]
            res.extend(self._expand(n, depth + 1))
        return res

    def evaluate(self, body, binding, keep_undecided=True):
        """Rows of the decision table of `body` that remain feasible when the terms in `binding` (e.g. parameters) are
        replaced by the given abstract values; decided conditions are dropped.  Evaluating the extracted table on a
        finite product of abstract inputs — no code of the repository runs."""
        rows = []
        for o in self.outcomes(body):
            conds = []
            feasible = True
            for t, l, f, w in o.conds:
                t2 = t
                for old, new in binding.items():
                    t2 = replace(t2, old, new)
                t2 = flow.simplify_term(t2)
                d = decide(t2, l, self.p)
                if d is False or flow.term_contains(t2, lambda x: x == ("never",)):
                    feasible = False
                    break
                if d is None:
                    conds.append((t2, l, f, w))
            if not feasible:
                continue
            v = o.value
            for old, new in binding.items():
                v = replace(v, old, new)
            v = flow.simplify_term(v)
            vp, _ = variant_path(v)
            if contradictory(conds):
                continue
            rows.append(Outcome(vp, v, conds, o.site, o.fn))
        return rows

    def _forwarded(self, inner, c):
        return c if flow.term_contains(inner, lambda x: x == c) else None


def replace(term, old, new):
    if term == old:
        return new
    if isinstance(term, frozenset):
        return frozenset(replace(x, old, new) for x in term)
    if not isinstance(term, tuple):
        return term
    return tuple(replace(x, old, new) if isinstance(x, (tuple, frozenset)) else x for x in term)


def decide(term, labels, program=None):
    """Try to decide `term ∈ labels` once the callee's value is substituted.
    Returns True (holds, drop the condition), False (infeasible) or None (keep)."""
    if program is not None and isinstance(term, tuple) and term and term[0] == "discr" and isinstance(term[1], tuple) and term[1] and term[1][0] == "agg":
        a = program.adts.get(term[1][1])
        if a is not None:
            for v in a.get("variants", []):
                if v["name"] == term[1][2] and v.get("discr") is not None:
                    return _in(str(v["discr"]), labels)
    # discriminant of a known aggregate
    if isinstance(term, tuple) and term and term[0] == "discr":
        inner = term[1]
        if inner and inner[0] == "try":
            x = inner[1]
            if x and x[0] == "agg":
                v = x[2]
                idx = "0" if v in ("Ok", "Some") else "1"
                return _in(idx, labels)
        if inner and inner[0] == "agg":
            adt = inner[1].rsplit("::", 1)[-1]
            if adt in STD_VARIANTS and inner[2] in STD_VARIANTS[adt]:
                idx = str(STD_VARIANTS[adt].index(inner[2]))
                return _in(idx, labels)
    if isinstance(term, tuple) and term and term[0] == "const" and isinstance(term[1], int):
        return _in(str(term[1]), labels)
    if isinstance(term, tuple) and term and term[0] == "const" and isinstance(term[1], str) and term[1] in ("const true", "const false"):
        return _in("1" if term[1] == "const true" else "0", labels)
    return None


def _in(idx, labels):
    return flow.lab_holds(labels, idx)


def contradictory(conds):
    """the same value term required to lie in two disjoint label sets (syntactic, sound pruning of infeasible rows)"""
    by = {}
    for t, labs, fn, w in conds:
        by.setdefault(t, []).append(labs)
    for t, ls in by.items():
        if len(ls) < 2:
            continue
        pos = [set(l[1:]) for l in ls if l[0] == "in"]
        neg = [set(l[1:]) for l in ls if l[0] == "notin"]
        if pos:
            inter = set.intersection(*pos)
            for n in neg:
                inter -= n
            if not inter:
                return True
    return False


def replace_where(term, pred, new):
    if pred(term):
        return new
    if isinstance(term, frozenset):
        return frozenset(replace_where(x, pred, new) for x in term)
    if not isinstance(term, tuple):
        return term
    return tuple(replace_where(x, pred, new) if isinstance(x, (tuple, frozenset)) else x for x in term)
