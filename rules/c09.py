"""C09 — PRF results are the specified HMAC, per credential, and gated on verification (structural clauses).

R1 salt        : make_salt = sha256 over the chain [b"WebAuthn PRF", 0x00, input]; convert_eval_to_ctap hashes exactly when its
                 `should_hash` argument is true and otherwise takes the 32 input bytes (try_into, ValidationError on other lengths);
                 `prf` is converted with should_hash = true and tried first, `prfAlreadyHashed` with false only when `prf` gave nothing.
R2 HMAC        : hmac_sha256 is Hmac<Sha256> keyed with its first argument (new_from_slice) over its second (update);
                 calculate_hmac_secret keys it with cred_with_uv exactly on the uv edge and with cred_without_uv (None → Err) on
                 the other edge; the data are the selected salts.
R3 uv argument : registration passes the requested uv option (verified when requested, C04 R2), assertion passes
                 Flags::contains(flags, UV) of the consent result; the flag is handed unchanged down to calculate_hmac_secret.
R4 select_salts: per-credential entry whose key equals the used credential's id, else `eval`, else nothing; the id given is the
                 used credential's.
R5 enabled     : make_prf reports enabled=false exactly when the new credential got no secrets and enabled=true otherwise; the
                 secrets given to make_prf are the ones stored in the Passkey; without configured capability every entry point
                 returns None / Ok(None) first.
R6 client validation : the extension-input conversions precede (cut) the authenticator call; each malformed shape has its
                 error row in the decision tables (evalByCredential at registration; evalByCredential non-empty without allow list;
                 empty / undecodable / unlisted key; pre-hashed input not 32 bytes).
R7 first/second plumbing : wherever a first/second record is built from another (conversions between the CTAP and WebAuthn
                 forms, helpers, HmacSecretSaltOrOutput::new) `first` derives from no `second` and `second` from no `first`.
Not decided: that the SHA-256/HMAC crates compute those functions.
"""
from . import core, flow, names, normal, summary
from .framework import where, short, api_name
from .common import AUTH, CLIENT, ceremony, find_aggs, hmac_functions, param_roles
from .c02 import has, is_call, find, sub, closure_ret
from .c12 import chain_segments


def mentions_field(p, term, name, depth=0):
    """does the term (or the return value of a closure inside it) read a field of that name?"""
    for x in sub(term):
        if isinstance(x, tuple) and len(x) == 3 and x[0] == "field" and x[2] == name:
            return True
        if isinstance(x, tuple) and len(x) == 3 and x[0] == "closure" and depth < 3:
            r = closure_ret(p, x)
            if r is not None and mentions_field(p, r, name, depth + 1):
                return True
    return False


def fn(p, suffix):
    c = [x for x in p.all_bodies if x.path.endswith(suffix) and x.path == x.root]
    if not c:
        # renamed or moved private helper: found by its role (rules/roles.py)
        rb = getattr(p, "role_bodies", {}).get(suffix.rsplit("::", 1)[-1])
        if rb is not None:
            return rb
    return c[0] if len(c) == 1 else None


def run(chk):
    p = core.load_program("all")
    chk.configs = ["all-features"]
    chk.explanation = __doc__
    S = summary.Summaries(p)
    N = normal.Normalizer(p, S)

    # ---------------- R1
    ms = fn(p, "extensions::prf::make_salt")
    if chk.require("R1 salt", "R1|make_salt", ms, "passkey_client::extensions::prf", "make_salt not found"):
        chk.touched(ms)
        o = S.local_outcomes(ms)
        v = o[0].value if len(o) == 1 else None
        ok = v is not None and (is_call(v, "crypto::sha256") or is_call(v, "sha256"))
        segs = flow.byte_segments(N.norm(v[2][0])) if ok else []
        sc = segs
        good = flow.merge_const_segments(sc) == [("bytes", b"WebAuthn PRF\x00"), ("param", 1)]
        chk.ob("R1 salt", "R1|make_salt|layout", bool(ok and good), where(ms), "make_salt = %s" % (flow.term_str(v) if v else "?"))
    cv = fn(p, "extensions::prf::convert_eval_to_ctap")
    # the converter of one whole `eval` record: when the function of that name takes something else (the record's members,
    # say), the one private function that has the record-level signature is the anchor — its callees are part of its table
    from . import roles as _roles
    if cv is None or param_roles(cv, rec="AuthenticationExtensionsPrfValues")["rec"] is None:
        alt = _roles.fits(p, "convert_eval_to_ctap")
        cv = alt[0] if len(alt) == 1 else cv
    if chk.require("R1 salt", "R1|convert_eval_to_ctap", cv, "passkey_client::extensions::prf", "convert_eval_to_ctap not found"):
        chk.touched(cv)
        okh = okp = okerr = False
        ro_cv = param_roles(cv, rec="AuthenticationExtensionsPrfValues", hash="bool")
        P_REC, P_HASH = ("param", ro_cv["rec"] or 1), ("param", ro_cv["hash"] or 2)
        # the function's full table (private helpers expanded), values in normal form
        rows_cv = normal.rows(S, cv, N, expand=True, deep=True)
        is_hash = lambda y: is_call(y, "prf::make_salt") or is_call(y, "crypto::sha256") or is_call(y, "sha256") or is_call(y, "Digest::digest")

        def salt_of(t, x):
            """t = SHA-256("WebAuthn PRF" || 0x00 || x)"""
            if is_call(t, "prf::make_salt"):
                return t[2][0] == x
            if is_hash(t) and t[2]:
                sg = flow.byte_segments(N.norm(t[2][-1]))
                return flow.merge_const_segments(sg) == [("bytes", b"WebAuthn PRF\x00"), x]
            return False
        is_conv = lambda y: (is_call(y, "TryInto::try_into") or is_call(y, "TryFrom::try_from")) and has(y, lambda z: isinstance(z, tuple) and len(z) == 3 and z[0] == "field" and z[2] in ("first", "second"))
        n_h = n_p = 0
        okh = okp = True
        for o in rows_cv:
            hashed = [flow.bool_atom(t, l)[1] for t, l, f, w in o.conds if flow.bool_atom(t, l)[0] == P_HASH]
            if not hashed:
                continue
            v = N.inline(o.value)
            if o.variant[:1] == ("Ok",):
                pv = dict(v[3]).get("0")
                d = dict(pv[3]) if pv and pv[0] == "agg" else {}
                first, second = d.get("first"), d.get("second")
                second_given = any(flow.asserts_ok(t, l, lambda y: y == ("field", P_REC, "second")) for t, l, f, w in o.conds)
                if second_given and second == normal.NONE:
                    # a second input was supplied but no second salt is produced: the input was dropped instead of being
                    # converted or rejected
                    okh = okh and hashed[0] is not True
                    okp = okp and hashed[0] is not False
                if hashed[0] is True:
                    n_h += 1
                    s_ok = second == normal.NONE or (second is not None and second[0] == "agg" and second[2] == "Some" and salt_of(dict(second[3])["0"], ("payload", ("field", P_REC, "second"))))
                    okh = okh and first is not None and salt_of(first, ("field", P_REC, "first")) and s_ok
                else:
                    n_p += 1
                    raw = lambda t, fld: flow.is_payload_of(t, lambda y: is_conv(y) and has(y, lambda z: isinstance(z, tuple) and len(z) == 3 and z[0] == "field" and z[2] == fld))
                    s_ok = second == normal.NONE or (second is not None and second[0] == "agg" and second[2] == "Some" and raw(dict(second[3])["0"], "second"))
                    okp = okp and first is not None and raw(first, "first") and s_ok and not has(pv, is_hash)
            elif hashed[0] is False:
                if any(flow.asserts_fail(t, l, lambda y: is_conv(y) or (isinstance(y, tuple) and len(y) == 4 and y[0] == "call" and y[1] in p.bodies)) for t, l, f, w in o.conds) and has(v, lambda x: isinstance(x, tuple) and len(x) == 4 and x[0] == "agg" and x[2] == "ValidationError"):
                    okerr = True
        okh = okh and n_h >= 1
        okp = okp and n_p >= 1
        chk.ob("R1 salt", "R1|convert|hash-iff-should_hash", okh and okp, where(cv), "should_hash=true → make_salt(first/second): %s ; false → the 32 raw bytes (try_into), no hashing: %s" % (okh, okp))
        chk.ob("R6 client validation", "R6|pre-hashed-not-32-bytes", okerr, where(cv), "try_into failure maps to ValidationError: %s" % okerr)
    for nm, suffix, callee in (("registration", "extensions::prf::registration_prf_to_ctap2_input", "prf::make_ctap_extension"), ("authentication", "extensions::prf::auth_prf_to_ctap2_input", "prf::get_ctap_extension")):
        b = fn(p, suffix)
        if not chk.require("R1 salt", "R1|%s|precedence" % nm, b, suffix, "%s not found" % suffix):
            continue
        chk.touched(b)
        # the function's own decision table in normal form (calls to the converter kept as calls)
        rws = normal.rows(S, b, N, expand=False)
        is_conv = lambda x: isinstance(x, tuple) and len(x) == 4 and x[0] == "call" and names.is_(x[1], callee)
        mentions = lambda t, fld: has(t, lambda y: isinstance(y, tuple) and len(y) == 3 and y[0] == "field" and y[2] == fld)

        def kind(cl):
            src = [a for a in cl[2][:-1] if mentions(a, "prf") or mentions(a, "prf_already_hashed")]
            flag = cl[2][-1]
            if flag == ("const", 1) and not any(mentions(a, "prf_already_hashed") for a in cl[2]):
                return "prf"
            if flag == ("const", 0) and not any(mentions(a, "prf") for a in cl[2]):
                return "hashed"
            return "mixed"
        problems = []
        seen = set()
        for o in rws:
            in_value = [x for x in sub(o.value) if is_conv(x)]
            kinds = {kind(x) for x in in_value} | {kind(x) for t, l, f, w in o.conds for x in sub(t) if is_conv(x)}
            seen |= kinds
            if "mixed" in kinds:
                problems.append("a conversion mixes the hashing flag and the input member: %s" % flow.term_str(o.value)[:120])
            firsts = lambda x: is_conv(x) and kind(x) == "prf"
            if any(kind(x) == "hashed" for x in in_value):
                # prfAlreadyHashed is consulted only when `prf` converted fine and produced nothing
                ok_first = any(flow.asserts_ok(t, l, firsts) for t, l, f, w in o.conds)
                none_first = any(flow.asserts_fail(t, l, lambda y: flow.is_payload_of(y, firsts)) for t, l, f, w in o.conds)
                if not (ok_first and none_first):
                    problems.append("prfAlreadyHashed is used without `prf` having produced nothing: %s" % o.cond_strs())
            elif o.variant[:1] == ("Ok",):
                if not (any(flow.asserts_ok(t, l, firsts) for t, l, f, w in o.conds) and has(o.value, lambda y: flow.is_payload_of(y, firsts))):
                    problems.append("an Ok row returns something other than the `prf` conversion result: %s" % flow.term_str(o.value)[:120])
        ok = not problems and {"prf", "hashed"} <= seen
        wit = problems[0] if problems else "%d rows: `prf` is converted with hashing and tried first; `prfAlreadyHashed` (no hashing) only when that gave Ok(None)" % len(rws)
        chk.ob("R1 salt", "R1|%s|prf-first-hashed" % nm, ok, where(b), wit)

    # R1 (flag plumbing): between the two entry conversions (which choose hashing = true for `prf` and false for
    # `prfAlreadyHashed`, judged above) and convert_eval_to_ctap, the hashing flag is only ever *handed on*: every call of
    # the converter — in a closure, a helper, or a helper's closure — passes the enclosing function's own flag parameter,
    # never a constant and never a negation. A constant is accepted only in the entries themselves.
    def _capture(path, k):
        """term, in the parent body, of capture #k of the closure `path`"""
        if "::{closure#" not in path:
            return None, None
        parent = path.rsplit("::{closure#", 1)[0]
        pb = p.bodies.get(parent)
        if pb is None:
            return None, None
        Tp = flow.Terms(p, pb)
        for bb, st_ in pb.stmts():
            if st_["k"] == "assign" and st_.get("rv", {}).get("k") == "agg" and st_["rv"].get("def") == path:
                t_ = Tp.rvalue(st_["rv"], bb, "t") if hasattr(Tp, "rvalue") else None
                if t_ is None:
                    ops = st_["rv"]["ops"]
                    return (Tp.operand(ops[k], bb, "t") if k < len(ops) else None), pb
                return (t_[2][k] if k < len(t_[2]) else None), pb
        return None, pb

    def _strip(t_):
        while isinstance(t_, tuple) and t_ and t_[0] in ("deref", "copy", "ref") and len(t_) == 2:
            t_ = t_[1]
        return t_

    def _origin(body, t_, depth=0):
        """('param', fn-body, i) | ('const', v) | ('other', text): where a bool operand comes from, through captures"""
        t_ = _strip(flow.simplify_term(t_))
        if isinstance(t_, tuple) and t_[:1] == ("const",):
            return ("const", t_[1])
        if isinstance(t_, tuple) and t_[:1] == ("param",) and "::{closure#" not in body.path.rsplit("::", 1)[-1] and not body.path.endswith("}"):
            return ("param", body.path, t_[1])
        if isinstance(t_, tuple) and len(t_) == 3 and t_[0] == "field" and t_[1] == ("param", 1) and body.path.endswith("}") and depth < 4:
            ct, pb = _capture(body.path, int(t_[2]))
            if ct is not None:
                return _origin(pb, ct, depth + 1)
        return ("other", flow.term_str(t_)[:80])

    cvb = fn(p, "extensions::prf::convert_eval_to_ctap")
    entries = {b_.path for b_ in (fn(p, "extensions::prf::registration_prf_to_ctap2_input"), fn(p, "extensions::prf::auth_prf_to_ctap2_input")) if b_}
    if chk.require("R1 salt", "R1|flag-plumbing|converter", cvb, "passkey_client::extensions::prf", "convert_eval_to_ctap not found"):
        # the converter's hashing flag is found by role: its only `bool` parameter
        _bools = [i for i in range(1, cvb.arg_count + 1) if cvb.local_ty(i) == "bool"]
        chk.require("R1 salt", "R1|flag-plumbing|flag-parameter", len(_bools) == 1, where(cvb), "convert_eval_to_ctap has %d bool parameters (expected one hashing flag)" % len(_bools))
        flagged = {cvb.path: _bools[0]} if len(_bools) == 1 else {}   # function path -> 1-based index of its hashing-flag parameter
        sites, bad_sites, work = 0, [], list(flagged)
        while work:
            target = work.pop()
            fi = flagged[target]
            for k_, b_ in sorted(p.bodies.items()):
                if not k_.startswith("passkey_client::"):
                    continue
                for bb, t_ in b_.calls():
                    if core.callee_of(t_) != target and (t_.get("resolved") or "") != target:
                        continue
                    if len(t_["args"]) < fi:
                        continue
                    sites += 1
                    chk.touched(b_)
                    o_ = _origin(b_, flow.Terms(p, b_).operand(t_["args"][fi - 1], bb, "t"))
                    owner = b_.path.split("::{closure#")[0]
                    if o_[0] == "param" and o_[1] == owner:
                        if owner not in flagged:
                            flagged[owner] = o_[2]
                            work.append(owner)
                    elif o_[0] == "const" and owner in entries:
                        pass
                    else:
                        bad_sites.append("%s → %s: flag = %s" % (short(b_.path), short(target), o_[1:] if o_[0] != "other" else o_[1]))
        chk.ob("R1 salt", "R1|flag-plumbing|hashing-flag-handed-on-unchanged", not bad_sites and sites >= 7, where(cvb),
               "call sites of the converter and of the functions that carry its flag: %d (floor 7, counted by hand: three converter calls, two calls each of make_ctap_extension and get_ctap_extension from the entries); flag carriers: %s; sites where the flag is not the enclosing function's own flag parameter: %s"
               % (sites, sorted(short(x) for x in flagged), bad_sites))

    # ---------------- R2
    hm = fn(p, "utils::crypto::hmac_sha256")
    if chk.require("R2 HMAC", "R2|hmac_sha256", hm, "passkey_types::utils::crypto", "hmac_sha256 not found"):
        chk.touched(hm)
        nf = names.calls_to(hm, "Mac::new_from_slice", "KeyInit::new_from_slice")
        up = names.calls_to(hm, "Mac::update", "Update::update")
        T = flow.Terms(p, hm)
        inst = (nf[0][1].get("callee_full") or "") if nf else ""
        okt = "hmac::" in inst and ("Hmac<" in inst or "HmacCore<" in inst) and "Sha256" in inst and "Sha512" not in inst and "Sha384" not in inst and "Sha224" not in inst
        okk = bool(nf) and flow.simplify_term(T.operand(nf[0][1]["args"][0], nf[0][0], "t")) == ("param", 1)
        okd = bool(up) and flow.simplify_term(T.operand(up[0][1]["args"][1], up[0][0], "t")) == ("param", 2)
        fin = names.calls_to(hm, "Mac::finalize")
        chk.ob("R2 HMAC", "R2|hmac_sha256|instance", okt and bool(fin), where(hm), "MAC instance: %s" % inst[:140])
        chk.ob("R2 HMAC", "R2|hmac_sha256|key-and-data-roles", okk and okd, where(hm), "new_from_slice(key = param 1): %s ; update(data = param 2): %s" % (okk, okd))
    hfs = hmac_functions(p)
    is_hmac = lambda x: is_call(x, "crypto::hmac_sha256") or is_call(x, "hmac_sha256")
    # The key rule is stated on whichever body shows both the stored secrets and the uv flag: the function that calls
    # hmac_sha256 when it takes them itself (`calculate_hmac_secret(creds, salts, .., uv)`), otherwise its callers' inlined
    # views (a private selector + a keyed newtype: `CredRandom::select(creds, uv)?.outputs(salts, ..)`).  Every hmac_sha256
    # call site of the crate must be covered by a body on which the rule holds.
    from . import inline as _inl9
    uv_index = {}          # function path -> index of its uv parameter (as identified by role)

    def hmac_sites(V):
        return {((blk.get("from") or V.path), (blk.get("from_bb") if blk.get("from") else bb)) for bb, blk in enumerate(V.blocks)
                if not blk["cleanup"] and not blk.get("dead") and blk["term"] and blk["term"]["k"] == "call" and names.call_is(blk["term"], "crypto::hmac_sha256", "hmac_sha256")}

    def key_rule(V, f):
        """-> None when `f` shows no stored secrets / no bool; else dict(bad_key, bad_data, n_uv, n_nouv, n_err, n_calls, uv)"""
        tys = [(i, (f.j["locals"][i].get("ty") or "")) for i in range(1, f.j.get("arg_count", 0) + 1)]
        creds_i = [i for i, ty in tys if "StoredHmacSecret" in ty]
        bools = [i for i, ty in tys if ty == "bool"]
        if len(creds_i) != 1 or not bools:
            return None
        P_c = ("param", creds_i[0])
        from_creds = lambda C: C == P_c or flow.is_payload_of(C, lambda y: y == P_c) or (isinstance(C, tuple) and has(C, lambda y: y == P_c) and not has(C, lambda y: isinstance(y, tuple) and len(y) == 3 and y[0] == "field"))
        is_with = lambda k: isinstance(k, tuple) and len(k) == 3 and k[0] == "field" and k[2] == "cred_with_uv" and from_creds(k[1])
        is_without_opt = lambda k: isinstance(k, tuple) and len(k) == 3 and k[0] == "field" and k[2] == "cred_without_uv" and from_creds(k[1])
        is_without = lambda k: isinstance(k, tuple) and len(k) == 2 and k[0] == "payload" and is_without_opt(k[1])
        rws = normal.rows(S, V, N, expand=False, deep=True)
        best = None
        for ui in bools:
            P_uv = ("param", ui)
            bad_key, bad_data, n_uv, n_nouv, n_err, n_calls = [], [], 0, 0, 0, 0
            for o in rws:
                uvc = [l for t, l, f_, w in o.conds if t == P_uv]
                hs = [x for x in sub(o.value) if is_hmac(x)]
                if o.variant[:1] == ("Ok",) or (not o.variant and hs):
                    if not hs:
                        continue
                    if not uvc:
                        bad_key.append("an HMAC output is produced without testing the uv flag")
                        continue
                    uv_true = flow.lab_true(uvc[0])
                    if uv_true:
                        n_uv += 1
                    else:
                        n_nouv += 1
                        if not any(flow.asserts_ok(t, l, is_without_opt) for t, l, f_, w in o.conds):
                            bad_key.append("¬uv row without the presence test of cred_without_uv")
                    salts_x = set()
                    for h in hs:
                        n_calls += 1
                        key, data = N.norm(flow.strip_sites(h[2][0])), flow.strip_sites(h[2][1])
                        while isinstance(key, tuple) and len(key) == 4 and key[0] == "call" and key[2] and any(names.is_(key[1], w_) for w_ in ("Deref::deref", "AsRef::as_ref", "Vec::as_slice", "Borrow::borrow", "Bytes::as_slice")):
                            key = key[2][0]
                        if not (is_with(key) if uv_true else is_without(key)):
                            bad_key.append("uv=%s row keyed with %s" % (uv_true, flow.term_str(key)[:80]))
                        first = is_call(data, "HmacSecretSaltOrOutput::first")
                        second = isinstance(data, tuple) and data[:1] == ("payload",) and is_call(data[1], "HmacSecretSaltOrOutput::second")
                        if not (first or second):
                            bad_data.append("HMAC data %s" % flow.term_str(data)[:80])
                        else:
                            x_ = data[2][0] if first else data[1][2][0]
                            salts_x.add(flow.strip_sites(x_))
                            if has(x_, lambda y: y == P_c):
                                bad_data.append("HMAC data derives from the stored secrets")
                    if len(salts_x) > 1:
                        bad_data.append("first and second salt come from different records")
                    nw = find(o.value, lambda x: is_call(x, "HmacSecretSaltOrOutput::new") and has(x, is_hmac))
                    if nw is None or not (is_hmac(nw[2][0]) and is_call(nw[2][0][2][1], "HmacSecretSaltOrOutput::first")):
                        bad_data.append("first output is not the HMAC of the first salt")
                    elif has(nw[2][1], is_hmac) and not has(nw[2][1], lambda x: is_call(x, "HmacSecretSaltOrOutput::second")):
                        bad_data.append("second output is not the HMAC of the second salt")
                elif o.variant[:1] == ("Err",):
                    if uvc and flow.lab_false(uvc[0]) and any(flow.asserts_fail(t, l, is_without_opt) for t, l, f_, w in o.conds):
                        n_err += 1
            r_ = dict(bad_key=bad_key, bad_data=bad_data, n_uv=n_uv, n_nouv=n_nouv, n_err=n_err, n_calls=n_calls, uv=ui)
            good = not bad_key and n_uv > 0 and n_nouv > 0
            if good and (best is None or best["bad_key"]):
                best = r_
            elif best is None:
                best = r_
        return best
    if chk.require("R2 HMAC", "R2|hmac-functions", len(hfs) >= 1, "passkey_authenticator", "no function of the authenticator calls hmac_sha256"):
        # (a site is identified by the function it belongs to — closures count as their function)
        all_sites = set()
        for ch in hfs:
            chk.touched(ch)
            all_sites.add((ch.path, 0))
        covered = {}
        cands = list(hfs) + [x for x in (p.method(AUTH, "make_prf"), p.method(AUTH, "get_prf")) if x is not None and x not in hfs]
        for f in cands:
            V = _inl9.inlined(p, f) or f
            st_ = {(r0, 0) for r0 in ({f.path} | set(getattr(V, "inlined_callees", None) or [])) if (r0, 0) in all_sites}
            if not st_:
                continue
            r_ = key_rule(V, f)
            if r_ is None:
                continue
            for sid in st_:
                covered.setdefault(sid, []).append((f, r_))
            uv_index[f.path] = r_["uv"]
        groups = {}
        for sid in sorted(all_sites, key=str):
            owner = sid[0].rsplit("::", 1)[-1]
            groups.setdefault(owner, []).append(sid)
        for owner, sids in sorted(groups.items()):
            miss = [s_ for s_ in sids if s_ not in covered]
            if not chk.require("R2 HMAC", "R2|%s|roles" % owner, not miss, "passkey_authenticator::" + owner, "hmac_sha256 call(s) of %s are reached through no body that shows both the stored secrets and a uv flag (neither the function itself nor make_prf / get_prf with their private helpers inlined)" % owner):
                continue
            # every body that shows the secrets and reaches these calls must gate them
            fs_ = []
            for s_ in sids:
                for fr_ in covered[s_]:
                    if fr_ not in fs_:
                        fs_.append(fr_)
            bad_key = [x for f_, r_ in fs_ for x in r_["bad_key"]]
            bad_data = [x for f_, r_ in fs_ for x in r_["bad_data"]]
            n_uv, n_nouv = min(r_["n_uv"] for f_, r_ in fs_), min(r_["n_nouv"] for f_, r_ in fs_)
            n_err, n_calls = min(r_["n_err"] for f_, r_ in fs_), sum(r_["n_calls"] for f_, r_ in fs_)
            at = where(fs_[0][0])
            via = ", ".join(sorted(api_name(f_) for f_, r_ in fs_))
            chk.ob("R2 HMAC", "R2|%s|uv-gated-secret-iff-uv" % owner, not bad_key and n_uv > 0 and n_nouv > 0, at, bad_key[0] if bad_key else "%d rows with uv keyed by cred_with_uv, %d rows without uv keyed by cred_without_uv; %d HMAC calls (read on %s)" % (n_uv, n_nouv, n_calls, via))
            chk.ob("R2 HMAC", "R2|%s|no-secret-is-error" % owner, n_err > 0, at, "¬uv with no non-gated secret → Err: %d rows" % n_err)
            chk.ob("R2 HMAC", "R2|%s|data-are-the-salts" % owner, not bad_data, at, bad_data[0] if bad_data else "HMAC data = first() / second() of one salts record, first output from the first salt")

    # ---------------- R3
    mc, ga = ceremony(p, "make_credential"), ceremony(p, "get_assertion")
    if chk.require("R3 uv argument", "R3|ceremonies", mc is not None and ga is not None, AUTH, "ceremonies not found"):
        for co, callee, exp in ((mc, "Authenticator::make_extensions", "requested"), (ga, "Authenticator::get_extensions", "performed")):
            chk.touched(co)
            T = flow.Terms(p, co)
            cs = names.calls_to(co, callee)
            if not chk.require("R3 uv argument", "R3|%s|site" % callee, len(cs) == 1, where(co), "call to %s not found" % callee):
                continue
            uv = N.norm(T.operand(cs[0][1]["args"][-1], cs[0][0], "t"))
            if exp == "requested":
                ok = uv == ("field", ("field", ("upvar", 1), "options"), "uv")
            else:
                ok = is_call(uv, "Flags::contains") and uv[2][0][0] == "payload" and has(uv[2][0], lambda x: is_call(x, "Authenticator::check_user")) and uv[2][1][0] == "const" and str(uv[2][1][1]).endswith("Flags::UV")
            chk.ob("R3 uv argument", "R3|%s|uv" % callee.split("::")[1], ok, where(co, cs[0][0]), "uv argument = %s (%s verification)" % (flow.term_str(uv)[:160], exp))
    # uv handed down unchanged
    chain = [("make_extensions", "Authenticator::make_prf", p.method(AUTH, "make_prf")), ("get_extensions", "Authenticator::get_prf", p.method(AUTH, "get_prf"))]
    internal = 0
    for hf in hfs:
        # callers of the HMAC function among the PRF entry points; where the key rule was read on make_prf / get_prf
        # themselves (the secrets are selected by a private helper inlined there) their own uv parameter is the one tested
        # and there is no further link
        cov_all = [f_ for f_, r_ in (("covered" in dir() and covered.get((hf.path, 0))) or [])]
        for outer in ("make_prf", "get_prf"):
            ob_ = p.method(AUTH, outer)
            if ob_ is None or ob_ is hf:
                continue
            reaches = any(x is hf for nb in p.nested_of(ob_) for _bb, t in nb.calls() for x in p.local_callee_bodies(t)) or hf.path in (getattr(_inl9.inlined(p, ob_), "inlined_callees", None) or [])
            if not reaches:
                continue
            if hf in cov_all:
                chain.append((outer, hf.path, hf))
            elif ob_ in cov_all:
                internal += 1
                ro_own = param_roles(ob_, uv="bool")["uv"]
                chk.ob("R3 uv argument", "R3|%s|uv-selects-the-secret-in-place" % outer, ro_own is not None and uv_index.get(ob_.path) == ro_own, where(ob_),
                       "the secret is selected inside %s (private helpers inlined) by its own uv parameter: %s" % (outer, uv_index.get(ob_.path) == ro_own))
    chk.ob("R3 uv argument", "R3|uv-chain", len(chain) + internal >= 4, AUTH, "%d links between the ceremony's extension step and the HMAC function (make/get_extensions → make/get_prf → HMAC)" % len(chain))
    for outer, inner, ib in chain:
        b = p.method(AUTH, outer)
        if not chk.require("R3 uv argument", "R3|%s|body" % outer, b, AUTH, "%s not found" % outer):
            continue
        ro_i = param_roles(ib, uv="bool") if ib is not None else {"uv": None}
        if ib is not None and ro_i["uv"] is None and ib.path in uv_index:
            ro_i = {"uv": uv_index[ib.path]}     # several bools: the one that selects the key (R2)
        ro_o = param_roles(b, uv="bool")
        if not chk.require("R3 uv argument", "R3|%s->%s|roles" % (outer, inner.rsplit("::", 1)[-1]), ro_i["uv"] is not None and ro_o["uv"] is not None, where(b), "the uv flag parameter is not identified by type"):
            continue
        ai, pi = ro_i["uv"] - 1, ro_o["uv"]
        chk.touched(b)
        found = False
        val = None
        for nb in p.nested_of(b):
            for bb, t in nb.calls():
                if names.call_is(t, inner):
                    T = flow.Terms(p, nb)
                    v = flow.simplify_term(T.operand(t["args"][ai], bb, "t"))
                    # inside a closure the flag is a capture: resolve it in the enclosing body
                    val = v
                    if nb is not b and v[0] == "field" and v[1] == ("param", 1):
                        for b2, s2 in b.stmts():
                            pass
                        # find the closure aggregate in any enclosing body
                        for eb in p.nested_of(b):
                            for b3, s3 in eb.stmts():
                                if s3["k"] == "assign" and s3["rv"]["k"] == "agg" and s3["rv"].get("def") == nb.path:
                                    Te = flow.Terms(p, eb)
                                    cap = flow.simplify_term(Te.operand(s3["rv"]["ops"][int(v[2])], b3, eb.blocks[b3]["stmts"].index(s3)))
                                    val = cap
                                    if eb is not b and cap[0] == "field" and cap[1] == ("param", 1):
                                        for b4, s4 in b.stmts():
                                            if s4["k"] == "assign" and s4["rv"]["k"] == "agg" and s4["rv"].get("def") == eb.path:
                                                val = flow.simplify_term(flow.Terms(p, b).operand(s4["rv"]["ops"][int(cap[2])], b4, b.blocks[b4]["stmts"].index(s4)))
                    found = True
        chk.ob("R3 uv argument", "R3|%s->%s|uv-passed-through" % (outer, inner.rsplit("::", 1)[-1]), found and val == ("param", pi), where(b), "uv given to %s = %s (expected the function's own uv parameter)" % (inner.rsplit("::", 1)[-1], flow.term_str(val) if val else "?"))

    # ---------------- R4
    ss = fn(p, "hmac_secret::select_salts")
    if chk.require("R4 select_salts", "R4|select_salts", ss, "passkey_authenticator", "select_salts not found"):
        chk.touched(ss)
        # the request arrives as the PRF inputs record, or as its two members separately (default eval, per-credential map)
        ro_ss = param_roles(ss, cid="[u8]", req="AuthenticatorPrfInputs")
        P_ID = ("param", ro_ss["cid"] or 1)
        if ro_ss["req"] is not None:
            EVAL, EBC = ("field", ("param", ro_ss["req"]), "eval"), ("field", ("param", ro_ss["req"]), "eval_by_credential")
        else:
            tys_ = [(i, (ss.j["locals"][i].get("ty") or "").replace(" ", "")) for i in range(1, ss.j.get("arg_count", 0) + 1)]
            ev_ = [i for i, ty in tys_ if ty.startswith("core::option::Option<") and ty.rstrip(">").endswith("AuthenticatorPrfValues") and "HashMap" not in ty and "Map<" not in ty]
            eb_ = [i for i, ty in tys_ if "AuthenticatorPrfValues" in ty and ("HashMap" in ty or "Map<" in ty)]
            EVAL = ("param", ev_[0]) if len(ev_) == 1 else None
            EBC = ("param", eb_[0]) if len(eb_) == 1 else None
            ro_ss["req"] = (EVAL, EBC) if EVAL and EBC else None
        chk.require("R4 select_salts", "R4|select_salts|roles", None not in ro_ss.values(), where(ss), "parameters not identified by type (credential id bytes, PRF inputs): %s" % ro_ss)
        rows = normal.rows(S, ss, N, expand=False, deep=True)
        # the table in normal form: which stored entry feeds the salts, and under which presence tests
        is_ebc_t = lambda y: y == EBC
        # the matching entry: found by Iterator::find / find_map over the per-credential map, or yielded by next() of a loop over it
        is_find = lambda x: ((is_call(x, "Iterator::find") or is_call(x, "Iterator::find_map")) and has(x[2][0], is_ebc_t)) or (is_call(x, "Iterator::next") and has(flow.iterator_source(x[2][0]) or (), is_ebc_t))
        is_eval = lambda x: x == EVAL
        is_ebc = lambda x: x == EBC
        somes = [o for o in rows if o.variant[:1] == ("Some",)]
        nones = [o for o in rows if o.variant[:1] == ("None",)]
        per_cred = [o for o in somes if has(o.value, is_find)]
        dflt = [o for o in somes if o not in per_cred]
        ok1 = bool(per_cred)
        for o in per_cred:
            fnd = find(o.value, is_find)
            if fnd is not None and is_call(fnd, "Iterator::find"):
                pred = closure_ret(p, fnd[2][1])
                okp = pred is not None and has(pred, lambda x: is_call(x, "PartialEq::eq")) and has(pred, lambda x: x == P_ID)
            elif fnd is not None and is_call(fnd, "Iterator::find_map"):
                # the closure yields the entry's value exactly on the true edge of `key == credential id`
                pred = closure_ret(p, fnd[2][1])
                cs_ = normal.cases_deep(N.norm(pred)) if pred is not None else []
                yes = [(cs, v) for cs, v in cs_ if isinstance(v, tuple) and v[:3] == ("agg", "core::option::Option", "Some")]
                is_key_eq = lambda t, l: (flow.eq_test(t, l) or (None, None))[1] is True and any(has(y, lambda z: z == P_ID) for y in flow.eq_test(t, l)[0])
                okp = bool(yes) and all(any(is_key_eq(t, l) for t, l in cs) for cs, v in yes) and all(v == normal.NONE for cs, v in cs_ if (cs, v) not in yes)
            else:
                # loop form: the row is taken on the true edge of `credential id == key of the yielded entry`
                okp = fnd is not None and any((flow.eq_test(t, l) or (None, None))[1] is True and P_ID in flow.eq_test(t, l)[0] and any(has(y, lambda z: z == fnd) for y in flow.eq_test(t, l)[0]) for t, l, f, w in o.conds)
            matched = any(flow.asserts_ok(t, l, is_find) for t, l, f, w in o.conds)
            ok1 = ok1 and okp and matched and not has(o.value, is_eval)
        # the default entry is used only when no per-credential entry matched (map absent, or no key equals the id) and exists
        ok2 = bool(dflt)
        for o in dflt:
            no_match = any(flow.asserts_fail(t, l, is_find) or flow.asserts_fail(t, l, is_ebc) for t, l, f, w in o.conds)
            ok2 = ok2 and has(o.value, is_eval) and no_match and any(flow.asserts_ok(t, l, is_eval) for t, l, f, w in o.conds)
        # nothing is returned only when neither exists
        ok3 = bool(nones) and all(any(flow.asserts_fail(t, l, is_eval) for t, l, f, w in o.conds) and any(flow.asserts_fail(t, l, is_find) or flow.asserts_fail(t, l, is_ebc) for t, l, f, w in o.conds) for o in nones)
        chk.ob("R4 select_salts", "R4|per-credential-first-then-default", ok1 and ok2 and ok3, where(ss),
               "%d per-credential rows (key == credential id: %s), %d default rows (only without a match: %s), %d empty rows (only without either: %s)" % (len(per_cred), ok1, len(dflt), ok2, len(nones), ok3))
    gp = p.method(AUTH, "get_prf")
    ge = p.method(AUTH, "get_extensions")
    if gp is not None and ge is not None:
        chk.touched(gp)
        chk.touched(ge)
        T = flow.Terms(p, gp)
        cs = names.calls_to(gp, "hmac_secret::select_salts")
        ro_gp = param_roles(gp, cid="[u8]")
        ss_ = fn(p, "hmac_secret::select_salts")
        ai_ = (param_roles(ss_, cid="[u8]")["cid"] or 1) - 1 if ss_ is not None else 0
        ok = bool(cs) and ro_gp["cid"] is not None and flow.simplify_term(T.operand(cs[0][1]["args"][ai_], cs[0][0], "t")) == ("param", ro_gp["cid"])
        if ok and ss_ is not None and param_roles(ss_, req="AuthenticatorPrfInputs")["req"] is None and isinstance(ro_ss.get("req"), tuple):
            # the inputs record travels as its two members: both must be members of one and the same record, each in its place
            a_ev = flow.simplify_term(T.operand(cs[0][1]["args"][ro_ss["req"][0][1] - 1], cs[0][0], "t"))
            a_eb = flow.simplify_term(T.operand(cs[0][1]["args"][ro_ss["req"][1][1] - 1], cs[0][0], "t"))
            ok = a_ev[0] == "field" and a_eb[0] == "field" and a_ev[2] == "eval" and a_eb[2] == "eval_by_credential" and a_ev[1] == a_eb[1]
        okc = False
        for nb in p.nested_of(ge):
            for bb, t in nb.calls():
                if names.call_is(t, "Authenticator::get_prf"):
                    v = flow.simplify_term(flow.Terms(p, nb).operand(t["args"][(ro_gp["cid"] or 2) - 1], bb, "t"))
                    okc = has(v, lambda x: isinstance(x, tuple) and len(x) == 3 and x[0] == "field" and x[2] == "credential_id") or (v[0] == "field" and v[1] == ("param", 1))
                    if v[0] == "field" and v[1] == ("param", 1):
                        # capture: resolve in get_extensions
                        for b3, s3 in ge.stmts():
                            if s3["k"] == "assign" and s3["rv"]["k"] == "agg" and s3["rv"].get("def") == nb.path:
                                cap = flow.simplify_term(flow.Terms(p, ge).operand(s3["rv"]["ops"][int(v[2])], b3, ge.blocks[b3]["stmts"].index(s3)))
                                okc = has(cap, lambda x: x == ("param", 2)) or cap == ("param", 2)
        chk.ob("R4 select_salts", "R4|id-of-used-credential", ok and okc, where(gp), "select_salts(credential_id = get_prf's own parameter): %s ; get_extensions passes the used passkey's id: %s" % (ok, okc))

    # ---------------- R5
    mp = p.method(AUTH, "make_prf")
    if chk.require("R5 enabled", "R5|make_prf", mp, AUTH, "make_prf not found"):
        chk.touched(mp)
        rows = S.local_outcomes(mp)
        ok = True
        n_en = n_dis = n_none = 0
        P_SEC = ("param", param_roles(mp, sec="StoredHmacSecret")["sec"] or 2)
        for o in rows:
            if o.variant[:2] == ("Ok", "Some"):
                en = find(o.value, lambda x: isinstance(x, tuple) and len(x) == 4 and x[0] == "agg" and x[1].endswith("AuthenticatorPrfMakeOutputs"))
                e = dict(en[3]).get("enabled") if en else None
                has_creds = [l for t, l, f, w in o.conds if flow.is_discr(t, P_SEC)]
                if e == ("const", 1):
                    n_en += 1
                    ok = ok and has_creds and has_creds[0] == ("in", "1")
                elif e == ("const", 0):
                    n_dis += 1
                    ok = ok and has_creds and flow.lab_holds(has_creds[0], "0") and not flow.lab_holds(has_creds[0], "1")
                    ok = ok and dict(en[3]).get("results") == ("agg", "core::option::Option", "None", ())
                else:
                    ok = False
            elif o.variant[:2] == ("Ok", "None"):
                n_none += 1
                ok = ok and any(t[0] == "discr" and t[1][0] == "field" and t[1][2] == "hmac_secret" and not flow.lab_holds(l, "1") for t, l, f, w in o.conds)
        chk.ob("R5 enabled", "R5|make_prf|enabled-iff-secrets", ok and n_en >= 1 and n_dis == 1 and n_none == 1, where(mp), "rows: enabled=true %d (secrets present), enabled=false %d (no secrets), None %d (capability not configured)" % (n_en, n_dis, n_none))
    me = p.method(AUTH, "make_extensions")
    if chk.require("R5 enabled", "R5|make_extensions", me, AUTH, "make_extensions not found"):
        chk.touched(me)
        T = flow.Terms(p, me)
        ag = find_aggs(me, "MakeExtensionOutputs")
        stored = None
        if ag:
            bb, i, rv = ag[0]
            stored = flow.simplify_term(T.operand(rv["ops"][rv["fields"].index("credential")], bb, i))
        given = None
        for nb in p.nested_of(me):
            for bb, t in nb.calls():
                if names.call_is(t, "Authenticator::make_prf"):
                    v = flow.simplify_term(flow.Terms(p, nb).operand(t["args"][param_roles(mp, sec="StoredHmacSecret")["sec"] - 1 if mp is not None and param_roles(mp, sec="StoredHmacSecret")["sec"] else 1], bb, "t"))
                    given = v
                    # resolve captures up to make_extensions
                    cur, curb = v, nb
                    for _ in range(3):
                        base = cur
                        while isinstance(base, tuple) and base and base[0] in ("field",) and base[1] != ("param", 1):
                            base = base[1]
                        if curb is me:
                            break
                        idx = None
                        for x in sub(cur):
                            if isinstance(x, tuple) and len(x) == 3 and x[0] == "field" and x[1] == ("param", 1) and str(x[2]).isdigit():
                                idx = int(x[2])
                                capref = x
                        if idx is None:
                            break
                        parent = None
                        for eb in p.nested_of(me):
                            for b3, s3 in eb.stmts():
                                if s3["k"] == "assign" and s3["rv"]["k"] == "agg" and s3["rv"].get("def") == curb.path:
                                    parent = (eb, b3, s3)
                        if parent is None:
                            break
                        eb, b3, s3 = parent
                        cap = flow.simplify_term(flow.Terms(p, eb).operand(s3["rv"]["ops"][idx], b3, eb.blocks[b3]["stmts"].index(s3)))
                        cur = summary.replace(cur, capref, cap)
                        curb = eb
                    given = flow.simplify_term(cur)
        ok = stored is not None and given is not None and has(given, lambda x: x == ("field", stored, "hmac_secret")) or (stored is not None and given is not None and has(given, lambda x: isinstance(x, tuple) and len(x) == 3 and x[0] == "field" and x[2] == "hmac_secret" and flow.strip_sites(x[1]) == flow.strip_sites(stored)))
        if not ok and stored is not None and given is not None:
            # the stored record built in place: its hmac_secret member is the very value (same evaluation site) handed to make_prf
            hs = flow.simplify_term(("field", stored, "hmac_secret"))
            ok = hs != ("field", stored, "hmac_secret") and isinstance(hs, tuple) and hs[:1] == ("call",) and has(given, lambda x: x == hs)
        chk.ob("R5 enabled", "R5|make_extensions|same-secrets-stored-and-reported", bool(ok), where(me), "stored CredentialExtensions = %s ; make_prf receives %s" % (flow.term_str(stored)[:100] if stored else "?", flow.term_str(given)[:140] if given else "?"))
    mh = p.method(AUTH, "make_hmac_secret")
    if chk.require("R5 enabled", "R5|make_hmac_secret", mh, AUTH, "make_hmac_secret not found"):
        chk.touched(mh)
        rows = normal.rows(S, mh, N, expand=False, deep=True)
        somes = [o for o in rows if o.variant[:1] == ("Some",)]
        # rows that produce stored secrets require the configured capability to be present
        is_cfg = lambda x: x == ("field", ("field", ("param", 1), "extensions"), "hmac_secret")
        ok = bool(somes) and all(any(flow.asserts_ok(t, l, is_cfg) for t, l, f, w in o.conds) for o in somes)
        chk.ob("R5 enabled", "R5|make_hmac_secret|nothing-stored-without-capability", ok, where(mh), "secrets are generated only past the configured-capability check: %s" % ok)
    if gp is not None:
        rows = S.local_outcomes(gp)
        nonecap = [o for o in rows if o.variant[:2] == ("Ok", "None") and any(t[0] == "discr" and t[1][0] == "field" and t[1][2] == "hmac_secret" and not flow.lab_holds(l, "1") for t, l, f, w in o.conds) and len(o.conds) == 1]
        chk.ob("R5 enabled", "R5|get_prf|none-without-capability", len(nonecap) == 1, where(gp), "get_prf returns Ok(None) first when the capability is not configured: %s" % (len(nonecap) == 1))

    # ---------------- R6
    for nm, conv, target in (("register", "Client::registration_extension_ctap2_input", "Authenticator::make_credential"), ("authenticate", "Client::auth_extension_ctap2_input", "Authenticator::get_assertion")):
        co = ceremony(p, nm, adt=CLIENT)
        if not chk.require("R6 client validation", "R6|Client::%s" % nm, co, CLIENT, "Client::%s not found" % nm):
            continue
        chk.touched(co)
        T = flow.Terms(p, co)
        tc = names.calls_to(co, target)
        conds = flow.conditions(p, co, tc[0][0], T) if tc else []
        ok = any(t[0] == "discr" and t[1][0] == "try" and has(t, lambda x: is_call(x, conv)) and l == ("in", "0") for sb, l, t in conds)
        chk.ob("R6 client validation", "R6|Client::%s|validated-before-authenticator" % nm, ok, where(co, tc[0][0]) if tc else where(co), "the authenticator call is cut by the success edge of %s: %s" % (conv, ok))
    # registration: evalByCredential is refused — evaluate the (expanded) table of the registration conversion on the two
    # abstract inputs "prf carries evalByCredential" and "prf absent, prfAlreadyHashed carries evalByCredential"
    rg = fn(p, "extensions::prf::registration_prf_to_ctap2_input")
    if chk.require("R6 client validation", "R6|registration_prf_to_ctap2_input", rg, "prf", "registration_prf_to_ctap2_input not found"):
        chk.touched(rg)
        PRF = "passkey_types::webauthn::extensions::pseudo_random_function::AuthenticationExtensionsPrfInputs"
        INP = "passkey_types::webauthn::extensions::AuthenticationExtensionsClientInputs"
        with_ebc = normal.some(normal.abstract(p, PRF, eval_by_credential=normal.some(("sym", "record"))))
        for key, inp in (("evalByCredential-rejected", normal.abstract(p, INP, prf=with_ebc)),
                         ("validation-applied", normal.abstract(p, INP, prf=normal.NONE, prf_already_hashed=with_ebc))):
            ev = normal.evaluate(S, rg, N, {("param", 1): normal.some(inp)})
            bad = [o for o in ev if not (o.variant[:1] == ("Err",) and has(o.value, lambda x: isinstance(x, tuple) and len(x) == 4 and x[0] == "agg" and x[2] == "NotSupportedError"))]
            chk.ob("R6 client validation", "R6|registration|%s" % key, bool(ev) and not bad, where(rg),
                   "%d feasible rows for a registration input whose %s has evalByCredential; rows that are not Err(NotSupportedError): %s"
                   % (len(ev), "prf" if key.startswith("eval") else "prfAlreadyHashed (prf absent)", [(o.vstr(), o.cond_strs()[:3]) for o in bad][:2]))
    gc = fn(p, "extensions::prf::get_ctap_extension")
    if chk.require("R6 client validation", "R6|get_ctap_extension", gc, "prf", "get_ctap_extension not found"):
        chk.touched(gc)
        T = flow.Terms(p, gc)
        sy = find_aggs(gc, "WebauthnError", "SyntaxError")
        # evalByCredential non-empty ∧ (allowCredentials absent ∨ empty) → NotSupportedError: evaluate the expanded table of
        # the authentication conversion on abstract requests and look at the rows on the "record non-empty" side
        au = fn(p, "extensions::prf::auth_prf_to_ctap2_input")
        okn = False
        witn = "auth_prf_to_ctap2_input not found"
        if au is not None:
            chk.touched(au)
            PRF = "passkey_types::webauthn::extensions::pseudo_random_function::AuthenticationExtensionsPrfInputs"
            INP = "passkey_types::webauthn::extensions::AuthenticationExtensionsClientInputs"
            REQ = "passkey_types::webauthn::assertion::PublicKeyCredentialRequestOptions"
            prf_in = normal.some(normal.abstract(p, PRF, eval_by_credential=normal.some(("sym", "record"))))
            okn = True
            witn = ""
            for label, allow, need_empty_allow in (("absent", normal.NONE, False), ("present", normal.some(("sym", "allow")), True)):
                req = normal.abstract(p, REQ, allow_credentials=allow, extensions=normal.some(normal.abstract(p, INP, prf=prf_in)))
                ev = normal.evaluate(S, au, N, {("param", 1): req})
                hit = 0
                for o in ev:
                    et = [flow.emptiness_test(t, l) for t, l, f, w in o.conds]
                    rec_nonempty = any(e is not None and e[0] == ("sym", "record") and e[1] is False for e in et)
                    allow_empty = any(e is not None and has(e[0], lambda x: x == ("sym", "allow")) and e[1] is True for e in et)
                    if rec_nonempty and (allow_empty or not need_empty_allow):
                        hit += 1
                        if not (o.variant[:1] == ("Err",) and has(o.value, lambda x: isinstance(x, tuple) and len(x) == 4 and x[0] == "agg" and x[2] == "NotSupportedError")):
                            okn = False
                            witn = "allowCredentials %s: a row with a non-empty evalByCredential is %s under %s" % (label, o.vstr(), o.cond_strs()[:4])
                if hit == 0:
                    okn = False
                    witn = witn or "allowCredentials %s: no row tests evalByCredential for emptiness%s" % (label, " together with allowCredentials" if need_empty_allow else "")
            witn = witn or "rows with evalByCredential non-empty and allowCredentials absent / empty are all Err(NotSupportedError)"
        chk.ob("R6 client validation", "R6|authentication|evalByCredential-without-allow-list", okn, where(au or gc), witn)
        # R4 (client side): the default `eval` travels to the authenticator whether or not evalByCredential is given, so that a
        # credential without its own entry still gets the default salts
        if au is not None:
            okd = True
            witd = ""
            n_rows = 0
            for label, ebc in (("absent", normal.NONE), ("present", normal.some(("sym", "record")))):
                prf2 = normal.some(normal.abstract(p, PRF, eval=normal.some(("sym", "default-eval")), eval_by_credential=ebc))
                req = normal.abstract(p, REQ, allow_credentials=normal.some(("sym", "allow")), extensions=normal.some(normal.abstract(p, INP, prf=prf2)))
                for o in normal.evaluate(S, au, N, {("param", 1): req}):
                    if o.variant[:2] != ("Ok", "Some"):
                        continue
                    n_rows += 1
                    inp = dict(dict(o.value[3])["0"][3])["0"] if o.value[0] == "agg" else None
                    pv = dict(inp[3]).get("prf") if isinstance(inp, tuple) and inp and inp[0] == "agg" else None
                    ev_out = dict(dict(pv[3])["0"][3]).get("eval") if isinstance(pv, tuple) and pv[:3] == ("agg", "core::option::Option", "Some") else None
                    if not (isinstance(ev_out, tuple) and ev_out[:3] == ("agg", "core::option::Option", "Some") and has(ev_out, lambda x: x == ("sym", "default-eval"))):
                        okd = False
                        witd = "evalByCredential %s: a row sends prf = %s — the default eval is not forwarded" % (label, flow.term_str(pv)[:160] if pv else "?")
            chk.ob("R4 select_salts", "R4|client|default-eval-forwarded", okd and n_rows >= 2, where(au), witd or "%d accepting rows forward the converted default eval (with and without evalByCredential)" % n_rows)
        # SyntaxError ⇔ ∃ key ∈ evalByCredential: key is empty ∨ (allowCredentials present ∧ ¬∃ c ∈ allowCredentials: c.id == key).
        # The per-key predicate is read off either spelling — the closure of `any(..)` that guards the error, or the path
        # condition from the element of a search loop to the error — brought to a boolean/quantifier normal form
        # (rules/quant.py) and compared with the specification by truth table over its three atoms.
        from . import quant
        F = quant.Formulas(N)
        oks = False
        P_ALLOW = ("param", param_roles(gc, allow="PublicKeyCredentialDescriptor]")["allow"] or 1)
        undec_site = False
        polw = "no per-key predicate found"
        KEY = ("key",)
        for bb, i, rv in sy:
            pred_f = None
            conds = normal.conditions(N, p, gc, bb, T) or []
            # (A) any(record, |k| P(k)) on its true edge
            for sb, l, t in conds:
                f = F.of_edge(t, l)
                if f[0] == "exists" and has(f[1], lambda x: isinstance(x, tuple) and len(x) == 3 and x[0] == "field" and x[2] == "eval_by_credential"):
                    pred_f = quant.replace_term(f[2], ("field", ("bound", 0), "0"), KEY)
                    pred_f = quant.replace_term(pred_f, ("bound", 0), KEY)
            # (B) a loop over the record: the element is payload(next(..)); P = disjunction of the path conditions from the
            #     element's binding to the error
            if pred_f is None:
                is_next = lambda x: is_call(x, "Iterator::next")
                ok_e, _b = flow.success_edges(p, gc, is_next, T)
                for sb, sc in ok_e:
                    if not has(N.norm(T.operand(gc.term(sb)["op"], sb, "t")), lambda x: isinstance(x, tuple) and len(x) == 3 and x[0] == "field" and x[2] == "eval_by_credential"):
                        continue
                    elem = [x for x in flow._subjects(flow.presence_test(N.norm(T.operand(gc.term(sb)["op"], sb, "t")), flow.edge_label(gc, sb, sc))[0], False) if is_next(x)]
                    paths = flow.decision_paths(gc, bb, start=sc, cap=64)
                    if not elem or not paths:
                        continue
                    disj = []
                    for dec in paths:
                        rd = flow.ReachingDefs(gc, removed_edges=flow.contradicting_edges(gc, dec))
                        Tp = flow.Terms(p, gc, rd)
                        conj = quant.f_and(*[F.of_edge(N.norm(Tp.operand(gc.term(b2)["op"], b2, "t")), flow.edge_label(gc, b2, s2)) for b2, s2 in dec])
                        # the element as this path sees it
                        subj = flow.presence_test(N.norm(Tp.operand(gc.term(sb)["op"], sb, "t")), flow.edge_label(gc, sb, sc))
                        for e in ([x for x in flow._subjects(subj[0], False) if is_next(x)] if subj else []) + elem:
                            e0 = ("payload", e)
                            for pat in (("field", e0, "0"), e0):
                                conj = quant.replace_term(conj, pat, KEY)
                        disj.append(conj)
                    pred_f = quant.f_or(*disj)
            if pred_f is None:
                continue
            # classify the leaves
            leaves = {}

            def is_key(x):
                """the key of the entry, or its decoded form (`Bytes::try_from(key)` on its success side)"""
                x = quant._strip_refs(x)
                if x == KEY:
                    return True
                inner = x[1] if isinstance(x, tuple) and len(x) == 2 and x[0] == "payload" else None
                return inner is not None and is_call(inner, "TryFrom::try_from") and "Bytes" in inner[1] and has(inner, lambda y: y == KEY)

            def leaf_of(f):
                if f[0] in ("or", "and"):
                    return all(leaf_of(x) for x in f[1])
                if f[0] == "not":
                    return leaf_of(f[1])
                if f[0] in ("true", "false"):
                    return True
                kind = None
                if f[0] == "atom" and isinstance(f[1], tuple) and len(f[1]) == 4 and f[1][0] == "call" and f[1][1].endswith("is_empty") and is_key(f[1][2][0]):
                    kind = "E"
                elif f[0] == "present" and has(f[1], lambda x: x == P_ALLOW):
                    kind = "A"
                elif f[0] == "present" and has(f[1], lambda x: is_call(x, "TryFrom::try_from") and "Bytes" in x[1]):
                    kind = "D"   # the key decodes (base64url) — when the decoding and the checks share one loop
                elif f[0] == "exists" and has(f[1], lambda x: x == P_ALLOW) and f[2][0] == "eq":
                    a, b = (tuple(f[2][1]) + (None, None))[:2]
                    ids = [x for x in (a, b) if isinstance(x, tuple) and len(x) == 3 and x[0] == "field" and x[2] == "id" and isinstance(x[1], tuple) and x[1][:1] == ("bound",)]
                    keys = [x for x in (a, b) if is_key(x)]
                    kind = "X" if ids and keys else None
                if kind is None:
                    leaves[f] = None
                    return False
                leaves[f] = kind
                return True
            known = leaf_of(pred_f)

            def ev(f, env):
                if f[0] == "true":
                    return True
                if f[0] == "false":
                    return False
                if f[0] == "not":
                    return not ev(f[1], env)
                if f[0] == "or":
                    return any(ev(x, env) for x in f[1])
                if f[0] == "and":
                    return all(ev(x, env) for x in f[1])
                return env[leaves[f]]
            if known:
                import itertools
                same = True
                for E, A, X in itertools.product((False, True), repeat=3):
                    # `allow present` false makes the inner quantifier vacuous: X only matters when A holds; the predicate
                    # is about keys that decode (D): an undecodable key is the other obligation
                    if ev(pred_f, {"E": E, "A": A, "X": X, "D": True}) != (E or (A and not X)):
                        same = False
                if all(ev(pred_f, {"E": E, "A": A, "X": X, "D": False}) for E, A, X in itertools.product((False, True), repeat=3)) and "D" in leaves.values():
                    undec_site = True
                if same:
                    oks = True
                    polw = "per-key predicate over {key empty, allow list present, ∃ listed id == key} is equivalent to  empty ∨ (present ∧ ¬∃)"
                elif not oks:
                    polw = "per-key predicate over {key empty, allow list present, ∃ listed id == key} is NOT equivalent to  empty ∨ (present ∧ ¬∃)"
            elif not oks:
                polw = "per-key predicate has unrecognised parts: %s" % [str(k)[:100] for k, v in leaves.items() if v is None][:2]
        # undecodable key: Bytes::try_from error mapped to SyntaxError
        undec = undec_site
        for nb in p.nested_of(gc):
            if find_aggs(nb, "WebauthnError", "SyntaxError") and nb is not gc:
                undec = True
        has_tf = any(names.call_is(t3, "TryFrom::try_from") and "Bytes" in (t3.get("callee_full") or "") for nb in p.nested_of(gc) for b3, t3 in nb.calls())
        chk.ob("R6 client validation", "R6|authentication|empty-or-unlisted-key", oks, where(gc), "%s — must be equivalent to 'some key is empty or unlisted': %s" % (polw, oks))
        chk.ob("R6 client validation", "R6|authentication|undecodable-key", undec and has_tf, where(gc), "Bytes::try_from(key) failure maps to SyntaxError: %s" % (undec and has_tf))
    # ---------------- R7: first stays first, second stays second
    # Wherever a record with members `first` / `second` (salts, outputs, results — CTAP and WebAuthn forms) is built from
    # another one, or the salt pair is packed with HmacSecretSaltOrOutput::new(a, b): what goes into `first` derives from no
    # `second` and what goes into `second` from no `first`.  Decided on the value terms of every such construction site in
    # the three crates (closures applied), so it covers conversions, helpers and inline literals alike.
    pair_adts = {k for k, a in p.adts.items() if a.get("variants") and {"first", "second"} <= {f["name"] for f in a["variants"][0]["fields"]}}

    def origins(t):
        out = set()
        for x in sub(t):
            if isinstance(x, tuple) and len(x) == 3 and x[0] == "field" and x[2] in ("first", "second"):
                out.add(x[2])
            if isinstance(x, tuple) and len(x) == 4 and x[0] == "call" and isinstance(x[1], str) and (x[1].endswith("HmacSecretSaltOrOutput::first") or x[1].endswith("HmacSecretSaltOrOutput::second")):
                out.add(x[1].rsplit("::", 1)[-1])
        return out
    n_sites, crossed = 0, []
    for b7 in p.all_bodies:
        if b7.crate not in ("passkey_types", "passkey_client", "passkey_authenticator") or b7.def_kind not in ("Fn", "AssocFn", "Closure") or "::tests::" in b7.path or b7.path.endswith("::tests"):
            continue
        T7 = None
        sites7 = [(bb, i, rv, None) for bb, i, rv in [(bb, i, s["rv"]) for bb, blk in enumerate(b7.blocks) if not blk["cleanup"] for i, s in enumerate(blk["stmts"]) if s["k"] == "assign" and s["rv"]["k"] == "agg" and s["rv"].get("ak") == "adt" and s["rv"].get("adt") in pair_adts]]
        calls7 = [(bb, t) for bb, t in b7.calls() if names.call_is(t, "HmacSecretSaltOrOutput::new") and len(t["args"]) == 2]
        if not sites7 and not calls7:
            continue
        T7 = flow.Terms(p, b7)
        pairs = []
        for bb, i, rv, _x in sites7:
            fl = dict(zip(rv["fields"], rv["ops"]))
            pairs.append((bb, N.norm(T7.operand(fl["first"], bb, i)), N.norm(T7.operand(fl["second"], bb, i))))
        for bb, t in calls7:
            pairs.append((bb, N.norm(T7.operand(t["args"][0], bb, "t")), N.norm(T7.operand(t["args"][1], bb, "t"))))
        for bb, f1, f2 in pairs:
            o1, o2 = origins(f1), origins(f2)
            if not o1 and not o2:
                continue
            n_sites += 1
            if "second" in o1 or "first" in o2:
                crossed.append("%s: first <- %s, second <- %s" % (where(b7, bb), sorted(o1), sorted(o2)))
            chk.touched(b7)
    chk.ob("R7 first/second plumbing", "R7|first-and-second-never-crossed", not crossed and n_sites >= 4, crossed[0].split(":")[0] if crossed else "passkey_types / passkey_client / passkey_authenticator",
           crossed[0] if crossed else "%d construction sites of first/second records: `first` derives from no `second`, `second` from no `first`" % n_sites)
    chk.floor("R7", 1)
    chk.floor("R1", 4)
    chk.floor("R2", 5)
    chk.floor("R3", 6)
    chk.floor("R4", 3)
    chk.floor("R5", 4)
    chk.floor("R6", 8)
    chk.note("observation (not a rule): calculate_hmac_secret computes the second output only when the authenticator supports non-UV credentials; a second input on a UV-only authenticator yields no second result rather than a wrong one")
    chk.assumptions = ["sha2/hmac compute SHA-256/HMAC", "a requested uv that reached the extension code was verified (C04 R2)"]
