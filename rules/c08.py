"""C08 — signature counters strictly increase and equal what the store holds.

R1 initial value    : the `counter` of the Passkey built by make_credential can only be None or Some(0), selected by the
                      authenticator's own configuration flag; the registration's AuthenticatorData gets that same value.
R2 checked arithmetic: every arithmetic operation on a value read from `Passkey.counter` in the ceremonies is neither wrapping
                      nor panicking (MIR Add / AddWithOverflow+Assert(Overflow) / wrapping_* / overflowing_* are violations;
                      checked_* / saturating_* are accepted).
R3 reported = stored : on every path through the increment, the counter given to AuthenticatorData::new is the same value
                      term as the `counter` of the Passkey given to update_credential (reaching definitions, no later write).
R4 increment by one  : the other operand of the increment is the constant 1.
R6 store accepted    : an assertion is returned only through the success edge of update_credential's `?` (or the
                      no-counter edge), so the reported value is the value the store accepted.
R5 no counter, no rewrite: update_credential is only reachable through the `Some` edge of the stored counter; a missing
                      counter is encoded by unwrap_or_default (0).
"""
from . import core, flow, names, normal, summary
from .framework import where, short, api_name
from .common import AUTH, ceremony, adt_ident, find_aggs, forward_taint, reads_field

ARITH_BAD_OPS = {"Add", "AddWithOverflow", "AddUnchecked", "Sub", "SubWithOverflow", "SubUnchecked", "Mul", "MulWithOverflow", "MulUnchecked", "Shl", "ShlUnchecked"}
NUM_OK = ("saturating_add", "checked_add")
NUM_BAD = ("wrapping_add", "overflowing_add", "unchecked_add", "wrapping_sub", "wrapping_mul", "wrapping_neg", "overflowing_sub")


def num_method(t):
    c = t.get("callee") or ""
    if c.startswith("core::num::<impl u32>::") or c.startswith("core::num::<impl u"):
        return c.rsplit("::", 1)[-1]
    return None


def _subterms(t):
    yield t
    if isinstance(t, frozenset):
        for x in t:
            yield from _subterms(x)
    elif isinstance(t, tuple):
        for x in t:
            if isinstance(x, (tuple, frozenset)):
                yield from _subterms(x)


def run(chk):
    p = core.load_program("all")
    chk.configs = ["all-features"]
    chk.explanation = __doc__
    N = normal.Normalizer(p, summary.Summaries(p))

    # ---------------- R1 (make_credential)
    mc = ceremony(p, "make_credential")
    if chk.require("R1 initial value", "R1|make_credential", mc, AUTH, "Authenticator::make_credential async body not found"):
        chk.touched(mc)
        T = flow.Terms(p, mc)
        from .common import saved_passkey
        rec, sbb = saved_passkey(p, mc, T, N)
        chk.require("R1 initial value", "R1|Passkey-aggregate", rec is not None and "counter" in rec, where(mc), "the Passkey record handed to save_credential was not found")
        for bb, idx in ([(sbb, "t")] if rec is not None and "counter" in rec else []):
            # normal form: `flag.then_some(0)`, `if flag {Some(0)} else {None}`, `match` ... all become the same selection
            term = rec["counter"]
            rws = normal.cases(term)
            bad = []
            is_flag = lambda x: isinstance(x, tuple) and len(x) == 3 and x[0] == "field" and x[2] == "make_credentials_with_signature_counter"
            sel = {}
            for cs, v in rws:
                if v == normal.NONE:
                    kind = "None"
                elif v == normal.some(("const", 0)):
                    kind = "Some(0)"
                else:
                    kind = None
                    bad.append(flow.term_str(v)[:80])
                pol = set()
                for t, l in cs:
                    a, pl = flow.bool_atom(t, l)
                    if is_flag(a):
                        pol.add(pl)
                    else:
                        bad.append("selected by %s" % flow.term_str(a)[:80])
                sel.setdefault(kind, set()).update(pol)
            cond_ok = sel.get("Some(0)") == {True} and sel.get("None") == {False}
            chk.ob("R1 initial value", "R1|Passkey.counter|sources", not bad, where(mc, bb),
                   "counter := %s; non-zero/foreign sources: %s" % (flow.term_str(term), bad or "none"))
            chk.ob("R1 initial value", "R1|Passkey.counter|selector", cond_ok, where(mc, bb),
                   "Some/None selected by make_credentials_with_signature_counter: %s" % cond_ok)
            # same value into AuthenticatorData::new
            news = names.calls_to(mc, "AuthenticatorData::new")
            chk.require("R1 initial value", "R1|AuthenticatorData::new", len(news) == 1, where(mc), "expected one AuthenticatorData::new in make_credential")
            for nb, nt in news:
                t2 = N.norm(T.operand(nt["args"][1], nb, "t"))
                chk.ob("R1 initial value", "R1|registration-authdata-counter", t2 == term, where(mc, nb),
                       "AuthenticatorData::new counter = %s ; Passkey.counter = %s" % (flow.term_str(t2), flow.term_str(term)))

    # ---------------- R3b: the container reports the counter it is given
    adn = p.method(adt_ident(p, "AuthenticatorData"), "new")
    if chk.require("R3 reported = stored", "R3|AuthenticatorData::new", adn, "AuthenticatorData", "AuthenticatorData::new not found"):
        chk.touched(adn)
        Tn = flow.Terms(p, adn)
        ag = find_aggs(adn, "AuthenticatorData")
        okc = False
        wit = "construction not found"
        if len(ag) == 1:
            b3, i3, r3 = ag[0]
            ct = N.norm(Tn.operand(r3["ops"][r3["fields"].index("counter")], b3, i3))
            okc = ct == ("param", 2)
            wit = "AuthenticatorData::new stores counter = %s (its own argument, unchanged: %s)" % (flow.term_str(ct)[:160], okc)
        chk.ob("R3 reported = stored", "R3|AuthenticatorData::new|counter-stored-unchanged", okc, where(adn), wit)

    # ---------------- R2..R5 (get_assertion)
    ga = ceremony(p, "get_assertion")
    if not chk.require("R2 checked arithmetic", "R2|get_assertion", ga, AUTH, "Authenticator::get_assertion async body not found"):
        return
    # R2..R5 on the value level: the record handed to update_credential, as seen at that call (selections decided by the
    # call's necessary conditions), is the looked-up credential with `counter` replaced; the replacement is read as a term,
    # so it does not matter whether the increment is written inline, in a closure passed to map(), or in a helper
    chk.touched(ga)
    ups = names.calls_to(ga, "CredentialStore::update_credential")
    news = names.calls_to(ga, "AuthenticatorData::new")
    chk.require("R3 reported = stored", "R3|update_credential", len(ups) == 1, where(ga), "expected exactly one update_credential call, found %d" % len(ups))
    chk.require("R3 reported = stored", "R3|AuthenticatorData::new", len(news) == 1, where(ga), "expected exactly one AuthenticatorData::new call, found %d" % len(news))
    if len(ups) == 1 and len(news) == 1:
        ub, ut = ups[0]
        nb, nt = news[0]
        T = flow.Terms(p, ga)
        site_conds = normal.conditions(N, p, ga, ub, T, inline=True) or []
        sw = normal.under(N.inline(T.operand(ut["args"][1], ub, "t")), site_conds)
        okw = sw[0] == "with" and len(sw[2]) == 1 and all(pth[-1:] == ("counter",) for pth, v in sw[2])
        chk.ob("R3 reported = stored", "R3|stored-is-credential-with-counter", okw, where(ga, ub), "value given to update_credential = %s" % flow.term_str(sw)[:300])
        base = sw[1] if sw[0] == "with" else sw
        stored_counter = [v for pth, v in sw[2]][0] if okw else N.norm(("field", sw, "counter"))
        is_counter = lambda x: isinstance(x, tuple) and len(x) == 3 and x[0] == "field" and x[2] == "counter"
        # R2 / R4: arithmetic inside the written counter
        arith = []
        for x in _subterms(stored_counter):
            if isinstance(x, tuple) and x and x[0] == "binop" and x[1] in ARITH_BAD_OPS | {"Div", "Rem"}:
                arith.append(("binop " + x[1], False, x))
            if isinstance(x, tuple) and len(x) == 4 and x[0] == "call" and isinstance(x[1], str) and x[1].startswith("core::num::<impl u"):
                m = x[1].rsplit("::", 1)[-1]
                arith.append((m, m in NUM_OK, x))
        chk.require("R2 checked arithmetic", "R2|increment-site", len(arith) >= 1, where(ga, ub), "no arithmetic on the stored counter found in the value written back (the increment is expected there)")
        for m, good, x in arith:
            chk.ob("R2 checked arithmetic", "R2|Authenticator::get_assertion|%s" % m, good, where(ga, ub),
                   "%s on the stored counter: %s" % (m, "non-wrapping, non-panicking" if good else "wraps or may panic (MIR Add/Sub on a u32 panics in debug builds and wraps to 0 in release at u32::MAX)"))
            args = x[2] if x[0] == "call" else x[2:4]
            consts = [a[1] for a in args if isinstance(a, tuple) and a and a[0] == "const"]
            from_stored = any(flow.is_payload_of(a, is_counter) or is_counter(a) for a in args)
            chk.ob("R4 increment by one", "R4|Authenticator::get_assertion", consts == [1] and from_stored, where(ga, ub), "operands of the increment: %s" % [flow.term_str(a)[:60] for a in args])
        is_some = stored_counter[0] == "agg" and stored_counter[2] == "Some"
        chk.ob("R2 checked arithmetic", "R2|Authenticator::get_assertion|incremented-counter-is-Some", is_some, where(ga, ub),
               "counter written back = %s%s" % (flow.term_str(stored_counter)[:200], "" if is_some else " — not a `Some(..)`: at u32::MAX the stored counter is removed and the assertion reports 0"))
        # R5: update only on the Some edge of a test of the stored counter
        some_edges, none_edges = flow.success_edges(p, ga, is_counter, T, N=N)
        if chk.require("R5 no counter, no rewrite", "R5|guard", bool(some_edges) and bool(none_edges), where(ga), "no branch on the stored counter's presence found"):
            ok5 = flow.cut_by_edges(ga, 0, [ub], some_edges)
            chk.ob("R5 no counter, no rewrite", "R5|update-guarded-by-Some", ok5, where(ga, ub),
                   "update_credential is %sreachable when the Some edge(s) of the test on the stored counter %s are removed" % ("un" if ok5 else "", some_edges))
        # R3: the reported counter, as a selection on the presence of the stored one
        reported = N.inline(T.operand(nt["args"][1], nb, "t"))
        sel, subj = flow.presence_selection(reported, is_counter)
        reported_some, reported_none = sel.get(True), sel.get(False)
        chk.ob("R3 reported = stored", "R3|some-path", reported_some is not None and reported_some == stored_counter, where(ga, nb),
               "reported (paths with a counter) = %s ; stored = %s" % (flow.term_str(reported_some)[:160] if reported_some else flow.term_str(reported)[:200], flow.term_str(stored_counter)[:160]))
        chk.ob("R5 no counter, no rewrite", "R5|none-path-reports-stored", reported_none is not None and reported_none in (("field", base, "counter"), normal.NONE), where(ga, nb),
               "reported (paths without counter) = %s" % (flow.term_str(reported_none) if reported_none else "?"))
    # R6: the reported counter equals what the store holds only if the store accepted it
    from .c07 import try_of_await
    aws = flow.awaits(ga)
    upa = [a for a in aws if a.call is not None and names.call_is(a.call, "CredentialStore::update_credential")]
    oks = flow.ok_sites(p, ga)
    if upa and oks and len(ups) == 1:
        from .common import accepted_counter_cut
        ok, upd_ok, no_counter = accepted_counter_cut(p, ga)
        if not upd_ok:
            chk.ob("R6 store accepted the reported value", "R6|get_assertion|update-result-propagated", False, where(ga, upa[0].call_bb),
                   "update_credential's result is never tested: an assertion can report counter n+1 while the store still holds n (store failure), and the next assertion reports n+1 again")
        else:
            chk.ob("R6 store accepted the reported value", "R6|get_assertion|update-result-propagated", ok, where(ga, upa[0].call_bb),
                   "every Ok return passes the success edge of the test on update_credential's result (or the no-counter edge): %s" % ok)
    # encoding of None as 0
    tv = p.method(adt_ident(p, "AuthenticatorData"), "to_vec")
    if chk.require("R5 no counter, no rewrite", "R5|to_vec", tv, "AuthenticatorData::to_vec", "AuthenticatorData::to_vec not found"):
        chk.touched(tv)
        seeds = reads_field(tv, "AuthenticatorData", "counter")
        ok = False
        for bb, t in tv.calls():
            if names.call_is(t, "Option::unwrap_or_default", "Option::unwrap_or"):
                pl = flow.op_place(t["args"][0])
                if pl and pl[0] in forward_taint(tv, seeds) | seeds:
                    if names.call_is(t, "Option::unwrap_or") and flow.const_bits(t["args"][1]) != 0:
                        continue
                    ok = True
        chk.ob("R5 no counter, no rewrite", "R5|None-encodes-as-zero", ok, where(tv), "absent counter is encoded through unwrap_or_default/unwrap_or(0): %s" % ok)
    chk.floor("R1", 3)
    chk.floor("R2", 2)
    chk.floor("R3", 2)
    chk.floor("R4", 1)
    chk.floor("R5", 3)
    chk.floor("R6", 1)
    chk.assumptions = ["store implementations persist exactly the Passkey they are given (C05/C07 cover the shipped ones)",
                       "monotonicity over whole histories follows from R2-R5 per ceremony only for sequential use (C19 covers concurrency)"]
