"""C06 — private keys and PRF secrets never appear in anything handed back to callers.

R1 taint        : the value term of everything returned by the ceremonies (CTAP2 and WebAuthn responses, U2F responses, every
                  Err value), of the extension-output builders, and of every `log` argument contains no secret sub-term
                  (the private scalar, CoseKeyPair.private, the stored Passkey.key, the PRF secrets, the signing key) outside the
                  declared declassifiers: the *key* argument of hmac_sha256 and of sign, and verifying_key()/to_encoded_point.
                  Secret-carrying values may only flow into the record handed to the CredentialStore.
R2 key split    : CoseKeyPair::from_secret_key builds `public` from the public point only; the scalar reaches only the `d`
                  argument of new_ec2_priv_key.
R3 routing      : make_credential and U2F register attest/return the public half and store the private half.
R4 impl table   : StoredHmacSecret, CredentialExtensions and CoseKeyPair implement none of Debug/Display/Serialize; Passkey implements
                  Debug only by hand and that impl reads only key.kty and counter; Passkey is not Serialize/Display.
R5 type reachability : no outbound type (responses, errors, info) can contain Passkey, StoredHmacSecret, CredentialExtensions or
                  CoseKeyPair (ADT containment graph).
Not decided: encodings of secrets inside opaque third-party values, side channels.
"""
from . import core, flow, names, summary
from .framework import where, short, api_name
from .common import AUTH, CLIENT, ceremony, find_aggs, u2f_body
from .c02 import has, is_call, find, sub, closure_ret

SECRET_TYPES = ["passkey_types::passkey::Passkey", "passkey_types::passkey::StoredHmacSecret", "passkey_types::passkey::CredentialExtensions", "passkey_authenticator::CoseKeyPair"]
OUTBOUND = ["passkey_types::ctap2::make_credential::Response", "passkey_types::ctap2::get_assertion::Response", "passkey_types::ctap2::get_info::Response",
            "passkey_types::webauthn::PublicKeyCredential", "passkey_types::webauthn::attestation::AuthenticatorAttestationResponse",
            "passkey_types::webauthn::assertion::AuthenticatorAssertionResponse", "passkey_types::u2f::register::RegisterResponse",
            "passkey_types::u2f::authenticate::AuthenticationResponse", "passkey_types::ctap2::error::StatusCode", "passkey_client::WebauthnError",
            "passkey_types::webauthn::extensions::AuthenticationExtensionsClientOutputs"]


def secret_hits(p, t, acc=None, ctx=""):
    """secret sub-terms of t that are not under a declassifier"""
    if acc is None:
        acc = []
    if isinstance(t, frozenset):
        for x in t:
            secret_hits(p, x, acc, ctx)
        return acc
    if not isinstance(t, tuple) or not t:
        return acc
    k = t[0]
    if k == "gamma" and len(t) == 3:
        # a selection: the branch values flow on; a test that only asks whether a fallible step succeeded
        # (is the key decodable: Some/Ok or not) does not carry the value it guards
        if flow.presence_test(t[1], ("in", "0")) is None:
            secret_hits(p, t[1], acc, ctx)
        for l, v in t[2]:
            secret_hits(p, v, acc, ctx)
        return acc
    if k in ("errpayload",):
        return acc
    if k == "closure" and len(t) == 3:
        # a closure capturing a secret is fine if what it *returns* is declassified: look at its return value
        # with the captures substituted (nested closures are followed the same way)
        if ctx.count(">") < 8:
            r = closure_ret(p, t)
            if r is not None:
                secret_hits(p, r, acc, ctx + ">")
                return acc
        for c in t[2]:
            secret_hits(p, c, acc, ctx)
        return acc
    if k == "residual" or (k == "call" and len(t) == 4 and t[1] == flow.FROM_RESIDUAL) or (k == "field" and len(t) == 3 and t[2] in ("as ErrOrNone", "as Break", "as Err")):
        # the error half of a `?`: only the callee's *error value* flows on; the error types of the workspace
        # (Ctap2Error, StatusCode, U2FError, WebauthnError, CoseError) cannot contain secrets (R5)
        return acc
    if k == "field" and len(t) == 3 and t[2] == "public" and isinstance(t[1], tuple) and t[1] and t[1][0] == "call" and names.is_(t[1][1], "CoseKeyPair::from_secret_key"):
        # the public half of the key pair (R2 shows it is built without the scalar)
        return acc
    if k in ("call", "await") and len(t) == 4 and isinstance(t[1], str):
        n = t[1]
        # declassifiers
        if names.is_(n, "crypto::hmac_sha256") or names.is_(n, "hmac_sha256"):
            for a in t[2][1:]:
                secret_hits(p, a, acc, ctx)
            return acc
        if names.is_(n, "SignerMut::sign") or names.is_(n, "Signer::sign") or names.is_(n, "SignerMut::try_sign") or names.is_(n, "Signer::try_sign"):
            for a in t[2][1:]:
                secret_hits(p, a, acc, ctx)
            return acc
        if n.endswith("::verifying_key") or n.endswith("::public_key") or n.endswith("to_encoded_point"):
            return acc
        # the store receives the secret-bearing record by design
        if names.is_(n, "CredentialStore::save_credential") or names.is_(n, "CredentialStore::update_credential"):
            return acc
        # secret producers
        if names.is_(n, "SecretKey::random") or n.endswith("SecretKey::<C>::random") or n.endswith("::to_bytes") and any(has(a, lambda x: is_call(x, "SecretKey::random") or x == ("param", 1)) for a in t[2]) and "SecretKey" in n:
            acc.append("the private scalar (%s)" % n.rsplit("::", 2)[-2:])
            return acc
        if names.is_(n, "private_key_from_cose_key") or (n.endswith("::from") and "SigningKey" in n):
            acc.append("the signing key (%s)" % n.rsplit("::", 1)[-1])
            return acc
        # workspace callee: a secret argument is harmless if the callee's returned values do not carry that
        # parameter outside a declassifier (one summary per (callee, parameter), memoised)
        if n in p.bodies and k == "call":
            for i, a in enumerate(t[2]):
                h = secret_hits(p, a, [], ctx)
                if h and param_leaks(p, n, i + 1, ctx):
                    acc.extend("%s via argument %d of %s" % (x, i, n.rsplit("::", 1)[-1]) for x in h)
            return acc
    if k == "field" and len(t) == 3:
        name = t[2]
        base = t[1]
        if name == "private" and has(base, lambda x: is_call(x, "CoseKeyPair::from_secret_key")):
            acc.append("CoseKeyPair.private")
            return acc
        if name in ("cred_with_uv", "cred_without_uv"):
            acc.append("StoredHmacSecret." + name)
            return acc
        if name == "hmac_secret" and isinstance(base, tuple) and base and base[0] == "field" and base[2] == "extensions" and base[1] not in (("param", 1), ("upvar", 0)):
            acc.append("Passkey.extensions.hmac_secret")
            return acc
        if name == "credential" and has(base, lambda x: is_call(x, "Authenticator::make_extensions")):
            acc.append("MakeExtensionOutputs.credential (stored PRF secrets)")
            return acc
        if name == "key" and has(base, lambda x: is_call(x, "CredentialStore::find_credentials")) and not has(base, lambda x: isinstance(x, tuple) and len(x) == 3 and x[0] == "field" and x[2] == "attested_credential_data"):
            acc.append("the stored Passkey.key")
            return acc
    if k == "agg" and len(t) == 4 and t[1] in SECRET_TYPES:
        # a secret-bearing record constructed in place
        d = dict(t[3])
        for f, v in d.items():
            if f in ("key", "extensions", "cred_with_uv", "cred_without_uv", "hmac_secret", "private"):
                acc.append("%s{%s}" % (t[1].rsplit("::", 1)[-1], f))
        return acc
    for x in t:
        if isinstance(x, (tuple, frozenset)):
            secret_hits(p, x, acc, ctx)
    return acc


_pl_memo = {}


def param_leaks(p, fn, idx, ctx=""):
    """does parameter `idx` of workspace function `fn` reach one of its returned values outside a declassifier?"""
    key = (fn, idx)
    if key in _pl_memo:
        return _pl_memo[key]
    _pl_memo[key] = True  # recursion guard: pessimistic
    b = p.bodies[fn]
    leak = False
    marker = ("field", ("param", idx), "cred_with_uv")  # stand-in secret: reuse the detector by substitution
    for s, v in ret_values(p, b):
        vv = summary.replace(v, ("param", idx), ("field", ("field", ("param", 99), "extensions"), "hmac_secret"))
        if secret_hits(p, vv, [], ""):
            leak = True
    _pl_memo[key] = leak
    return leak


def ret_values(p, body):
    """(description, term) for every assignment of the return place + the merged return value"""
    T = flow.Terms(p, body)
    out = []
    for s in flow.outcome_sites(body):
        if s["path"] != ():
            continue
        if s.get("idx") is not None:
            v = flow.simplify_term(T._rvalue(s["rv"], s["bb"], s["idx"], 0))
        else:
            v = flow.simplify_term(T._call(s["term"], s["bb"], 0))
        out.append((s, v))
    return out


def run(chk):
    p = core.load_program("all")
    chk.configs = ["all-features"]
    chk.explanation = __doc__
    u2f_trait = [t for t in p.traits.values() if t["path"].endswith("::U2fApi")]
    funcs = []
    for nm in ("make_credential", "get_assertion", "get_info"):
        funcs.append(("Authenticator::" + nm, ceremony(p, nm)))
    for nm in ("register", "authenticate"):
        funcs.append(("Client::" + nm, ceremony(p, nm, adt=CLIENT)))
        if u2f_trait:
            funcs.append(("U2fApi::" + nm, u2f_body(p, nm)))
    for nm in ("make_extensions", "get_extensions", "make_prf", "get_prf"):
        funcs.append(("Authenticator::" + nm, p.method(AUTH, nm)))
    for nm in ("registration_extension_outputs", "auth_extension_outputs"):
        funcs.append(("Client::" + nm, p.method(CLIENT, nm)))
    from .common import hmac_functions
    chs = [b for b in hmac_functions(p) if not any(b is f for _n, f in funcs)]
    chk.require("R1 taint", "R1|hmac-functions", bool(hmac_functions(p)), "passkey_authenticator", "no function calling hmac_sha256 found")
    for b in chs:
        funcs.append((b.path.rsplit("::", 1)[-1], b))
    allowed_secret_returns = {"Authenticator::make_extensions": ("credential",)}
    for nm, b in funcs:
        if not chk.require("R1 taint", "R1|%s" % nm, b, nm, "%s not found" % nm):
            continue
        chk.touched(b)
        hits = []
        n = 0
        for s, v in ret_values(p, b):
            n += 1
            vv = v
            # MakeExtensionOutputs.credential legitimately carries the secrets to the Passkey
            if nm in allowed_secret_returns:
                def strip(t):
                    if isinstance(t, tuple) and len(t) == 4 and t[0] == "agg" and t[1].endswith("MakeExtensionOutputs"):
                        return ("agg", t[1], t[2], tuple((k, x) for k, x in t[3] if k not in allowed_secret_returns[nm]))
                    if isinstance(t, frozenset):
                        return frozenset(strip(x) for x in t)
                    if isinstance(t, tuple):
                        return tuple(strip(x) if isinstance(x, (tuple, frozenset)) else x for x in t)
                    return t
                vv = strip(v)
            for h in secret_hits(p, vv):
                hits.append("%s in the value returned at line %d" % (h, s["line"]))
        chk.ob("R1 taint", "R1|%s|returned-values" % nm, not hits and n > 0, where(b), hits[0] if hits else "%d return sites, no secret outside declassifiers" % n)
    # log arguments anywhere in the workspace
    logs = []
    for b in p.all_bodies:
        if b.crate not in ("passkey_authenticator", "passkey_client", "passkey_types", "passkey_transports"):
            continue
        for bb, t in b.calls():
            c = t.get("callee") or ""
            if c.startswith("log::") or "::log::" in c or c.startswith("std::io::_print") or c.startswith("std::io::_eprint"):
                T = flow.Terms(p, b)
                for a in t["args"]:
                    v = flow.simplify_term(T.operand(a, bb, "t"))
                    for h in secret_hits(p, v):
                        logs.append("%s logged at %s" % (h, where(b, bb)))
    chk.ob("R1 taint", "R1|log-arguments", not logs, "workspace", logs[0] if logs else "no log/print call receives a secret-derived value")
    # where do the secret-bearing values go in make_credential? only into the stored Passkey
    mc = ceremony(p, "make_credential")
    if mc is not None:
        T = flow.Terms(p, mc)
        bad = []
        for bb, t in mc.calls():
            if names.call_is(t, "CredentialStore::save_credential", "CoseKeyPair::from_secret_key", "SecretKey::random"):
                continue
            for a in t["args"]:
                v = flow.simplify_term(T.operand(a, bb, "t"))
                # top-level secret arguments to other calls
                if isinstance(v, tuple) and v and v[0] == "field" and v[2] == "private" and has(v[1], lambda x: is_call(x, "CoseKeyPair::from_secret_key")):
                    bad.append((bb, core.callee_of(t)))
        chk.ob("R1 taint", "R1|make_credential|private-only-to-store", not bad, where(mc, bad[0][0]) if bad else where(mc), "CoseKeyPair.private passed to: %s" % ([short(x[1]) for x in bad] or "the stored Passkey only"))

    # ---------------- R2 / R3
    fsk = p.method("passkey_authenticator::CoseKeyPair", "from_secret_key")
    if chk.require("R2 key split", "R2|from_secret_key", fsk, "CoseKeyPair", "from_secret_key not found"):
        chk.touched(fsk)
        Tk = flow.Terms(p, fsk)
        rt = flow.simplify_term(Tk.place(0, (), fsk.return_blocks()[0], "t"))
        d = dict(rt[3]) if rt[0] == "agg" else {}
        scalar = lambda x: isinstance(x, tuple) and len(x) == 4 and x[0] == "call" and x[1].endswith("to_bytes") and x[2] and x[2][0] == ("param", 1)
        pub, priv = d.get("public"), d.get("private")
        ok = pub is not None and not has(pub, scalar) and find(pub, lambda x: is_call(x, "CoseKeyBuilder::new_ec2_pub_key")) is not None
        chk.ob("R2 key split", "R2|public-has-no-scalar", bool(ok), where(fsk), "public = %s" % (flow.term_str(pub)[:160] if pub else "?"))
        pe = find(priv, lambda x: is_call(x, "CoseKeyBuilder::new_ec2_priv_key")) if priv else None
        ok = pe is not None and len(pe[2]) == 4 and has(pe[2][3], scalar) and not any(has(pe[2][k], scalar) for k in (1, 2))
        chk.ob("R2 key split", "R2|scalar-only-in-d", bool(ok), where(fsk), "scalar reaches only the d argument: %s" % bool(ok))
    if mc is not None:
        T = flow.Terms(p, mc)
        acd = names.calls_to(mc, "AttestedCredentialData::new")
        from .common import saved_passkey
        from . import normal, summary
        Nn = normal.Normalizer(p, summary.Summaries(p))
        pk, _sbb = saved_passkey(p, mc, T, Nn)
        if acd and pk and "key" in pk:
            a = Nn.norm(T.operand(acd[0][1]["args"][2], acd[0][0], "t"))
            k = pk["key"]
            chk.ob("R3 routing", "R3|make_credential", a[0] == "field" and a[2] == "public" and k[0] == "field" and k[2] == "private" and a[1] == k[1], where(mc, acd[0][0]), "attested <- .%s ; stored <- .%s of one key pair" % (a[2] if a[0] == "field" else "?", k[2] if k[0] == "field" else "?"))
    ur = u2f_body(p, "register") if u2f_trait else None
    if chk.require("R3 routing", "R3|U2fApi::register", ur, AUTH, "U2F register not found"):
        chk.touched(ur)
        T = flow.Terms(p, ur)
        rr = find_aggs(ur, "RegisterResponse")
        wr = names.calls_to(ur, "Passkey::wrap_u2f_registration_request")
        ok = False
        wit = ""
        if rr and wr:
            bb, i, rv = rr[0]
            pkv = flow.simplify_term(T.operand(rv["ops"][rv["fields"].index("public_key")], bb, i))
            priv_arg = flow.simplify_term(T.operand(wr[0][1]["args"][3], wr[0][0], "t"))
            ok = not secret_hits(p, pkv) and has(pkv, lambda x: isinstance(x, tuple) and len(x) == 4 and x[0] == "call" and x[1].endswith("to_encoded_point")) and priv_arg[0] == "field" and priv_arg[2] == "private"
            wit = "response.public_key from %s ; stored key = %s" % ("the verifying key's encoded point" if ok else flow.term_str(pkv)[:100], flow.term_str(priv_arg)[:80])
        chk.ob("R3 routing", "R3|U2fApi::register", ok, where(ur), wit or "sites not found")

    # ---------------- R4
    for ty in SECRET_TYPES:
        tn = ty.rsplit("::", 1)[-1]
        impls = [i for i in p.impls if i.get("self_adt") == ty and i.get("trait")]
        tr = {i["trait"].rsplit("::", 1)[-1]: i for i in impls}
        bad = [t for t in ("Debug", "Display", "Serialize", "LowerHex", "UpperHex") if t in tr]
        if tn == "Passkey":
            dbg = tr.get("Debug")
            ok = dbg is not None and not dbg["derived"] and not [t for t in bad if t != "Debug"]
            chk.ob("R4 impl table", "R4|Passkey|hand-written-Debug-only", ok, ty, "formatting/serialising traits on Passkey: %s (Debug derived: %s)" % (bad, dbg["derived"] if dbg else "n/a"))
            fb = p.method(ty, "fmt", trait="core::fmt::Debug")
            if chk.require("R4 impl table", "R4|Passkey|Debug-body", fb, ty, "Debug::fmt for Passkey not found"):
                chk.touched(fb)
                T = flow.Terms(p, fb)
                read = set()
                for bb, blk in enumerate(fb.blocks):
                    for st in blk["stmts"]:
                        if st["k"] == "assign":
                            from .common import place_reads
                            for pj in place_reads(st["rv"]):
                                l, pth = flow.norm_place(pj)
                                if l == 1 and pth:
                                    read.add(".".join(str(x) for x in pth))
                chk.ob("R4 impl table", "R4|Passkey|Debug-fields", read <= {"key.kty", "counter", "key"} and "key" not in read, where(fb), "fields of self read by Debug::fmt: %s (allowed: key.kty, counter)" % sorted(read))
        else:
            chk.ob("R4 impl table", "R4|%s|no-format-traits" % tn, not bad, ty, "formatting/serialising traits implemented: %s" % (bad or "none"))

    # ---------------- R5
    graph = {}
    for path, a in p.adts.items():
        deps = set()
        for v in a["variants"]:
            for f in v["fields"]:
                deps |= set(f["adts"])
        graph[a["path"]] = deps
    def reach(root):
        seen, st = set(), [root]
        while st:
            x = st.pop()
            for y in graph.get(x, ()):
                if y not in seen:
                    seen.add(y)
                    st.append(y)
        return seen
    for r in OUTBOUND:
        if not chk.require("R5 type reachability", "R5|%s" % r.rsplit("::", 2)[-2] + "::" + r.rsplit("::", 1)[-1], r in graph, r, "outbound type %s not found" % r):
            continue
        hit = sorted(x for x in reach(r) if x in SECRET_TYPES or x.endswith("SecretKey") or x.endswith("SigningKey"))
        chk.ob("R5 type reachability", "R5|%s::%s" % tuple(r.rsplit("::", 2)[-2:]), not hit, r, "secret-bearing types containable in %s: %s" % (r.rsplit("::", 1)[-1], hit or "none"))
    chk.floor("R1", 14)
    chk.floor("R2", 2)
    chk.floor("R3", 2)
    chk.floor("R4", 5)
    chk.floor("R5", 11)
    chk.assumptions = ["ciborium::Value / coset::CoseKey built from public parameters carry only those", "Zeroize/ZeroizeOnDrop do not expose their contents"]
