"""C12 — authenticator data binary encoding follows the WebAuthn layout (the decidable parts).

R1 writer layout  : the value term of AuthenticatorData::to_vec is a chain of exactly
                    rp_id_hash[32] | once(flags as u8) | u32::to_be_bytes(counter or default) | flatten(attested credential data) |
                    flatten(cbor(extensions)), and AttestedCredentialData's bytes are aaguid[16] | u16::to_be_bytes(len(id)) | id | COSE key.
R2 reader = writer: from_slice carves 32, 1, 4 bytes in that order with a length guard equal to their sum (37), reads the counter
                    with from_be_bytes; from_reader reads 16, 2 (u16::from_be_bytes), then `len` bytes — the writer's widths, in order.
R3 flags          : bit constants equal the WebAuthn table (UP 01, UV 04, BE 08, BS 10, AT 40, ED 80); the reader uses the
                    rejecting Flags::from_bits; AT is OR-ed exactly by set_attested_credential_data and (on the Some edge) to_vec;
                    ED exactly on the non-empty edge of the two extension setters; the reader parses a section iff its flag is set
                    and propagates its error.
R4 length refusal : AttestedCredentialData::new returns Ok only through the success edge of u16::try_from(len); the id field is
                    private and the only other constructor is from_reader (u16-bounded by type).
Not decided: round-trip equality for all values, behaviour on every truncation inside ciborium/coset.
"""
import re
from . import core, flow, names, intervals, normal, summary

presence_selection = flow.presence_selection
from .framework import where, short, api_name
from .common import find_aggs, term_fields

AD = "passkey_types::ctap2::attestation_fmt::AuthenticatorData"
ACD = "passkey_types::ctap2::attestation_fmt::AttestedCredentialData"
FLAGS = {"UP": 0x01, "UV": 0x04, "BE": 0x08, "BS": 0x10, "AT": 0x40, "ED": 0x80}


def chain_segments(t):
    """ordered segments of a byte-building value (iterator chains and push/extend sequences alike)"""
    return flow.byte_segments(t)


def has(t, pred):
    return flow.term_contains(t, pred)


def find(t, pred):
    for x in _sub(t):
        if pred(x):
            return x
    return None


def is_call(x, pat):
    return isinstance(x, tuple) and len(x) == 4 and x[0] == "call" and isinstance(x[1], str) and names.is_(x[1], pat)


def self_field(t, name):
    return has(t, lambda x: x == ("field", ("param", 1), name))


def field_ty(p, adt, name):
    """the declared member; an array length spelled with a named constant (`[u8; HASH_LEN]`, `[u8; Self::LEN]`) is replaced
    by the constant's value (a constant of the type, or the one constant of that name in the crate)"""
    a = p.adts.get(adt)
    for f in a["variants"][0]["fields"] if a else []:
        if f["name"] == name:
            f = dict(f)
            crate = adt.split("::", 1)[0]

            def val(m):
                nm = m.group(2)
                if m.group(1):
                    v = p.const_bits(p.adts.resolve(adt) + "::" + nm)
                    return str(v) if v is not None else m.group(0)
                cands = {str(k.get("bits")) for path_, k in p.consts.items() if path_.startswith(crate + "::") and path_.rsplit("::", 1)[-1] == nm and k.get("bits") is not None}
                return next(iter(cands)) if len(cands) == 1 else m.group(0)
            f["ty"] = re.sub(r"\b(Self::)?([A-Z][A-Z0-9_]+)\b(?=\])", val, f["ty"])
            return f
    return None


def run(chk):
    p = core.load_program("all")
    chk.configs = ["all-features"]
    chk.explanation = __doc__
    S = summary.Summaries(p)
    tv = p.method(AD, "to_vec")
    fs = p.method(AD, "from_slice")
    fr = p.method(ACD, "from_reader")
    nw = p.method(ACD, "new")
    if not chk.require("R1 writer layout", "R1|anchors", all(x is not None for x in (tv, fs, fr, nw)), AD, "to_vec/from_slice/from_reader/new not all found"):
        return
    for b in (tv, fs, fr, nw):
        chk.touched(b)
    # analysed through their inlined views: private helpers (read_array, set_serialized_extensions ...) are part of them
    from . import inline
    # (the attested-credential-data encoder — whatever it is called: the private function taking the record by value — stays a
    # call in the views and is expanded as a byte-building call where the layout is read)
    def _acd_encoder(cal):
        tys = [(cal.j["locals"][i].get("ty") or "") for i in range(1, cal.j.get("arg_count", 0) + 1)]
        return len(tys) == 1 and tys[0].replace("&", "").strip().endswith("AttestedCredentialData")
    keep12 = (lambda cal: any(names.is_(cal.path, n) for n in ("AttestedCredentialData::from_reader", "AttestedCredentialData::new")) or _acd_encoder(cal),)
    tv, fs, fr, nw = (inline.inlined(p, b, keep=keep12) for b in (tv, fs, fr, nw))

    # ---------------- R1
    S = summary.Summaries(p)
    N = normal.Normalizer(p, S)
    T = flow.Terms(p, tv)
    ret = N.norm(T.place(0, (), tv.return_blocks()[0], "t"))
    segs = chain_segments(ret)
    chk.ob("R1 writer layout", "R1|to_vec|segments", len(segs) == 5, where(tv), "%d segments: %s" % (len(segs), [flow.term_str(s)[:70] if s[0] != "when" else "when %s: %s" % (flow.term_str(s[1])[:40], [flow.term_str(x)[:50] for x in s[3]]) for s in segs]))

    def optional_segment(seg, field):
        """("when", presence test of self.<field> on its Some edge, [content]) -> content, else None"""
        if not (isinstance(seg, tuple) and seg and seg[0] == "when" and len(seg[3]) == 1):
            return None
        if not flow.asserts_ok(seg[1], seg[2], lambda x: x == ("field", ("param", 1), field)):
            return None
        return seg[3][0]
    if len(segs) == 5:
        f0 = field_ty(p, AD, "rp_id_hash")
        chk.ob("R1 writer layout", "R1|to_vec|0 rpIdHash[32]", segs[0] == ("field", ("param", 1), "rp_id_hash") and f0 and f0["ty"] == "[u8; 32]", where(tv),
               "segment 0 = %s : %s" % (flow.term_str(segs[0]), f0["ty"] if f0 else "?"))
        s1 = segs[1]
        ok1 = s1[0] == "array" and len(s1[1]) == 1 and has(s1, lambda x: x == ("field", ("param", 1), "flags"))
        chk.ob("R1 writer layout", "R1|to_vec|1 flags(1)", ok1, where(tv), "segment 1 = %s (one byte: the flags)" % flow.term_str(s1)[:160])
        s2 = segs[2]
        ok2 = is_call(s2, "u32::to_be_bytes")
        if ok2:
            sel, ctr = presence_selection(s2[2][0], lambda x: x == ("field", ("param", 1), "counter"))
            ok2 = set(sel) == {True, False} and sel[True] == ("payload", ctr) and sel[False] in (("default",), ("const", 0))
        chk.ob("R1 writer layout", "R1|to_vec|2 counter be32", ok2, where(tv), "segment 2 = %s" % flow.term_str(s2))
        # the attested credential data: present iff the member is Some, and then its own encoding (a private encoder
        # called here, or written in place — its segments are read either way)
        SELF_ACD = ("payload", ("field", ("param", 1), "attested_credential_data"))
        s3 = segs[3]
        seg2 = []
        ok3 = isinstance(s3, tuple) and s3 and s3[0] == "when" and flow.asserts_ok(s3[1], s3[2], lambda x: x == ("field", ("param", 1), "attested_credential_data"))
        if ok3:
            seg2 = flow.expand_byte_calls(p, N, list(s3[3]))
            ok3 = all(has(x, lambda y: y == SELF_ACD) for x in seg2) and bool(seg2)
        chk.ob("R1 writer layout", "R1|to_vec|3 attested credential data (optional)", ok3, where(tv), "segment 3 = present iff self.attested_credential_data is Some: %s" % ([flow.term_str(x)[:60] for x in seg2] or flow.term_str(segs[3])[:200]))
        c4 = optional_segment(segs[4], "extensions")
        if c4 is not None and isinstance(c4, tuple) and len(c4) == 4 and c4[0] == "call" and c4[1] in p.bodies:
            # the CBOR encoding done by a private helper named where the closure would be: read the helper's own value
            b4 = p.bodies[c4[1]]
            if len(b4.return_blocks()) == 1 and len(c4[2]) == b4.arg_count:
                v4 = N.norm(flow.Terms(p, b4).place(0, (), b4.return_blocks()[0], "t"))
                for k4, a4 in enumerate(c4[2]):
                    v4 = summary.replace(v4, ("param", k4 + 1), a4)
                c4 = flow.simplify_term(v4)
        ok4 = c4 is not None and c4[0] == "upd" and names.is_(c4[1], "ciborium::ser::into_writer") and has(c4[3], lambda x: x == ("payload", ("field", ("param", 1), "extensions"))) and flow.byte_segments(c4[2]) == []
        chk.ob("R1 writer layout", "R1|to_vec|4 extensions cbor (optional)", ok4, where(tv), "segment 4 = present iff self.extensions is Some: %s" % (flow.term_str(c4)[:160] if c4 else flow.term_str(segs[4])[:160]))
    ii = tv
    if not chk.require("R1 writer layout", "R1|acd", "seg2" in dir() or True, where(tv), "to_vec layout not read"):
        return
    seg2 = seg2 if len(segs) == 5 else []
    chk.ob("R1 writer layout", "R1|acd|segments", len(seg2) == 4, where(ii), "%d segments: %s" % (len(seg2), [flow.term_str(s)[:70] for s in seg2]))
    if len(seg2) == 4:
        ag = p.adts.get("passkey_types::ctap2::aaguid::Aaguid")
        agty = ag["variants"][0]["fields"][0]["ty"] if ag else "?"
        # an array length spelled as an associated constant of the type (`[u8; Self::LEN]`, whatever it is called): its value
        agty = re.sub(r"Self::([A-Za-z_][A-Za-z0-9_]*)", lambda m: str(p.const_bits("passkey_types::ctap2::aaguid::Aaguid::" + m.group(1))), agty)
        chk.ob("R1 writer layout", "R1|acd|0 aaguid[16]", seg2[0] == ("field", ("field", SELF_ACD, "aaguid"), "0") and agty == "[u8; 16]", where(ii), "segment 0 = %s : %s" % (flow.term_str(seg2[0]), agty))
        ok = is_call(seg2[1], "u16::to_be_bytes") and has(seg2[1], lambda x: is_call(x, "TryFrom::try_from") or is_call(x, "TryInto::try_into")) and has(seg2[1], lambda x: x == ("field", SELF_ACD, "credential_id")) and has(seg2[1], lambda x: is_call(x, "Vec::len") or is_call(x, "slice::len"))
        chk.ob("R1 writer layout", "R1|acd|1 id length be16", ok, where(ii), "segment 1 = %s" % flow.term_str(seg2[1]))
        chk.ob("R1 writer layout", "R1|acd|2 credential id", seg2[2] == ("field", SELF_ACD, "credential_id"), where(ii), "segment 2 = %s" % flow.term_str(seg2[2]))
        ok = has(seg2[3], lambda x: is_call(x, "CborSerializable::to_vec")) and has(seg2[3], lambda x: x == ("field", SELF_ACD, "key"))
        chk.ob("R1 writer layout", "R1|acd|3 cose key", ok, where(ii), "segment 3 = %s" % flow.term_str(seg2[3]))

    # ---------------- R2
    # which bytes of the input feed which member, as byte-range views (rules/bytesview.py): split_at chains, range
    # indexing, element reads and buffer copies all reduce to (input, lo, hi)
    from . import bytesview
    from .layout import root_of as layout_root
    iv = intervals.Intervals(p, fs)
    Tf = flow.Terms(p, fs)
    Tf.indexed = True
    IN = ("param", 1)
    ags = find_aggs(fs, "AuthenticatorData")
    v_hash = v_flag = v_cnt = v_rest = None
    cnt_order = None
    if chk.require("R2 reader = writer", "R2|from_slice|result", len(ags) == 1, where(fs), "AuthenticatorData construction not found"):
        bb, i, rv = ags[0]
        fld = dict(zip(rv["fields"], rv["ops"]))
        th = N.norm(Tf.operand(fld["rp_id_hash"], bb, i))
        tc = N.norm(Tf.operand(fld["counter"], bb, i))
        tf = N.norm(Tf.operand(fld["flags"], bb, i))
        v_hash = bytesview.closed_view(th)
        fb_ = find(tf, lambda x: is_call(x, "Flags::from_bits") or is_call(x, "TryFrom::try_from") or is_call(x, "TryInto::try_into"))
        if fb_ is not None and fb_[2]:
            v_flag = bytesview.closed_view(fb_[2][-1])
        if isinstance(tc, tuple) and len(tc) == 4 and tc[0] == "agg" and tc[2] == "Some" and len(tc[3]) == 1:
            d = bytesview.int_decode(tc[3][0][1], N)
            if d is not None:
                cnt_order, v_cnt = d
    # the variable part: what the first section reader is given (through a Cursor, or as a `&mut &[u8]` reader)
    order_fs = fs.rpo()
    rdrs = sorted([(b2, t) for b2, t in fs.calls() if names.call_is(t, "AttestedCredentialData::from_reader", "ciborium::de::from_reader")], key=lambda x: order_fs.get(x[0], 10**6))
    curs = [(b2, t) for b2, t in fs.calls() if names.call_is(t, "Cursor::new")]
    if curs or rdrs:
        b2, t = (curs or rdrs)[0]
        rt = N.norm(Tf.operand(t["args"][0], b2, "t"))
        while is_call(rt, "Cursor::new") or (isinstance(rt, tuple) and len(rt) == 4 and rt[0] == "upd"):
            rt = rt[2][0] if rt[0] == "call" else rt[2]
        v_rest = bytesview.closed_view(rt)
    pieces = [v_hash, v_flag, v_cnt]
    widths = [(v[2] - v[1]) if v is not None and v[0] == IN and v[2] is not None else None for v in pieces]
    chk.ob("R2 reader = writer", "R2|from_slice|carving", widths == [32, 1, 4], where(fs), "bytes of the input feeding rp_id_hash, flags, counter: %s (writer widths 32, 1, 4)" % [("%s..%s" % (v[1], v[2]) if v is not None and v[0] == IN else "?") for v in pieces])
    seq = all(v is not None and v[0] == IN for v in pieces) and v_hash[1] == 0 and v_flag[1] == v_hash[2] and v_cnt[1] == v_flag[2] and v_rest is not None and v_rest[0] == IN and v_rest[1] == v_cnt[2] and v_rest[2] is None
    chk.ob("R2 reader = writer", "R2|from_slice|sequential", bool(seq), where(fs), "each piece starts where the previous one ends, and the variable part is everything after the counter: rest = %s" % (("%s.." % v_rest[1]) if v_rest is not None and v_rest[0] == IN else "?"))
    guard = None
    # comparisons that steer a branch (the bounds checks the compiler inserts before an element read are asserts: they panic)
    asserted = set()
    for blk in fs.blocks:
        t = blk.get("term")
        if t and t["k"] == "assert":
            pl = flow.op_place(t["cond"])
            if pl:
                asserted.add(pl[0])
    for l, (op, a, b) in iv.cmp_defs.items():
        if l in asserted:
            continue
        sa, sb = iv.sym(a), iv.sym(b)
        if op in ("Lt", "Le", "Ge", "Gt") and (sa == ("l", 1) or sb == ("l", 1)):
            c = flow.const_bits(b) if sa == ("l", 1) else flow.const_bits(a)
            guard = (op, c, sa == ("l", 1))
    gmin = None
    if guard:
        op, c, len_first = guard
        # `len < c` / `c > len` reject ; accepted minimum length
        gmin = c if (op == "Lt" and len_first) or (op == "Gt" and not len_first) else (c + 1 if (op == "Le" and len_first) or (op == "Ge" and not len_first) else c)
    fixed = v_cnt[2] if v_cnt is not None and v_cnt[0] == IN else None
    if gmin is None and fixed is not None and "th" in dir() and "tc" in dir() and "tf" in dir():
        # no explicit length comparison: the fixed pieces are carved by *checked* operations only (`split_first_chunk`,
        # `first_chunk`, `split_first`, `get` — each present exactly when the bytes are there, their absence an early return;
        # that the early return is an error and not a panic is C15 / R3), so the shortest input that gets through is the end
        # of the last fixed piece
        unchecked = lambda x: (isinstance(x, tuple) and len(x) == 4 and x[0] == "call" and isinstance(x[1], str) and (names.is_(x[1], "slice::split_at") or names.is_(x[1], "Index::index") or names.is_(x[1], "slice::split_at_unchecked") or x[1].endswith("get_unchecked"))) \
            or (isinstance(x, tuple) and x and x[0] in ("elem_at", "subslice_at") and layout_root(x[1]) == IN)
        checked = lambda x: isinstance(x, tuple) and len(x) == 4 and x[0] == "call" and isinstance(x[1], str) and any(names.is_(x[1], n_) for n_ in ("slice::split_first_chunk", "slice::first_chunk", "slice::split_first", "slice::get", "slice::first"))
        if all(has(t_, checked) and not has(t_, unchecked) for t_ in (th, tc, tf)):
            gmin = fixed
    chk.ob("R2 reader = writer", "R2|from_slice|guard=37", gmin == 37 and fixed == 37, where(fs), "length guard accepts len >= %s; fixed part = %s" % (gmin, fixed))
    chk.ob("R2 reader = writer", "R2|from_slice|counter big-endian", cnt_order == "be", where(fs), "counter decoded from its 4 bytes in %s order" % (cnt_order or "an unrecognised"))
    ok = v_hash == (IN, 0, 32) and v_flag == (IN, 32, 33) and v_cnt == (IN, 33, 37)
    chk.ob("R2 reader = writer", "R2|from_slice|pieces", bool(ok), where(fs), "rp_id_hash <- %s, flags <- %s, counter <- %s" % tuple(("input[%s..%s]" % (v[1], v[2]) if v is not None and v[0] == IN else "?") for v in pieces))
    # from_reader: read_exact sizes in order
    ivr = intervals.Intervals(p, fr)
    order = fr.rpo()
    reads = sorted(names.calls_to(fr, "Read::read_exact"), key=lambda x: order.get(x[0], 10**6))
    sizes = []
    Tr = flow.Terms(p, fr)
    Tr.indexed = True
    for bb, t in reads:
        st = ivr.at(bb, "t")
        ln = ivr.len_operand(st, t["args"][1]) if st is not None else None
        sizes.append(ln.exact() if ln is not None and ln.exact() is not None else flow.term_str(flow.simplify_term(Tr.operand(t["args"][1], bb, "t")))[:80])
    # positions in the stream: the fixed-size reads, in order, cover stream bytes [0, 18); the AAGUID is bytes 0..16 and the
    # credential-id length the big-endian value of bytes 16..18 — whether they are read separately or together
    off = 0
    bufs = []      # (buffer term after the read, stream offset, size)
    for (bb, t), sz in zip(reads, sizes):
        if not isinstance(sz, int):
            break
        before = N.norm(Tr.operand(t["args"][1], bb, "t"))
        bufs.append((layout_root(before), off, sz, bb))
        off += sz
    fixed = off

    def stream_range(v):
        """a view into one of the read buffers -> (lo, hi) in stream coordinates"""
        base, lo, hi = v
        r = layout_root(base)
        hits = [(o, s) for rt, o, s, bb in bufs if rt == r and bytesview.known_len(r) == s]
        if len(hits) != 1 or hi is None:
            return None
        return (hits[0][0] + lo, hits[0][0] + hi)
    fe = names.calls_to(fr, "alloc::vec::from_elem")
    dyn_ok = be_ok = False
    if fe:
        n = N.norm(Tr.operand(fe[0][1]["args"][1], fe[0][0], "t"))
        d = bytesview.int_decode(n, N)
        if d is not None:
            be_ok = d[0] == "be"
            dyn_ok = stream_range(d[1]) == (16, 18)
    aa_ok = False
    acd_aggs = find_aggs(fr, "AttestedCredentialData")
    if acd_aggs:
        bb_, i_, rv_ = acd_aggs[0]
        at = N.norm(Tr.operand(rv_["ops"][rv_["fields"].index("aaguid")], bb_, i_))
        while isinstance(at, tuple) and len(at) == 4 and at[0] == "agg" and len(at[3]) == 1:
            at = at[3][0][1]   # the Aaguid newtype
        aa_ok = stream_range(bytesview.closed_view(at)) == (0, 16)
    distinct = len({rt for rt, o, s, bb in bufs}) == len(bufs)
    chk.ob("R2 reader = writer", "R2|from_reader|widths", fixed == 18 and distinct and len(reads) == len(bufs) + 1 and aa_ok and be_ok and dyn_ok, where(fr),
           "fixed-size reads %s cover stream[0..%s]; AAGUID = stream[0..16]: %s; id length = big-endian stream[16..18]: %s / %s; then the id of that length" % (sizes[:len(bufs)], fixed, aa_ok, be_ok, dyn_ok))
    cose = [t for bb, t in fr.calls() if names.call_is(t, "ciborium::de::from_reader")]
    chk.ob("R2 reader = writer", "R2|from_reader|cose-key-last", len(cose) == 1 and all(cose and b2 in fr.reachable(bb) for bb, _ in reads for b2 in [names.calls_to(fr, "ciborium::de::from_reader")[0][0]]) if cose else False, where(fr), "COSE key is read after the three fixed reads")

    # the reader accepts every length the writer can emit: the writer's prefix is any u16 (R4), so no outcome of
    # from_reader may depend on a *test of the decoded length* (or of any other value computed from bytes already read) —
    # the only conditions on its paths are the success or failure of the reads and decodes themselves.
    fr_in = inline.inlined(p, fr) if inline is not None else fr
    val_tests = []
    for o in S.local_outcomes(fr_in):
        for t, l, f_, w in o.conds:
            if isinstance(t, tuple) and t and t[0] == "discr" and isinstance(t[1], tuple) and t[1] and t[1][0] == "try":
                continue
            if flow.term_contains(t, lambda x: isinstance(x, tuple) and len(x) == 4 and x[0] == "call" and (x[1].endswith("::from_be_bytes") or x[1].endswith("::from_le_bytes") or x[1].endswith("::from_ne_bytes"))):
                val_tests.append("%s [%s]" % (flow.term_str(t)[:90], w))
    chk.ob("R2 reader = writer", "R2|from_reader|no-rejection-on-the-decoded-length", not val_tests, where(fr),
           "paths of from_reader decided by a test on the decoded length prefix (the writer emits every u16 length, R4): %s" % sorted(set(val_tests)))

    # ---------------- R3
    for nm, v in FLAGS.items():
        c = p.consts.get("passkey_types::ctap2::flags::Flags::" + nm)
        chk.ob("R3 flags", "R3|bit|%s" % nm, c is not None and c.get("bits") == str(v), "passkey_types::ctap2::flags::Flags::" + nm, "Flags::%s = %s (WebAuthn: 0x%02x)" % (nm, c.get("bits") if c else "missing", v))
    # the flag byte goes through the rejecting constructor — directly or through a workspace conversion that calls it
    fs_closure = [fs] + [b for b in p.call_closure([p.method(AD, "from_slice")]).values() if b.path != fs.path]
    fb = [t for b in fs_closure for bb, t in b.calls() if names.call_is(t, "Flags::from_bits")]
    lax = [core.callee_of(t) for b in fs_closure for bb, t in b.calls() if names.call_is(t, "Flags::from_bits_truncate", "Flags::from_bits_retain")]
    chk.ob("R3 flags", "R3|from_slice|rejecting-from_bits", len(fb) == 1 and not lax, where(fs), "Flags::from_bits: %d, truncating/retaining constructors: %s" % (len(fb), lax))
    tff = p.method("passkey_types::ctap2::flags::Flags", "try_from", trait="core::convert::TryFrom")
    if chk.require("R3 flags", "R3|TryFrom<u8>", tff, "Flags", "TryFrom<u8> for Flags not found"):
        chk.touched(tff)
        fb2 = [t for bb, t in tff.calls() if names.call_is(t, "Flags::from_bits")]
        lax2 = [t for bb, t in tff.calls() if names.call_is(t, "Flags::from_bits_truncate", "Flags::from_bits_retain")]
        chk.ob("R3 flags", "R3|TryFrom<u8>|rejecting", len(fb2) == 1 and not lax2, where(tff), "uses Flags::from_bits")
    # who ORs AT / ED
    def const_flag(t):
        if isinstance(t, tuple) and t and t[0] == "const" and isinstance(t[1], str) and "flags::Flags::" in t[1]:
            return t[1].rsplit("::", 1)[-1]
        return None
    users = {"AT": [], "ED": []}

    def flag_of(o):
        if o and o["k"] == "const" and "flags::Flags::" in (o.get("uneval") or o.get("s") or ""):
            return (o.get("uneval") or o.get("s")).rsplit("::", 1)[-1]
        return None

    for b in p.all_bodies:
        if b.crate != "passkey_types" or "flags.rs" in b.file:
            continue
        for bb, blk in enumerate(b.blocks):
            if blk["cleanup"]:
                continue
            for st in blk["stmts"]:
                if st["k"] == "assign":
                    rv = st["rv"]
                    for o in [rv.get("op"), rv.get("a"), rv.get("b")] + list(rv.get("ops", [])):
                        nm = flag_of(o) if isinstance(o, dict) else None
                        if nm in users:
                            users[nm].append((b, bb))
            t = blk["term"]
            if t and t["k"] == "call" and not names.call_is(t, "Flags::contains", "Flags::intersects"):
                for a in t["args"]:
                    nm = flag_of(a)
                    if nm in users:
                        users[nm].append((b, bb))
    # public anchors (methods of AuthenticatorData reachable from outside) whose call closure ORs the flag:
    # private helpers may be extracted or inlined without changing the verdict
    pub_methods = [b for (adt, trait, name), bs in p.methods.items() if adt == AD and trait is None for b in bs if b.j.get("is_pub")]
    def anchors(flag):
        ub = {b.path for b, bb in users[flag]}
        out = []
        for m in pub_methods:
            cl = p.call_closure([m])
            if any(x.path in ub for x in cl.values()):
                # set_flags itself only ORs what it is given
                out.append(api_name(m))
        return sorted(out)
    at_fns, ed_fns = anchors("AT"), anchors("ED")
    chk.ob("R3 flags", "R3|AT|setters", at_fns == ["AuthenticatorData::set_attested_credential_data", "AuthenticatorData::to_vec"], AD, "public methods through which AT is OR-ed: %s" % at_fns)
    chk.ob("R3 flags", "R3|ED|setters", ed_fns == ["AuthenticatorData::set_assertion_extensions", "AuthenticatorData::set_make_credential_extensions"], AD, "public methods through which ED is OR-ed: %s" % ed_fns)
    # AT in set_attested_credential_data together with storing the data; in to_vec only on the Some edge
    sa = p.method(AD, "set_attested_credential_data")
    if sa is not None:
        chk.touched(sa)
        o = normal.rows(S, sa, N)
        ok = len(o) == 1
        if ok:
            v = N.inline(o[0].value)
            w = v if v[0] == "with" else None
            ups = dict(w[2]) if w else {}
            fl = ups.get(("flags",))
            base, added = flow.flag_delta(fl) if fl is not None else (None, set())
            ok = w is not None and w[1] == ("param", 1) and ups.get(("attested_credential_data",)) == normal.some(("param", 2)) and added == {"AT"} and base == ("field", ("param", 1), "flags") and set(ups) == {("flags",), ("attested_credential_data",)}
        chk.ob("R3 flags", "R3|AT|with-section", ok, where(sa), "set_attested_credential_data = %s" % [flow.term_str(x.value)[:200] for x in o])
    for b, bb in users["AT"]:
        if api_name(b).endswith("to_vec"):
            conds = normal.conditions(N, p, b, bb) or []
            ok = any(flow.asserts_ok(t, l, lambda x: x == ("field", ("param", 1), "attested_credential_data")) for sb, l, t in conds)
            chk.ob("R3 flags", "R3|AT|to_vec-only-when-present", ok, where(b, bb), "the OR with AT is conditioned on attested_credential_data.is_some(): %s" % ok)
    for nm in ("set_make_credential_extensions", "set_assertion_extensions"):
        b = p.method(AD, nm)
        if not chk.require("R3 flags", "R3|ED|%s" % nm, b, AD, "%s not found" % nm):
            continue
        chk.touched(b)
        o = normal.rows(S, b, N)
        # read off the returned value itself: which flags it carries beyond the receiver's, and what its extensions member is
        is_zip = lambda y: isinstance(y, tuple) and len(y) == 4 and y[0] == "call" and y[1].endswith("::zip_contents") and has(y, lambda z: z == ("param", 2))
        is_contents = lambda y: is_zip(y) or (isinstance(y, tuple) and y and y[0] == "gamma" and has(y, is_zip) and flow.is_discr(y[1], ("param", 2)))
        SELF = ("param", 1)
        n_ed = n_plain = 0
        ok = True
        for x in o:
            if x.variant[:1] != ("Ok",):
                continue
            v = N.inline(x.value)
            V = dict(v[3]).get("0") if isinstance(v, tuple) and len(v) == 4 and v[0] == "agg" and v[2] == "Ok" else None
            if V is None:
                ok = False
                continue
            fl = N.norm(("field", V, "flags"))
            ext = N.norm(("field", V, "extensions"))
            base, added = flow.flag_delta(fl)
            while isinstance(base, tuple) and len(base) == 3 and base[0] == "field" and base[2] == "0":
                base = base[1]   # the bits inside the flags newtype (bitflags' generated operators looked through)
            if "ED" in added:
                n_ed += 1
                present = any(flow.asserts_ok(t, l, is_contents) for t, l, fn, w in x.conds)
                wrote = isinstance(ext, tuple) and len(ext) == 4 and ext[0] == "agg" and ext[2] == "Some"
                ok = ok and present and wrote and added == {"ED"} and base == ("field", SELF, "flags")
            else:
                n_plain += 1
                absent = any(flow.asserts_fail(t, l, is_contents) or flow.asserts_fail(t, l, lambda y: y == ("param", 2)) for t, l, fn, w in x.conds)
                unchanged = V == SELF or (not added and base == ("field", SELF, "flags") and ext == ("field", SELF, "extensions"))
                ok = ok and absent and unchanged
        ok = ok and n_ed >= 1 and n_plain >= 1
        chk.ob("R3 flags", "R3|ED|%s|exactly-when-non-empty" % nm, ok, where(b), "rows: %s" % [(x.vstr(), flow.term_str(x.value)[:90], x.cond_strs()[:2]) for x in o][:4])
    # reader: sections parsed iff flag set, errors propagated — read off the decision table of from_slice in normal form
    def flag_tested(t):
        """the flag constant of a `contains(flag)` test: Flags::contains(x, F) or (x & F) == F"""
        if is_call(t, "Flags::contains"):
            fl = [const_flag(x) for x in _sub(t[2][1])]
            return [f for f in fl if f][0] if any(fl) else None
        if isinstance(t, tuple) and t and t[0] == "binop" and t[1] == "Eq":
            for a, b in ((t[2], t[3]), (t[3], t[2])):
                if isinstance(a, tuple) and a and a[0] == "binop" and a[1] == "BitAnd":
                    fa = {const_flag(x) for x in _sub(a)} - {None}
                    fb = {const_flag(x) for x in _sub(b)} - {None}
                    if len(fa) == 1 and fa == fb:
                        return next(iter(fa))
        return None
    readers = {"AT": ("attested_credential_data", lambda x: is_call(x, "AttestedCredentialData::from_reader")), "ED": ("extensions", lambda x: is_call(x, "ciborium::de::from_reader"))}
    rws = normal.rows(S, fs, N, expand=False)
    okrows = [o for o in rws if o.variant[:1] == ("Ok",)]
    errrows = [o for o in rws if o.variant[:1] == ("Err",)]
    secs = {}
    problems = []
    combos = set()
    for o in okrows:
        ad = dict(o.value[3]).get("0")
        fields = dict(ad[3]) if isinstance(ad, tuple) and ad and ad[0] == "agg" else {}
        setflags = {}
        for t, l, f, w in o.conds:
            a, pol = flow.bool_atom(t, l)
            fl = flag_tested(a)
            if fl in readers and pol is not None:
                setflags[fl] = pol
        combos.add((setflags.get("AT"), setflags.get("ED")))
        for fl, (fld, is_reader) in readers.items():
            parsed = any(flow.asserts_ok(t, l, is_reader) for t, l, f, w in o.conds)
            v = fields.get(fld)
            if setflags.get(fl) is True:
                good = parsed and isinstance(v, tuple) and v[:3] == ("agg", "core::option::Option", "Some") and flow.is_payload_of(dict(v[3])["0"], is_reader)
                if good:
                    secs[fl] = fld
                else:
                    problems.append("flag %s set but %s = %s (parsed ok: %s)" % (fl, fld, flow.term_str(v)[:80] if v else "?", parsed))
            elif setflags.get(fl) is False:
                if v != normal.NONE or parsed:
                    problems.append("flag %s clear but %s = %s" % (fl, fld, flow.term_str(v)[:80] if v else "?"))
            else:
                problems.append("an accepting row does not test flag %s" % fl)
    complete = combos == {(True, True), (True, False), (False, True), (False, False)}
    chk.ob("R3 flags", "R3|from_slice|sections-iff-flags", not problems and complete and secs == {"AT": "attested_credential_data", "ED": "extensions"}, where(fs),
           problems[0] if problems else "accepting rows %s: a section is parsed into its member exactly when its flag is set (%s)" % (sorted(combos, key=str), secs))
    prop = {}
    for fl, (fld, is_reader) in readers.items():
        # (which error value is reported is not part of the property: the shipped code maps it to one I/O error)
        prop[fl] = any(any(flow.asserts_fail(t, l, is_reader) for t, l, f, w in o.conds) for o in errrows) and not any(any(flow.asserts_fail(t, l, is_reader) for t, l, f, w in o.conds) for o in okrows)
    chk.ob("R3 flags", "R3|from_slice|section-errors-propagated", all(prop.values()), where(fs), "a failing section reader ends the parse with an error, never with an accepted value: %s" % prop)

    # ---------------- R4
    o = normal.rows(S, nw, N, expand=False)
    oks = [x for x in o if x.variant[:1] == ("Ok",)]
    is_conv = lambda y: (is_call(y, "TryFrom::try_from") or is_call(y, "TryInto::try_into")) and has(y, lambda z: is_call(z, "Vec::len") or is_call(z, "slice::len"))
    ok = len(oks) >= 1 and all(any(flow.asserts_ok(t, l, is_conv) for t, l, fn, w in x.conds) for x in oks)
    u16 = any("u16" in (t.get("callee_full") or "") for bb, t in nw.calls() if names.call_is(t, "TryFrom::try_from", "TryInto::try_into"))
    chk.ob("R4 length refusal", "R4|new|u16-guard", ok and u16, where(nw), "Ok rows: %s" % [x.cond_strs() for x in oks])
    f = field_ty(p, ACD, "credential_id")
    chk.ob("R4 length refusal", "R4|credential_id-private", f is not None and not f["pub"], ACD, "field visibility: %s" % (f["vis"] if f else "?"))
    ctors = []
    for b in p.all_bodies:
        if b.crate != "passkey_types" and not find_aggs(b, "AttestedCredentialData"):
            continue
        if find_aggs(b, "AttestedCredentialData"):
            ctors.append(api_name(p.bodies.get(b.root) or b))  # a closure counts as its enclosing function
    ctors = sorted(set(c for c in ctors if "Clone" not in c and "clone" not in c))
    chk.ob("R4 length refusal", "R4|constructors", ctors == ["AttestedCredentialData::from_reader", "AttestedCredentialData::new"], ACD, "functions constructing AttestedCredentialData: %s" % ctors)
    chk.floor("R1", 10)
    chk.floor("R2", 7)
    chk.floor("R3", 14)
    chk.floor("R4", 3)
    chk.assumptions = ["coset's CoseKey::to_vec / from_cbor_value and ciborium encode/decode one self-delimiting CBOR item", "callers may OR arbitrary flags through the public set_flags (ceremonies pass only the consent flags: C04 R5)"]


def _sub(t):
    yield t
    if isinstance(t, frozenset):
        for x in t:
            yield from _sub(x)
    elif isinstance(t, tuple):
        for x in t:
            if isinstance(x, (tuple, frozenset)):
                yield from _sub(x)
