"""Core of the rule engine: fact loading (with a content-addressed cache),
program model, CFG utilities, await collapse, value-flow slices.

Nothing in here executes code of the analysed repository: it reads the JSON
facts produced by engines/mirfacts (the compiler's own MIR / type tables).
"""
import fcntl
import glob
import hashlib
import json
import os
import shutil
import subprocess
import sys
import tempfile
import time
from collections import defaultdict, deque

VERIF = os.path.dirname(os.path.dirname(os.path.abspath(__file__)))
CACHE = os.path.join(VERIF, ".cache")
DRIVER = os.path.join(VERIF, "engines", "mirfacts", "target", "release", "mirfacts")
RUNNER = os.path.join(VERIF, "engines", "run_mirfacts.sh")

CONFIGS = {
    # name -> extra cargo args
    "all": ["--all-features"],
    "default": [],
}

WORKSPACE_CRATES = [
    "passkey_authenticator",
    "passkey_client",
    "passkey_transports",
    "passkey_types",
    "public_suffix",
]


class ToolFailure(Exception):
    """The analysis could not be run (tree does not build, engine missing)."""


def repo_dir():
    return os.environ.get("VERIF_REPO", "/repo")


def tree_hash(repo):
    """SHA-256 over every source-relevant file of the repo + the engine binary."""
    h = hashlib.sha256()
    files = []
    for root, dirs, fs in os.walk(repo):
        dirs[:] = sorted(d for d in dirs if d not in ("target", ".git", "node_modules"))
        for f in sorted(fs):
            if f.endswith((".rs", ".toml", ".lock", ".dat", ".go", ".json")):
                files.append(os.path.join(root, f))
    for p in files:
        h.update(os.path.relpath(p, repo).encode())
        h.update(b"\0")
        try:
            with open(p, "rb") as fh:
                h.update(hashlib.sha256(fh.read()).digest())
        except OSError:
            pass
    for p in (DRIVER,):
        if os.path.exists(p):
            with open(p, "rb") as fh:
                h.update(hashlib.sha256(fh.read()).digest())
    return h.hexdigest()[:24]


def extract_facts(repo, config="all", force=False):
    """Return directory holding *.mir.json for `repo` under `config`.
    Facts are rebuilt whenever any file of the repo changed (content hash)."""
    if not os.path.exists(DRIVER):
        raise ToolFailure("mirfacts driver not built; run MANIFEST.setup_cmd")
    os.makedirs(CACHE, exist_ok=True)
    key = tree_hash(repo) + "-" + config
    out = os.path.join(CACHE, "facts-" + key)
    lock = open(os.path.join(CACHE, "lock-" + config), "w")
    fcntl.flock(lock, fcntl.LOCK_EX)
    try:
        ok = os.path.exists(os.path.join(out, "DONE"))
        if ok and not (force or os.environ.get("VERIF_NO_CACHE")):
            return out
        if os.path.exists(out):
            shutil.rmtree(out)
        # prune old cache entries (keep disk small)
        olds = sorted(glob.glob(os.path.join(CACHE, "facts-*")), key=os.path.getmtime)
        # (entries are ~30 MB; a reader holds no lock once it has the directory, so keep enough of them that checks of
        # several trees / configurations running side by side do not prune each other's facts)
        for o in olds[:-24]:
            shutil.rmtree(o, ignore_errors=True)
        tmp = out + ".tmp"
        if os.path.exists(tmp):
            shutil.rmtree(tmp)
        t0 = time.time()
        r = subprocess.run([RUNNER, repo, tmp] + CONFIGS[config], capture_output=True, text=True)
        if r.returncode != 0:
            shutil.rmtree(tmp, ignore_errors=True)
            raise ToolFailure("fact extraction failed (does the tree build?):\n" + r.stderr[-4000:])
        names = [os.path.basename(p).split("-")[0] for p in glob.glob(os.path.join(tmp, "*.mir.json"))]
        for c in WORKSPACE_CRATES:
            if c not in names:
                shutil.rmtree(tmp, ignore_errors=True)
                raise ToolFailure("no fact file for crate %s (wrapper skipped?)" % c)
        with open(os.path.join(tmp, "DONE"), "w") as fh:
            fh.write("%.1f\n" % (time.time() - t0))
        os.rename(tmp, out)
        return out
    finally:
        fcntl.flock(lock, fcntl.LOCK_UN)
        lock.close()


# --------------------------------------------------------------------------
# Program model


class Body:
    def __init__(self, j, crate):
        self.j = j
        self.crate = crate
        self.path = j["path"]
        self.id = j.get("id", j["path"])
        self.blocks = j["blocks"]
        self.locals = j["locals"]
        self.arg_count = j["arg_count"]
        self.span = j["span"]
        self.file = self.span["file"]
        self.line = self.span["line"]
        self.root = j.get("root", self.path)
        self.def_kind = j["def_kind"]
        self.is_coroutine = "coroutine_kind" in j
        self.promoted = [Body(p, crate) for p in j.get("promoted", [])]
        self._succ = None
        self._pred = None

    def __repr__(self):
        return "<Body %s>" % self.path

    # ---- naming
    def local_name(self, l):
        return self.locals[l].get("name")

    def local_ty(self, l):
        return self.locals[l]["ty"]

    def locals_named(self, name):
        return [i for i, l in enumerate(self.locals) if l.get("name") == name]

    def where(self, bb=None):
        if bb is None:
            return "%s:%d" % (self.file, self.line)
        t = self.blocks[bb]["term"]
        return "%s:%d" % (self.file, t["line"] if t else self.line)

    # ---- CFG
    def term(self, bb):
        return self.blocks[bb]["term"]

    def succ_edges(self, bb, cleanup=False):
        """List of (label, target) edges of block bb. Unwind edges only if cleanup."""
        t = self.blocks[bb]["term"]
        if t is None:
            return []
        k = t["k"]
        out = []
        if k == "goto":
            out.append(("goto", t["t"]))
        elif k == "switch":
            for v, tg in t["targets"]:
                out.append((v, tg))
            out.append(("otherwise", t["otherwise"]))
        elif k in ("drop", "call", "assert", "falseunwind"):
            if t.get("t") is not None:
                out.append(("ret", t["t"]))
            if cleanup and t.get("unwind") is not None:
                out.append(("unwind", t["unwind"]))
        elif k == "yield":
            out.append(("resume", t["t"]))
            if t.get("drop") is not None:
                out.append(("drop", t["drop"]))
        elif k == "falseedge":
            out.append(("ret", t["t"]))
        return out

    def succs(self, bb, cleanup=False):
        return [t for _, t in self.succ_edges(bb, cleanup)]

    def preds(self):
        if self._pred is None:
            p = defaultdict(list)
            for b in range(len(self.blocks)):
                for s in self.succs(b):
                    p[s].append(b)
            self._pred = p
        return self._pred

    def reachable(self, start, removed_blocks=(), removed_edges=(), follow_yield_drop=True):
        """Blocks reachable from `start` (block ids iterable or int) avoiding removed blocks/edges."""
        if isinstance(start, int):
            start = [start]
        removed_blocks = set(removed_blocks)
        removed_edges = set(removed_edges)
        seen = set()
        dq = deque(b for b in start if b not in removed_blocks)
        seen.update(dq)
        while dq:
            b = dq.popleft()
            for lab, s in self.succ_edges(b):
                if not follow_yield_drop and lab == "drop":
                    continue
                if s in removed_blocks or (b, s) in removed_edges or s in seen:
                    continue
                seen.add(s)
                dq.append(s)
        return seen

    def return_blocks(self):
        return [i for i, b in enumerate(self.blocks) if b["term"] and b["term"]["k"] == "return" and not b["cleanup"]]

    def calls(self):
        """Yield (bb, term) for every Call terminator in non-cleanup blocks."""
        for i, b in enumerate(self.blocks):
            t = b["term"]
            if t and t["k"] == "call" and not b["cleanup"]:
                yield i, t

    def yields(self):
        return [i for i, b in enumerate(self.blocks) if b["term"] and b["term"]["k"] == "yield"]

    def stmts(self):
        for i, b in enumerate(self.blocks):
            if b["cleanup"]:
                continue
            for s in b["stmts"]:
                yield i, s

    def rpo(self):
        """reverse post-order rank of the blocks reachable from the entry (execution order for loop-free code)"""
        seen, post = set(), []
        stack = [(0, iter(self.succs(0)))]
        seen.add(0)
        while stack:
            b, it = stack[-1]
            adv = False
            for s in it:
                if s is not None and s not in seen and not self.blocks[s]["cleanup"]:
                    seen.add(s)
                    stack.append((s, iter(self.succs(s))))
                    adv = True
                    break
            if not adv:
                post.append(b)
                stack.pop()
        return {b: i for i, b in enumerate(reversed(post))}

    def dominators(self):
        """Immediate-dominator-free simple dominator sets (blocks are few hundred)."""
        n = len(self.blocks)
        preds = self.preds()
        reach = self.reachable(0)
        order = [b for b in range(n) if b in reach]
        dom = {b: set(order) for b in order}
        dom[0] = {0}
        changed = True
        while changed:
            changed = False
            for b in order:
                if b == 0:
                    continue
                ps = [p for p in preds[b] if p in dom]
                if not ps:
                    continue
                new = set.intersection(*(dom[p] for p in ps)) | {b}
                if new != dom[b]:
                    dom[b] = new
                    changed = True
        return dom


def callee_of(t):
    """Best name of the called item: resolved instance when available."""
    return t.get("resolved") or t.get("callee") or ""


def callee_names(t):
    """All names under which the call is known (declared callee and resolved instance)."""
    return {x for x in (t.get("callee"), t.get("resolved")) if x}


def names_strip(s):
    from . import names as _n
    return _n.strip_generics(s)


class _MovedDict(dict):
    """items by definition path; a path that does not exist (the item was moved to another module of its crate) resolves to
    the unique item of the same crate whose trailing identifiers agree — `tail` identifiers are compared (1 for types and
    free items, 2 for associated constants `Type::NAME`)"""

    def __init__(self, tail=1):
        super().__init__()
        self.tail = tail
        self._memo = {}

    def _resolve(self, k):
        if not isinstance(k, str) or dict.__contains__(self, k):
            return k
        if k in self._memo:
            return self._memo[k]
        segs = k.split("::")
        crate = segs[0]
        for n in sorted({self.tail, 1}, reverse=True):
            if len(segs) <= n:
                continue
            if n == 2 and not segs[-2][:1].isupper():
                continue
            tail = segs[-n:]
            hits = [p for p in dict.keys(self) if p.split("::")[0] == crate and p.split("::")[-n:] == tail and "#" not in p]
            if len(hits) == 1:
                self._memo[k] = hits[0]
                return hits[0]
        self._memo[k] = k
        return k

    def get(self, k, d=None):
        return dict.get(self, self._resolve(k), d)

    def __getitem__(self, k):
        return dict.__getitem__(self, self._resolve(k))

    def __contains__(self, k):
        return dict.__contains__(self, self._resolve(k))

    def resolve(self, k):
        return self._resolve(k)


class Program:
    def __init__(self, factdir, config="all"):
        self.factdir = factdir
        self.config = config
        self.crates = {}
        self.bodies = {}
        self.all_bodies = []
        self.by_id = {}
        self.adts_by_id = {}
        self.adts = _MovedDict(tail=1)
        self.impls = []
        self.consts = _MovedDict(tail=2)
        self.traits = {}
        self.reachable_items = set()
        for p in sorted(glob.glob(os.path.join(factdir, "*.mir.json"))):
            with open(p) as fh:
                d = json.load(fh)
            c = d["crate"]
            if c not in WORKSPACE_CRATES:
                continue
            self.crates[c] = d
            for b in d["bodies"]:
                body = Body(b, c)
                self.all_bodies.append(body)
                self.by_id[body.id] = body
                # items of different anonymous `const _` blocks print the same path: keep all, suffix later ones
                k = body.path
                n = 1
                while k in self.bodies:
                    n += 1
                    k = "%s#%d" % (body.path, n)
                if n > 1:
                    body.path_unique = k
                self.bodies[k] = body
            for a in d["adts"]:
                k = a["path"]
                n = 1
                while k in self.adts:
                    n += 1
                    k = "%s#%d" % (a["path"], n)
                self.adts[k] = a
                self.adts_by_id[a.get("id", k)] = a
            for i in d["impls"]:
                i["crate"] = c
                self.impls.append(i)
            for k in d["consts"]:
                self.consts[k["path"]] = k
            for t in d["traits"]:
                self.traits[t["path"]] = t
            self.reachable_items.update(d["reachable"])
        self._callers = None
        # index of methods by (self ADT, trait-or-None, method name): rules never
        # mention private module paths.
        self.methods = defaultdict(list)
        for b in self.all_bodies:
            ri = b.j.get("root_item")
            if ri and b.path == b.root and "impl" in ri:
                name = b.path.rsplit("::", 1)[-1]
                self.methods[(ri["impl"].get("self_adt"), ri["impl"].get("trait"), name)].append(b)

    def method(self, self_adt, name, trait=None, self_ty_contains=None):
        """Unique method body by ADT / trait / name (fail closed: None if absent or ambiguous)."""
        c = self.methods.get((self_adt, trait, name), [])
        if not c and isinstance(self_adt, str):
            # the type's definition was moved to another module of its crate
            c = self.methods.get((self.adts.resolve(self_adt), trait, name), [])
        if self_ty_contains is not None:
            c = [b for b in c if self_ty_contains in b.j["root_item"]["impl"]["self_ty"]]
        if not c and trait is None and name in getattr(self, "role_bodies", {}):
            # a private helper that was renamed or moved: found by its role (rules/roles.py)
            return self.role_bodies[name]
        return c[0] if len(c) == 1 else None

    def methods_named(self, self_adt, name, trait=None):
        return list(self.methods.get((self_adt, trait, name), []))

    def async_body(self, fn_body):
        """The coroutine holding the real code of an async fn (async_trait boxes it too)."""
        if fn_body is None:
            return None
        return self.by_id.get(fn_body.id + "::{closure#0}") or self.bodies.get(fn_body.path + "::{closure#0}")

    def body(self, path):
        return self.bodies.get(path)

    def find_bodies(self, pred):
        return [b for b in self.bodies.values() if pred(b)]

    def bodies_with_suffix(self, suffix):
        return [b for p, b in self.bodies.items() if p.endswith(suffix)]

    def coroutine_of(self, path):
        """Body of the async block of fn `path` (the `{closure#0}` of an async fn)."""
        return self.bodies.get(path + "::{closure#0}")

    def children(self, path):
        """Closures / coroutines nested directly in `path`."""
        return [b for p, b in self.bodies.items() if p.startswith(path + "::{closure#") and "::" not in p[len(path) + 2 + 9:].replace("}", "", 1)]

    def nested(self, path):
        """All bodies nested (transitively) inside `path`, including itself."""
        return [b for p, b in self.bodies.items() if p == path or p.startswith(path + "::{")]

    def nested_of(self, body):
        """`body` and every closure / coroutine constructed (transitively) in its blocks — also correct for an
        inlined view, whose blocks may construct closures of the inlined helpers"""
        out, seen, work = [], set(), [body]
        while work:
            b = work.pop()
            if id(b) in seen:
                continue
            seen.add(id(b))
            out.append(b)
            for blk in b.blocks:
                for s in blk["stmts"]:
                    if s["k"] == "assign" and s["rv"]["k"] == "agg" and s["rv"].get("ak") in ("closure", "coroutine", "coroutine_closure"):
                        nb = self.by_id.get(s["rv"].get("def_id")) or self.bodies.get(s["rv"].get("def"))
                        if nb is not None and id(nb) not in seen:
                            work.append(nb)
        return out

    def const_bits(self, path):
        c = self.consts.get(path)
        if c is None or "bits" not in c:
            return None
        return int(c["bits"])

    def impls_of(self, trait=None, self_adt=None):
        out = []
        for i in self.impls:
            if trait is not None and i.get("trait") != trait:
                continue
            if self_adt is not None and i.get("self_adt") != self_adt:
                continue
            out.append(i)
        return out

    # ---- call graph
    def callees(self, body):
        out = []
        for bb, t in body.calls():
            out.append((bb, t))
        return out

    def local_callee_bodies(self, t):
        """Workspace bodies a call may enter (resolved or declared)."""
        out = []
        for n in (t.get("resolved_id"), t.get("callee_id")):
            if n and n in self.by_id:
                b = self.by_id[n]
                if b not in out:
                    out.append(b)
        return out

    def instantiated_callee_bodies(self, t):
        """Workspace bodies entered *inside* a generic workspace callee because of this call's type arguments: the facts are
        read from generic MIR, where `x.into()` on a type parameter is an unresolved trait call; at a call site that fixes the
        parameter (`f::<u8>(..)`) the call resolves to an impl (`From<u8> for Target`).  One level, conversions and inherent
        trait methods of workspace types."""
        ga = [g for g in (t.get("gargs") or []) if g and not g.startswith("'")]
        ck = (t.get("resolved_id"), t.get("callee_id"), tuple(ga))
        cache = self.__dict__.setdefault("_inst_cache", {})
        if ck in cache:
            return cache[ck]
        out = cache[ck] = []
        if not ga:
            return out
        for g in self.local_callee_bodies(t):
            gp = [x for x in (g.j.get("generics") or []) if x and not x.startswith("'")]
            if not gp or len(gp) > len(ga):
                continue
            sub_ = dict(zip(gp, ga[len(ga) - len(gp):]))
            for nb in self.nested(g.path) if hasattr(self, "nested") else [g]:
                for bb2, t2 in nb.calls():
                    it = t2.get("callee_item") or {}
                    g2 = [x for x in (t2.get("gargs") or []) if x and not x.startswith("'")]
                    if it.get("container") != "trait" or not g2 or g2[0] not in sub_:
                        continue
                    self_ty = sub_[g2[0]]
                    tr, meth = it.get("trait") or "", (t2.get("callee") or "").rsplit("::", 1)[-1]
                    if tr.endswith("convert::Into") and meth == "into" and len(g2) >= 2:
                        want = [(names_strip(g2[1]), "core::convert::From", "from", self_ty)]
                    elif tr.endswith("convert::TryInto") and meth == "try_into" and len(g2) >= 2:
                        want = [(names_strip(g2[1]), "core::convert::TryFrom", "try_from", self_ty)]
                    else:
                        want = [(names_strip(self_ty), tr, meth, None)]
                    for adt, tr_, m_, argty in want:
                        for b2 in self.methods.get((adt, tr_, m_), []):
                            if argty is not None and (b2.j["locals"][1].get("ty") or "").replace(" ", "") != argty.replace(" ", ""):
                                continue
                            if b2 not in out:
                                out.append(b2)
        return out

    def closure_defs_in(self, body):
        """def paths of closures/coroutines constructed in `body`."""
        out = []
        for bb, s in body.stmts():
            if s["k"] == "assign" and s["rv"]["k"] == "agg" and s["rv"].get("ak") in ("closure", "coroutine", "coroutine_closure"):
                b = self.by_id.get(s["rv"].get("def_id"))
                out.append(b.path if b is not None else s["rv"]["def"])
        return out

    def call_closure(self, roots, stop=lambda b: False):
        """Transitive closure over: calls to workspace bodies + closures constructed."""
        seen = {}
        dq = deque()
        for r in roots:
            b = r if isinstance(r, Body) else self.bodies.get(r)
            if b is not None and b.path not in seen:
                seen[b.path] = b
                dq.append(b)
        while dq:
            b = dq.popleft()
            if stop(b):
                continue
            nxt = []
            for bb, t in b.calls():
                nxt.extend(self.local_callee_bodies(t))
                nxt.extend(self.instantiated_callee_bodies(t))
            for bb2, s2 in b.stmts():
                if s2["k"] == "assign" and s2["rv"]["k"] == "agg" and s2["rv"].get("ak") in ("closure", "coroutine", "coroutine_closure"):
                    cb2 = self.by_id.get(s2["rv"].get("def_id")) or self.bodies.get(s2["rv"]["def"])
                    if cb2 is not None:
                        nxt.append(cb2)
            for p in b.promoted:
                pass
            for n in nxt:
                k = getattr(n, "path_unique", n.path)
                if k not in seen:
                    seen[k] = n
                    dq.append(n)
        return seen


_PROGRAMS = {}


def load_program(config="all", force=False):
    """facts of /repo's tree under a feature configuration; VERIF_CONFIG overrides the configuration a rule module asks
    for (used by the thorough tier to re-run the same rules on the default-features build)"""
    config = os.environ.get("VERIF_CONFIG") or config
    repo = repo_dir()
    key = (repo, config)
    if key not in _PROGRAMS or force:
        d = extract_facts(repo, config, force=force)
        _PROGRAMS[key] = Program(d, config)
        _PROGRAMS[key].role_bodies = {}
        try:
            from . import roles as _roles
            _PROGRAMS[key].roles_installed = _roles.install(_PROGRAMS[key])
        except Exception as e:  # never let the alias helper break a check: unresolved roles fail closed in the rules
            _PROGRAMS[key].roles_installed = {"error": repr(e)}
        # discriminant values of the workspace's own enums, for deciding switches on known aggregates
        from . import flow as _flow
        for path, a in _PROGRAMS[key].adts.items():
            tab = {v["name"]: str(v["discr"]) for v in a.get("variants", []) if v.get("discr") is not None}
            if len(tab) > 1:
                _flow.WORKSPACE_DISCR[path] = tab
    return _PROGRAMS[key]


# --------------------------------------------------------------------------
# Rendering (diagnostics)


def op_str(o):
    if o is None:
        return "?"
    k = o["k"]
    if k in ("copy", "move"):
        return ("move " if k == "move" else "") + o["place"]["s"]
    if k == "const":
        return o["s"]
    return o.get("s", "?")


def rv_str(rv):
    k = rv["k"]
    if k == "use":
        return op_str(rv["op"])
    if k == "ref":
        return ("&mut " if rv["mut"] else "&") + rv["place"]["s"]
    if k == "cast":
        return "%s as %s (%s)" % (op_str(rv["op"]), rv["ty"], rv["ck"])
    if k == "binop":
        return "%s(%s, %s)" % (rv["op"], op_str(rv["a"]), op_str(rv["b"]))
    if k == "unop":
        return "%s(%s)" % (rv["op"], op_str(rv["a"]))
    if k == "discr":
        return "discriminant(%s)" % rv["place"]["s"]
    if k == "agg":
        ak = rv["ak"]
        ops = ", ".join(op_str(o) for o in rv["ops"])
        if ak == "adt":
            fs = rv.get("fields", [])
            if len(fs) == len(rv["ops"]):
                ops = ", ".join("%s: %s" % (f, op_str(o)) for f, o in zip(fs, rv["ops"]))
            return "%s::%s { %s }" % (rv["adt"], rv["variant"], ops)
        if ak in ("closure", "coroutine", "coroutine_closure"):
            return "%s[%s](%s)" % (ak, rv["def"], ops)
        return "%s(%s)" % (ak, ops)
    if k in ("copyforderef", "rawptr"):
        return "%s(%s)" % (k, rv["place"]["s"])
    if k == "repeat":
        return "[%s; %s]" % (op_str(rv["op"]), rv["n"])
    return rv.get("s", k)


def term_str(t):
    if t is None:
        return "<none>"
    k = t["k"]
    if k == "call":
        return "%s = %s(%s) -> bb%s  [resolved: %s]" % (
            t["dest"]["s"], t.get("callee_full") or op_str(t["func"]), ", ".join(op_str(a) for a in t["args"]), t["t"], t.get("resolved"))
    if k == "switch":
        return "switchInt(%s) -> [%s, otherwise: bb%s]" % (op_str(t["op"]), ", ".join("%s: bb%s" % (v, b) for v, b in t["targets"]), t["otherwise"])
    if k == "goto":
        return "goto bb%s" % t["t"]
    if k == "drop":
        return "drop(%s) -> bb%s" % (t["place"]["s"], t["t"])
    if k == "assert":
        m = t["msg"]
        return "assert(%s == %s, %s %s) -> bb%s" % (op_str(t["cond"]), t["expected"], m["kind"], {x: op_str(v) if isinstance(v, dict) else v for x, v in m.items() if x != "kind"}, t["t"])
    if k == "yield":
        return "yield(%s) -> [resume: bb%s, drop: bb%s]" % (op_str(t["value"]), t["t"], t["drop"])
    if k in ("falseedge", "falseunwind"):
        return "%s -> bb%s" % (k, t["t"])
    return k


def dump_body(b, out=sys.stdout, cleanup=False):
    out.write("fn %s  [%s:%d] args=%d\n" % (b.path, b.file, b.line, b.arg_count))
    for i, l in enumerate(b.locals):
        if l.get("name") or i <= b.arg_count:
            out.write("  let _%d: %s  // %s\n" % (i, l["ty"], l.get("name", "")))
    for i, blk in enumerate(b.blocks):
        if blk["cleanup"] and not cleanup:
            continue
        out.write(" bb%d%s:\n" % (i, " (cleanup)" if blk["cleanup"] else ""))
        for s in blk["stmts"]:
            if s["k"] == "assign":
                out.write("    %s = %s;   // L%d\n" % (s["place"]["s"], rv_str(s["rv"]), s["line"]))
            elif s["k"] == "setdiscr":
                out.write("    discriminant(%s) = %s\n" % (s["place"]["s"], s["vi"]))
        t = blk["term"]
        out.write("    %s   // L%s\n" % (term_str(t), t["line"] if t else "?"))
    for i, p in enumerate(b.promoted):
        out.write(" promoted[%d]:\n" % i)
        for blk in p.blocks:
            for s in blk["stmts"]:
                if s["k"] == "assign":
                    out.write("    %s = %s;\n" % (s["place"]["s"], rv_str(s["rv"])))
