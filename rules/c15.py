"""C15 — decoders of untrusted input never crash or allocate out of proportion.

Scope: the workspace-local call closure (resolved call graph + closures) of every public decoder entry point:
all `Deserialize` / `Visitor` / `DeserializeSeed` impl methods of the workspace, the byte/str `TryFrom`/`From` conversions of
the wire types, and the named decoders (AuthenticatorData::from_slice, U2F Request::try_from, ChannelHandler::handle_packet,
public_key_der_from_cose_key, valid_fingerprint, the public-suffix lookups, RpIdVerifier, base64 helpers).

P1 panic sites : every MIR `Assert` (bounds, overflow, division) and every call to a partial std function
                 (unwrap/expect, panic!/unreachable!, slice/str indexing, split_at, copy_from_slice, GenericArray::from_slice,
                 Vec::remove/drain/..) in scope must be discharged by the interval analysis (A10: dominating length guards,
                 split_at/const-range carving, exact-length conversions, clamps), by the C10(b) table facts (generic table
                 lookups), or by one row of tables/panic_allow.json (function + callee + count + reason).
P2 allocations : the size argument of with_capacity / vec![_; n] / reserve is bounded (≤ 2^20 by intervals, e.g. u16-typed or
                 min-clamped) or is the length of data already held; a declared length (size_hint) without clamp is a violation.
P3 work        : no sequence loop deserialises elements through an impl that absorbs *every* error (end of input included).
P4 recursion   : no cycle in the workspace call graph reachable from a decoder.
Third-party internals (ciborium, serde_json, coset, url, idna, data-encoding, p256) are trusted.
"""
import json
import os
import re

from . import core, flow, names, intervals
from .framework import where, short, api_name, VERIF
from .intervals import Iv, INF

ALLOC_CAP = 1 << 20

PARTIAL = {
    "unwrap": ("Option::unwrap", "Option::expect", "Result::unwrap", "Result::expect", "Result::unwrap_err", "Result::expect_err"),
    "panic": ("core::panicking::panic", "core::panicking::panic_fmt", "core::panicking::panic_display", "core::panicking::unreachable_display",
              "core::panicking::panic_explicit", "core::panicking::assert_failed", "core::option::unwrap_failed", "core::option::expect_failed",
              "core::result::unwrap_failed", "core::intrinsics::unreachable", "core::hint::unreachable_unchecked", "core::panicking::panic_nounwind"),
    "index": ("Index::index", "IndexMut::index_mut"),
    "split_at": ("slice::split_at", "slice::split_at_mut", "str::split_at", "str::split_at_mut"),
    "copy": ("slice::copy_from_slice", "slice::clone_from_slice"),
    "garray": ("GenericArray::from_slice", "GenericArray::clone_from_slice", "GenericArray::from_mut_slice"),
    "vecop": ("Vec::remove", "Vec::insert", "Vec::swap_remove", "Vec::drain", "Vec::split_off", "VecDeque::remove", "String::remove", "String::insert",
              "slice::chunks", "slice::chunks_exact", "slice::windows", "Iterator::step_by", "RefCell::borrow", "RefCell::borrow_mut", "slice::swap",
              "slice::rotate_left", "slice::rotate_right", "char::from_digit", "String::drain", "String::split_off", "slice::copy_within"),
    "alloc": ("Vec::with_capacity", "alloc::vec::from_elem", "Vec::reserve", "Vec::reserve_exact", "Vec::resize", "String::with_capacity", "String::reserve",
              "VecDeque::with_capacity", "HashMap::with_capacity", "Vec::resize_with", "alloc::raw_vec::RawVec::with_capacity"),
}
ASSERT_KINDS = ("BoundsCheck", "Overflow", "DivisionByZero", "RemainderByZero", "OverflowNeg")
CONST_KINDS = ("Const", "AssocConst", "AnonConst", "InlineConst", "Static")

DECODER_TRAITS = ("Deserialize", "Visitor", "DeserializeSeed")
NAMED_ENTRIES = [
    # (adt last ident or None, trait last ident or None, fn name)
    ("AuthenticatorData", None, "from_slice"),
    ("AttestedCredentialData", None, "from_reader"),
    ("Request", "TryFrom", "try_from"),
    ("RegisterRequest", "TryFrom", "try_from"),
    ("AuthenticationRequest", None, "try_from"),
    ("ChannelHandler", None, "handle_packet"),
    ("Bytes", "TryFrom", "try_from"),
    ("HmacSecretSaltOrOutput", "TryFrom", "try_from"),
    ("ListProvider", None, "public_suffix"),
    ("ListProvider", None, "is_effective_tld"),
    ("ListProvider", "EffectiveTLDProvider", "effective_tld_plus_one"),
    ("RpIdVerifier", None, "assert_domain"),
    ("RpIdVerifier", None, "is_valid_rp_id"),
    ("UnverifiedAssetLink", None, "new"),
    ("Aaguid", "TryFrom", "try_from"),
    ("Aaguid", "From", "from"),
    ("StatusCode", "From", "from"),
    ("Command", "From", "from"),
    ("AuthenticationParameter", "From", "from"),
    ("Command", "TryFrom", "try_from"),
    ("Flags", "TryFrom", "try_from"),
    ("PacketHeader", "TryFrom", "try_from"),
    ("InitHeader", "TryFrom", "try_from"),
    ("ContHeader", "From", "from"),
    ("Message", None, "extend"),
    ("Message", None, "init"),
]
NAMED_FREE = ["public_key_der_from_cose_key", "private_key_from_cose_key", "valid_fingerprint", "try_from_base64url", "try_from_base64", "decode_host"]


def entry_points(p):
    out = {}
    for (adt, trait, name), bodies in p.methods.items():
        tl = trait.rsplit("::", 1)[-1] if trait else None
        al = adt.rsplit("::", 1)[-1] if adt else None
        for b in bodies:
            if "mock" in b.file or "user_validation.rs" in b.file:
                continue
            if tl in DECODER_TRAITS:
                out[b.path] = b
            for (a2, t2, n2) in NAMED_ENTRIES:
                if al == a2 and tl == t2 and name == n2:
                    out[b.path] = b
    # impl methods on non-ADT self types (e.g. TryFrom<&[u8]> for wire types are ADT; but From<u8> ...) handled above
    for path, b in p.bodies.items():
        if b.path != b.root:
            continue
        last = path.rsplit("::", 1)[-1]
        if last in NAMED_FREE and b.def_kind == "Fn":
            out[path] = b
        ri = b.j.get("root_item")
        if ri and "impl" in ri:
            tr = ri["impl"].get("trait")
            tl = tr.rsplit("::", 1)[-1] if tr else None
            if tl in DECODER_TRAITS and "user_validation.rs" not in b.file:
                out[path] = b
    return out


def load_allow():
    with open(os.path.join(VERIF, "tables", "panic_allow.json")) as fh:
        return json.load(fh)["rows"]


def site_kind(t):
    for k, pats in PARTIAL.items():
        if names.call_is(t, *pats):
            return k
    return None


def type_of_operand(body, op):
    if op["k"] == "const":
        return op.get("ty", "")
    pl = op["place"]
    if not pl["p"]:
        return body.local_ty(pl["l"])
    last = pl["p"][-1]
    if last["k"] == "field":
        return last.get("ty", "")
    return ""


def is_len_derived(body, du, op, depth=0):
    """is the integer operand the length of data already held? (len()/PtrMetadata through copies, min/+const)"""
    pl = flow.op_place(op)
    if not pl or pl[1] != () or depth > 6:
        return False
    d = du.single_def(pl[0])
    if d is None:
        return False
    if d[0] == "call":
        if names.call_is(d[4], *intervals.LEN_CALLS):
            return True
        if names.call_is(d[4], "core::cmp::min", "Ord::min"):
            return any(is_len_derived(body, du, a, depth + 1) for a in d[4]["args"])
        return False
    rv = d[4]
    if rv["k"] == "unop" and rv["op"] == "PtrMetadata":
        return True
    if rv["k"] in ("use", "cast"):
        return is_len_derived(body, du, rv["op"], depth + 1)
    return False


def run(chk):
    p = core.load_program("all")
    chk.configs = ["all-features"]
    chk.explanation = __doc__
    entries = entry_points(p)
    chk.require("P1 panic sites", "P1|entries", len(entries) >= 21, "workspace", "only %d decoder entry points found" % len(entries))
    scope = p.call_closure(list(entries.values()))
    # mockall / test doubles are not decoders
    scope = {k: b for k, b in scope.items() if "user_validation.rs" not in b.file and "/mock.rs" not in b.file}
    chk.extra["entry_points"] = len(entries)
    chk.extra["bodies_in_scope"] = len(scope)
    allow = load_allow()
    allow_used = {}
    open_sites = []

    def allowed(fn, what, own=None, chain=()):
        for i, r in enumerate(allow):
            if (r["fn"] in (fn, own) or r["fn"] in chain) and r["site"] == what:
                allow_used[i] = allow_used.get(i, 0) + 1
                if allow_used[i] <= r.get("max", 1):
                    return r
        return None

    # A10 one-level caller preconditions for private functions: length / range facts that every call site establishes
    iv_cache = {}

    def intervals_of(b, init=None):
        if init is None:
            if b.path not in iv_cache:
                iv_cache[b.path] = intervals.Intervals(p, b)
            return iv_cache[b.path]
        return intervals.Intervals(p, b, init=init)

    callers = {}
    for cb in p.bodies.values():
        for bb, t in cb.calls():
            for n in core.callee_names(t):
                if n in p.bodies:
                    callers.setdefault(n, []).append((cb, bb, t))

    INDEX_FINDERS = ("str::rfind", "str::find", "Iterator::position", "Iterator::rposition", "slice::binary_search")
    OPTION_APPLIERS = ("Option::map_or", "Option::map", "Option::map_or_else", "Option::and_then", "Option::is_some_and", "Option::filter", "Option::is_none_or", "Option::inspect")

    def closure_init(b):
        """a closure handed to an Option adaptor whose receiver is the result of an index search (`s.rfind(c).map_or(0, |i| i + 1)`):
        its argument is an index into held data, so it is below the data's length <= isize::MAX"""
        eb = p.bodies.get(b.root)
        if eb is None or b.arg_count != 2:
            return None, None
        du = flow.DefUse(eb)
        clos = [flow.norm_place(s["place"])[0] for bb, s in eb.stmts() if s["k"] == "assign" and s["rv"]["k"] == "agg" and s["rv"].get("def") == b.path and not flow.norm_place(s["place"])[1]]
        sites = []
        for bb, t in eb.calls():
            for a in t["args"]:
                pl = flow.op_place(a)
                if pl and pl[1] == () and any(pl[0] == cl or cl in du.trace_copy(pl[0]) for cl in clos):
                    sites.append((bb, t))
        if len(sites) != 1 or not names.call_is(sites[0][1], *OPTION_APPLIERS):
            return None, None
        rp = flow.op_place(sites[0][1]["args"][0])
        src = None
        for l in ([rp[0]] + list(du.trace_copy(rp[0]))) if rp and rp[1] == () else []:
            d = du.single_def(l)
            if d and d[0] == "call" and names.call_is(d[4], *INDEX_FINDERS):
                src = d[4]
        if src is None:
            # the receiver is a parameter of the (private) enclosing function and every call site passes an index-search result
            if rp and rp[1] == ():
                for l in [rp[0]] + list(du.trace_copy(rp[0])):
                    if 1 <= l <= eb.arg_count:
                        init_eb, _d = caller_init(eb)
                        if init_eb and ("i", l, str(("v", "Some")), "0") in init_eb:
                            return {("i", 2): init_eb[("i", l, str(("v", "Some")), "0")]}, "argument is the payload of parameter %d of %s, an index-search result at every call site" % (l, api_name(eb))
            return None, None
        return {("i", 2): Iv(0, intervals.LEN_MAX - 1)}, "argument is the index found by %s (< length <= isize::MAX)" % short(core.callee_of(src))

    def caller_init(b):
        if b.path != b.root and b.def_kind == "Closure":
            return closure_init(b)
        if b.j.get("is_pub", True) or b.path != b.root or b.def_kind not in ("Fn", "AssocFn"):
            return None, None
        sites = callers.get(b.path, [])
        if not sites:
            return None, None
        init = {}
        desc = []
        for i in range(1, b.arg_count + 1):
            li = None
            ii = None
            for cb, bb, t in sites:
                civ = intervals_of(cb)
                st = civ.at(bb, "t")
                if st is None or i - 1 >= len(t["args"]):
                    continue
                a = t["args"][i - 1]
                l2, i2 = civ.len_operand(st, a), civ.iv_operand(st, a)
                li = l2 if li is None else li.join(l2)
                ii = i2 if ii is None else ii.join(i2)
            if li is not None and (li.lo > 0 or li.hi < intervals.LEN_MAX):
                init[("l", i)] = li
                desc.append("len(arg%d) in %s" % (i, li))
            if b.local_ty(i).replace(" ", "") in ("core::option::Option<usize>", "Option<usize>"):
                # an optional index: when every call site passes the result of an index search, the payload is an index into
                # held data (< length <= isize::MAX)
                all_found = bool(sites)
                for cb, bb, t in sites:
                    if i - 1 >= len(t["args"]):
                        all_found = False
                        break
                    pl_ = flow.op_place(t["args"][i - 1])
                    cdu = flow.DefUse(cb)
                    srcs = ([pl_[0]] + list(cdu.trace_copy(pl_[0]))) if pl_ and pl_[1] == () else []
                    if not any((cdu.single_def(l_) or (None,))[0] == "call" and names.call_is(cdu.single_def(l_)[4], *INDEX_FINDERS) for l_ in srcs):
                        all_found = False
                        break
                if all_found:
                    init[("i", i, str(("v", "Some")), "0")] = Iv(0, intervals.LEN_MAX - 1)
                    desc.append("arg%d is the result of an index search" % i)
            if ii is not None and ii.lo != -INF and ii.hi != INF:
                init[("i", i)] = ii
        return (init or None), ("; ".join(desc) + " at all %d call sites" % len(sites) if desc else None)

    # C10(b) facts make the generic table lookups safe: import lazily to share one implementation
    table_ok = None
    n_sites = 0
    from . import inline

    def attribute_to(b):
        """the function a site is reported under: closures count as their enclosing function, and a crate-private helper
        with a single caller counts as that caller — so extracting a block into a helper (or a closure into a fn) does not
        move an allow-listed or known site to a new name"""
        seen = set()
        while b is not None and b.path not in seen:
            seen.add(b.path)
            if b.path != b.root:
                nb = p.bodies.get(b.root)
                if nb is None:
                    break
                b = nb
                continue
            if inline.default_policy(p, b):
                cs = {cb.root for cb, bb, t in callers.get(b.path, [])}
                if len(cs) == 1:
                    nb = p.bodies.get(next(iter(cs)))
                    if nb is not None:
                        b = nb
                        continue
            break
        return b

    def eval_site(b, iv, du, fn, init_desc, generic_table, bb, t, kind, own=None, chain=()):
        """decide one partial-operation site of body `b` (a function body or an inlined view) under the interval state `iv`;
        -> (rule, what, ok, witness) or None when the block is unreachable"""
        nonlocal table_ok
        own_name = own or api_name(b)
        st = iv.at(bb, "t")
        if st is None:
            return None  # unreachable block
        ok = False
        wit = ""
        what = kind if kind.startswith("assert") else names.strip_generics(t.get("callee") or "?").replace("core::", "").replace("alloc::", "")
        rule = "P2 allocation sites" if kind == "alloc" else "P1 panic sites"
        if kind.startswith("assert:BoundsCheck"):
            i_iv = iv.iv_operand(st, t["msg"]["index"])
            l_iv = iv.iv_operand(st, t["msg"]["len"])
            ok = i_iv.hi < l_iv.lo
            wit = "index %s < len %s" % (i_iv, l_iv)
            if not ok and iv.rel_holds(st, "lt", iv.sym(t["msg"]["index"]), iv.sym(t["msg"]["len"])):
                ok = True
                wit += " (relational: index < len by dominating comparison/subtraction)"
        elif kind.startswith("assert:Overflow"):
            a, b2 = t["msg"]["a"], t["msg"]["b"]
            ia, ib = iv.iv_operand(st, a), iv.iv_operand(st, b2)
            op = t["msg"]["op"]
            ty = type_of_operand(b, a)
            r = intervals.ty_range(ty) or Iv(0, 2**64 - 1)
            if op == "Add":
                res = Iv(ia.lo + ib.lo, ia.hi + ib.hi)
                ok = res.hi <= r.hi
            elif op == "Sub":
                res = Iv(ia.lo - ib.hi, ia.hi - ib.lo)
                ok = res.lo >= r.lo or iv.rel_holds(st, "le", iv.sym(b2), iv.sym(a))
            elif op == "Mul":
                res = Iv(ia.lo * ib.lo, ia.hi * ib.hi if INF not in (ia.hi, ib.hi) else INF)
                ok = res.hi <= r.hi
            elif op in ("Shl", "Shr"):
                bits = {255: 8, 65535: 16, 2**32 - 1: 32, 2**64 - 1: 64}.get(r.hi, 64)
                res = ib
                ok = ib.hi < bits and ib.lo >= 0
            else:
                res = None
            wit = "%s(%s, %s) within %s: %s" % (op, ia, ib, ty, ok)
        elif kind.startswith("assert:DivisionByZero") or kind.startswith("assert:RemainderByZero"):
            # the assert condition is `divisor == 0` (expected false)
            pl = flow.op_place(t["cond"])
            cd = iv.cmp_defs.get(pl[0]) if pl and pl[1] == () else None
            ia = Iv(-INF, INF)
            if cd and cd[0] == "Eq":
                ia = iv.iv_operand(st, cd[1])
                if flow.const_bits(cd[1]) == 0:
                    ia = iv.iv_operand(st, cd[2])
            ok = ia.lo > 0 or ia.hi < 0
            wit = "divisor %s" % (ia,)
        elif kind == "split_at":
            s = iv.len_operand(st, t["args"][0])
            k = iv.iv_operand(st, t["args"][1])
            ok = k.hi <= s.lo
            wit = "split_at(%s) on a slice of length %s" % (k, s)
            if not ok:
                rt = iv.root(t["args"][0])
                if rt and iv.rel_holds(st, "le", iv.sym(t["args"][1]), ("l",) + rt):
                    ok = True
                    wit += " (relational: the cut is <= the length, e.g. a min with it)"
        elif kind == "index":
            s = iv.len_operand(st, t["args"][0])
            r = iv.range_of(st, t["args"][1]) if len(t["args"]) > 1 else None
            recv_ty = type_of_operand(b, t["args"][0])
            if r is not None:
                rk, a, e = r
                if rk == "full":
                    ok = True
                elif rk == "range":
                    ok = a.hi <= e.lo and e.hi <= s.lo
                    if not ok and a.hi <= e.lo:
                        # end <= length of the receiver by a dominating comparison (`if end <= data.len() { &data[a..end] }`)
                        rt = iv.root(t["args"][0])
                        pl = flow.op_place(t["args"][1])
                        d = du.single_def(pl[0]) if pl and pl[1] == () else None
                        if rt and d and d[0] == "assign" and d[4]["k"] == "agg" and d[4]["ops"]:
                            ok = iv.rel_holds(st, "le", iv.sym(d[4]["ops"][-1]), ("l",) + rt)
                            if ok:
                                wit_rel = True
                elif rk == "to":
                    ok = e.hi <= s.lo
                    if not ok:
                        # end symbol <= length symbol of the receiver
                        rt = iv.root(t["args"][0])
                        pl = flow.op_place(t["args"][1])
                        d = du.single_def(pl[0]) if pl and pl[1] == () else None
                        if rt and d and d[0] == "assign" and d[4]["k"] == "agg" and d[4]["ops"]:
                            ok = iv.rel_holds(st, "le", iv.sym(d[4]["ops"][-1]), ("l",) + rt)
                elif rk == "from":
                    ok = a.hi <= s.lo
                wit = "range %s %s..%s on length %s" % (rk, a, e, s)
                if ok and "str" in recv_ty and rk != "full":
                    # a str is cut at character boundaries only: in bounds is not enough.  0 and the string's own length are
                    # boundaries; anything else (a found index, a clamp) needs its own argument — an allow row or C10
                    def boundary(iv_b):
                        return iv_b.exact() == 0
                    b_ok = True
                    if rk in ("range", "from"):
                        b_ok = b_ok and boundary(a)
                    if rk in ("range", "to"):
                        b_ok = b_ok and (boundary(e) or (e.exact() is not None and e.exact() == s.exact()))
                    if not b_ok:
                        ok = False
                        wit += " — in bounds, but a str may only be cut at a character boundary and nothing shows this index is one"
                    else:
                        wit += " (str: cut at 0 / its own length)"
            else:
                ity = type_of_operand(b, t["args"][1]) if len(t["args"]) > 1 else ""
                if ity.strip() == "usize":
                    i_iv = iv.iv_operand(st, t["args"][1])
                    ok = i_iv.hi < s.lo
                    wit = "index %s on length %s" % (i_iv, s)
                else:
                    wit = "indexing %s by %s is not understood" % (recv_ty, ity)
        elif kind == "copy":
            d, s = iv.len_operand(st, t["args"][0]), iv.len_operand(st, t["args"][1])
            ok = d.exact() is not None and d.exact() == s.exact()
            wit = "copy_from_slice dst %s src %s" % (d, s)
        elif kind == "unwrap":
            # infallible conversions: try_into of an exact-length slice into [T; N]
            pl = flow.op_place(t["args"][0])
            d = du.single_def(pl[0]) if pl and pl[1] == () else None
            if d and d[0] == "call" and names.call_is(d[4], "TryInto::try_into", "TryFrom::try_from"):
                n = None
                m = re.search(r"Result<\[[^;\]]*; (\d+)\]", b.local_ty(pl[0]))
                if m:
                    n = int(m.group(1))
                st2 = iv.at(d[1], "t")
                s = iv.len_operand(st2, d[4]["args"][0]) if st2 is not None else Iv(0, INF)
                ok = n is not None and s.exact() == n
                wit = "try_into::<[_; %s]> of a slice of length %s" % (n, s)
            else:
                wit = "unwrap/expect of %s" % (short(core.callee_of(d[4])) if d and d[0] == "call" else "a non-call value")
        elif kind == "alloc":
            arg = t["args"][-1] if names.call_is(t, "alloc::vec::from_elem") else (t["args"][-1] if t["args"] else None)
            if names.call_is(t, "Vec::resize", "Vec::resize_with"):
                arg = t["args"][1]
            n = iv.iv_operand(st, arg) if arg else Iv(0, INF)
            held = is_len_derived(b, du, arg) if arg else False
            ok = n.hi <= ALLOC_CAP or held
            wit = "allocation size %s%s (cap %d)" % (n, " = length of held data" if held else "", ALLOC_CAP)
            if not ok:
                og = flow.Origins(p)
                at = flow.atoms_summary(og.of_operand(b, arg)) if arg else []
                wit += "; size derives from %s — a short input declaring a huge length makes the decoder reserve that much" % at
        elif kind == "vecop" and names.call_is(t, "slice::chunks", "slice::chunks_exact", "slice::windows", "Iterator::step_by") and len(t["args"]) == 2:
            # these panic only for a size of zero
            n_ = iv.iv_operand(st, t["args"][1])
            ok = n_.lo >= 1
            wit = "chunk / window / step size %s (must be non-zero)" % (n_,)
        elif kind in ("panic", "garray", "vecop"):
            wit = "unconditional partial operation"
        if not ok and generic_table and (kind.startswith("assert") or kind == "index"):
            # lookups in the generated table: discharged by C10(b) (index ranges, widths <= 32, ASCII text, sorted siblings)
            if table_ok is None:
                from . import c10
                table_ok = c10.table_facts_hold(p)
            if table_ok[0]:
                r = allowed(fn, what, own_name, chain)
                if r is not None:
                    ok = True
                    wit = "discharged by C10(b) table facts + allow row: " + r["reason"]
        if not ok:
            r = allowed(fn, what, own_name, chain)
            if r is not None:
                ok = True
                wit = "allow row: %s (%s)" % (r["reason"], wit)
        if ok and init_desc and not wit.startswith("allow row"):
            wit += " [caller precondition: %s]" % init_desc
        return rule, what, ok, wit

    view_cache = {}

    def via_callers(hb, hbb, kind, generic_table):
        """the site (block hbb of private helper hb) evaluated in the inlined views of all non-private scope bodies that
        contain a copy of it; -> witness text when every reachable copy is discharged (and no plain call to the helper is
        left anywhere), else None"""
        n_copies, wits = 0, []
        for path_ in sorted(scope):
            eb = scope[path_]
            if eb.path == eb.root and inline.default_policy(p, eb):
                continue
            if path_ not in view_cache:
                v_ = inline.inlined(p, eb)
                view_cache[path_] = (v_, intervals.Intervals(p, v_) if v_ is not None and getattr(v_, "inlined_callees", None) else None)
            v_, iv_ = view_cache[path_]
            if v_ is None:
                continue
            if any(x is hb or x.path == hb.path for bb_, t_ in (v_ if iv_ is not None else eb).calls() for x in p.local_callee_bodies(t_)):
                return None   # still a call somewhere (recursion / depth bound): no per-call-site view of it
            if iv_ is None:
                continue
            efn = api_name(attribute_to(eb))
            for bb2, blk2 in enumerate(v_.blocks):
                if blk2.get("from") != hb.path or blk2.get("from_bb") != hbb or blk2.get("dead") or blk2["cleanup"]:
                    continue
                t2 = blk2["term"]
                if not t2:
                    continue
                # the functions this copy was inlined through, innermost first: an allow row of any of them covers it
                ch_ = tuple(api_name(p.bodies[x]) for x in reversed(blk2.get("chain") or []) if x in p.bodies and x != hb.path)
                r2 = eval_site(v_, iv_, iv_.du, ch_[0] if ch_ else efn, None, generic_table, bb2, t2, kind, own=api_name(hb), chain=ch_)
                if r2 is None:
                    continue
                n_copies += 1
                if not r2[2]:
                    return None
                wits.append((ch_[0] if ch_ else efn, r2[3], where(v_, bb2)))
        if not n_copies:
            return None
        return wits

    for path in sorted(scope):
        b = scope[path]
        if b.def_kind in CONST_KINDS or any(k in b.j.get("def_kind", "") for k in CONST_KINDS):
            continue

        sites = []
        for bb, blk in enumerate(b.blocks):
            if blk["cleanup"]:
                continue
            t = blk["term"]
            if not t:
                continue
            if t["k"] == "assert" and t["msg"]["kind"] in ASSERT_KINDS:
                sites.append((bb, t, "assert:" + t["msg"]["kind"] + (":" + t["msg"]["op"] if "op" in t["msg"] else "")))
            elif t["k"] == "call":
                k = site_kind(t)
                if k:
                    sites.append((bb, t, k))
        if not sites:
            continue
        chk.touched(b)
        init, init_desc = caller_init(b)
        iv = intervals_of(b, init)
        du = iv.du
        fn = api_name(attribute_to(b))
        generic_table = "public-suffix" in b.file
        for bb, t, kind in sites:
            n_sites += 1
            res_ = eval_site(b, iv, du, fn, init_desc, generic_table, bb, t, kind)
            if res_ is None:
                continue
            rule, what, ok, wit = res_
            if not ok and b.path == b.root and inline.default_policy(p, b):
                # a crate-private helper: the site is decided where the helper is used — in the inlined view of every
                # exported function (or closure) that reaches it, with the arguments of each call
                fb = via_callers(b, bb, kind, generic_table)
                if fb is not None:
                    # one obligation per use: the site belongs to the function that uses the helper
                    for ufn_, uwit_, uwhere_ in fb:
                        chk.ob(rule, "%s|%s|%s" % (rule.split()[0], ufn_, what), True, uwhere_, "%s [in private helper %s, decided with this call's arguments]" % (uwit_, api_name(b)))
                    continue
            key = "%s|%s|%s" % (rule.split()[0], fn, what)
            chk.ob(rule, key, ok, where(b, bb), wit + ("" if ok else " — reachable from a public decoder: %s" % entry_of(p, entries, b)))
            if not ok:
                open_sites.append((b, key))
    chk.extra["sites"] = n_sites
    # A site that stays open (a finding, known or new) is keyed by the function it sits in.  Every *other* decoder in scope
    # that calls that function is a further way to reach it — a different input, hence a different finding: one obligation
    # per (caller, open site).  On a tree where nothing calls a function with an open site the rule has no instances.
    for ob_, key_ in open_sites:
        for path_ in sorted(scope):
            cb_ = scope[path_]
            if cb_.root == ob_.root:
                continue
            for bb_, t_ in cb_.calls():
                if any(x is ob_ or x.path == ob_.path for x in p.local_callee_bodies(t_) + p.instantiated_callee_bodies(t_)):
                    chk.ob("P1 panic sites", "P1-reach|%s|%s" % (api_name(cb_), key_.split("|", 1)[1]), False, where(cb_, bb_),
                           "calls %s, which has an open panic site (%s): every input that gets here with an argument outside that function's domain crashes the decoder — reachable from %s" % (api_name(ob_), key_, entry_of(p, entries, cb_)))
    # unused allow rows are reported (stale table), not failed
    for i, r in enumerate(allow):
        if i not in allow_used:
            chk.note("allow row unused on this tree: %s | %s" % (r["fn"], r["site"]))

    # ---------------- P3
    absorbing = []
    for (adt, trait, name), bodies in p.methods.items():
        if trait and trait.rsplit("::", 1)[-1] == "Deserialize" and name == "deserialize":
            for b in bodies:
                if b.path not in scope:
                    continue
                outs = flow.outcome_sites(b)
                kinds = {o["kind"] for o in outs if o["path"] == ()}
                inner = [t for bb, t in b.calls() if names.call_is(t, "Deserialize::deserialize")]
                if inner and kinds and kinds <= {"Ok"} and not any(o["kind"] in ("residual", "call", "use") for o in outs):
                    absorbing.append(b)
    n_loops = 0
    for path in sorted(scope):
        b = scope[path]
        for bb, t in b.calls():
            if names.call_is(t, "SeqAccess::next_element", "SeqAccess::next_element_seed", "MapAccess::next_value", "MapAccess::next_entry"):
                # inside a loop?
                in_loop = bb in b.reachable(b.succs(bb))
                if not in_loop:
                    continue
                n_loops += 1
                elem = " ".join(t.get("gargs", []))
                bad = [a for a in absorbing if (a.j["root_item"]["impl"].get("self_adt") or "?").rsplit("::", 1)[-1] in elem]
                chk.touched(b)
                # the key names the construct by what does not change under a rename of private types: a visitor declared
                # inside a function is "that function's visitor", an element wrapper that absorbs errors is "absorbing-element"
                sadt = (b.j.get("root_item") or {}).get("impl", {}).get("self_adt") or ""
                encl = sadt.rsplit("::", 1)[0] if sadt else ""
                site_name = "%s::%s" % (encl.rsplit("::", 1)[-1], b.root.rsplit("::", 1)[-1]) if encl in p.bodies else api_name(b)
                chk.ob("P3 work sites", "P3|%s|%s" % (site_name, "absorbing-element" if bad else (names.last_ident(elem.split(",")[0]) if elem else "?")), not bad, where(b, bb),
                       ("element type %s deserialises through %s, which maps every error (end of input included) to a value: the loop runs once per *declared* element "
                        "(31-byte getInfo with a truncated list header declaring 2^32 entries)" % (elem, api_name(bad[0]))) if bad else "element errors are propagated by `?`: the loop ends at the first failing element")
    chk.require("P3 work sites", "P3|loops", n_loops >= 2, "workspace", "expected >= 2 sequence element loops in scope, found %d" % n_loops)

    # ---------------- P4
    cyc = []
    for path, b in scope.items():
        for bb, t in b.calls():
            for tb in p.local_callee_bodies(t):
                if tb.path in scope and b.path in p.call_closure([tb]):
                    cyc.append((b, bb, tb))
    seen = set()
    cyc2 = []
    for b, bb, tb in cyc:
        k = (b.root, tb.root)
        if k not in seen:
            seen.add(k)
            cyc2.append((b, bb, tb))
    # a binary-search / trie walk loop is iteration, not recursion; only call-graph cycles count
    chk.ob("P4 recursion", "P4|call-graph-acyclic", not cyc2, where(cyc2[0][0], cyc2[0][1]) if cyc2 else "decoder scope",
           "call-graph cycles in decoder scope: %s" % [(api_name(b), api_name(tb)) for b, bb, tb in cyc2[:5]] if cyc2 else "no cycle among %d bodies" % len(scope))
    # vacuity guard, not a census: 67 sites on the pinned tree; rewriting indexing as slice patterns / `get` legitimately removes
    # sites, so the floor sits well below (the entry-point and scope counts above guard the decoders themselves)
    chk.floor("P1", 40)
    chk.floor("P2", 3)
    chk.floor("P3", 2)
    chk.floor("P4", 1)
    chk.assumptions = ["64-bit target (usize = u64) for overflow reasoning on lengths", "third-party decoders bound their own recursion and allocation",
                       "CPU time beyond declared-length loops is not decided"]


def entry_of(p, entries, b):
    for e in entries.values():
        if b.path in p.call_closure([e]):
            return api_name(e)
    return "?"
