"""C19 — shared-store concurrency never reuses a counter or loses a credential (partial).

R1 lock discipline : each method of the four lock-wrapper `impl CredentialStore` blocks acquires its lock exactly once
                     (Mutex::lock / RwLock::read / RwLock::write), mutators acquire exclusively, the guard is the receiver of
                     exactly one delegated call to the same trait method, and the method suspends nowhere else.
R2 no lock across user interaction : no local of a guard type exists in any ceremony body (so no guard can be live at a
                     suspension point of a ceremony); hence lock acquisitions are never nested across ceremonies: no deadlock
                     by lock order (modulo tokio's fairness and non re-entrant user stores).
R3 one exclusive store call per registration : make_credential performs exactly one store mutation (save_credential), once.
R4 read-modify-write atomicity : a value read from the store and written back must not cross a foreign suspension point
                     between read and write.  (Violated by get_assertion's counter: recorded known finding.)
This decides structure only; it does not explore schedules.
"""
import re

from . import core, flow, names
from .framework import where, short, api_name
from .common import AUTH, CLIENT, ceremony, forward_taint

ACQ = {"Mutex::lock": "exclusive", "RwLock::write": "exclusive", "RwLock::read": "shared"}
GUARD_TYPES = ("MutexGuard", "RwLockReadGuard", "RwLockWriteGuard", "OwnedMutexGuard", "OwnedRwLock")
MUTATORS = ("save_credential", "update_credential")


def tidy(self_ty):
    return re.sub(r"\b[a-z_0-9]+::", "", self_ty)


def run(chk):
    p = core.load_program("all")
    chk.configs = ["all-features"]
    chk.explanation = __doc__
    strait = [t for t in p.traits.values() if t["path"].startswith("passkey_authenticator::") and t["path"].endswith("::CredentialStore")]
    if not chk.require("R1 lock discipline", "R1|trait", len(strait) == 1, "passkey_authenticator", "trait CredentialStore not found"):
        return
    tpath = strait[0]["path"]
    wrappers = [im for im in p.impls_of(trait=tpath) if "tokio::sync" in im["self_ty"]]
    nwrap = 4 if p.config != "default" else 0  # the wrappers are gated by the `tokio` feature
    chk.require("R1 lock discipline", "R1|wrappers", len(wrappers) == nwrap or (nwrap == 0 and not wrappers), tpath, "expected %d lock-wrapper impls, found %d" % (nwrap, len(wrappers)))
    for im in wrappers:
        st = tidy(im["self_ty"])
        for item in im["items"]:
            if item["kind"] != "AssocFn":
                continue
            m = item["name"]
            fnb = p.bodies.get(item["def"])
            co = p.async_body(fnb)
            if not chk.require("R1 lock discipline", "R1|%s::%s" % (st, m), co, im["def"], "async body of %s missing" % m):
                continue
            chk.touched(co)
            acq = [(bb, t, k) for bb, t in co.calls() for k in ACQ if names.call_is(t, k)]
            aws = flow.awaits(co)
            inner = names.calls_to(co, "CredentialStore::" + m)
            other_ws = [t for bb, t in co.calls() if names.call_is(t, *("CredentialStore::" + x for x in ("find_credentials", "save_credential", "update_credential", "get_info"))) and not names.call_is(t, "CredentialStore::" + m)]
            problems = []
            if len(acq) != 1:
                problems.append("%d lock acquisitions (expected exactly 1): %s" % (len(acq), [k for _, _, k in acq]))
            if len(inner) != 1 or other_ws:
                problems.append("delegated calls: %d to %s, others %s" % (len(inner), m, [short(core.callee_of(t)) for t in other_ws]))
            if acq and m in MUTATORS and ACQ[acq[0][2]] != "exclusive":
                problems.append("mutator %s takes a shared lock (%s)" % (m, acq[0][2]))
            # guard is the receiver of the inner call
            if len(acq) == 1 and len(inner) == 1:
                abb, at, ak = acq[0]
                a_lock = [a for a in aws if a.call_bb == abb]
                ibb, it = inner[0]
                if not a_lock or a_lock[0].payload is None:
                    problems.append("lock future is not awaited directly")
                else:
                    guard = a_lock[0].payload
                    tainted = forward_taint(co, {guard}) | {guard}
                    recv = flow.op_place(it["args"][0])
                    if not (recv and recv[0] in tainted):
                        problems.append("receiver of the delegated call does not derive from the guard")
                    gty = co.local_ty(guard)
                    if not any(g in gty for g in GUARD_TYPES):
                        problems.append("awaited lock result has type %s (not a guard)" % gty)
                # suspension points: exactly the lock await and the delegated await
                extra = [a for a in aws if a.call_bb not in (abb, ibb)]
                if extra or len(aws) != 2:
                    problems.append("suspension points besides lock+delegate: %s" % [short(a.callee() or "?") for a in extra])
                # order: acquisition dominates the delegated call
                if ibb in co.reachable(0, removed_blocks=[abb]):
                    problems.append("delegated call reachable without passing the acquisition")
            chk.ob("R1 lock discipline", "R1|%s::%s" % (st, m), not problems, where(co),
                   "; ".join(problems) if problems else "1 acquisition (%s, %s), guard -> single delegated %s, 2 suspension points" % (acq[0][2], ACQ[acq[0][2]], m))

    # ---------------- R2
    cer = []
    for nm in ("make_credential", "get_assertion", "check_user", "get_info"):
        b = ceremony(p, nm)
        if b is not None:
            cer.append(b)
    for nm in ("register", "authenticate"):
        b = ceremony(p, nm, adt=CLIENT)
        if b is not None:
            cer.append(b)
    chk.require("R2 no lock across user interaction", "R2|ceremonies", len(cer) >= 5, AUTH, "ceremony bodies not found (%d)" % len(cer))
    for b in cer:
        chk.touched(b)
        guards = [(i, l["ty"]) for i, l in enumerate(b.locals) if any(g in l["ty"] for g in GUARD_TYPES)]
        direct = [short(core.callee_of(t)) for bb, t in b.calls() if names.call_is(t, *ACQ)]
        chk.ob("R2 no lock across user interaction", "R2|%s" % api_name(b), not guards and not direct, where(b),
               "guard-typed locals: %s; direct lock acquisitions: %s; %d suspension points" % (guards or "none", direct or "none", len(b.yields())))

    # ---------------- R3
    mc = ceremony(p, "make_credential")
    if mc is not None:
        muts = [(bb, t) for bb, t in mc.calls() if names.call_is(t, "CredentialStore::save_credential", "CredentialStore::update_credential", "Authenticator::store_mut")]
        saves = [x for x in muts if names.call_is(x[1], "CredentialStore::save_credential")]
        upd = [x for x in muts if names.call_is(x[1], "CredentialStore::update_credential")]
        # the save is not inside a loop other than its own await loop
        in_cycle = False
        if len(saves) == 1:
            sb = saves[0][0]
            in_cycle = sb in mc.reachable(mc.succs(sb), follow_yield_drop=False)
        chk.ob("R3 one exclusive store call per registration", "R3|make_credential", len(saves) == 1 and not upd and not in_cycle,
               where(mc, saves[0][0]) if saves else where(mc), "save_credential sites: %d, update sites: %d, save inside a cycle: %s" % (len(saves), len(upd), in_cycle))

    # ---------------- R4
    n_r4 = 0
    for b in cer:
        aws = flow.awaits(b)
        reads = [a for a in aws if a.call is not None and names.call_is(a.call, "CredentialStore::find_credentials")]
        writes = [a for a in aws if a.call is not None and names.call_is(a.call, "CredentialStore::update_credential", "CredentialStore::save_credential")]
        for r in reads:
            if r.payload is None:
                continue
            tainted = forward_taint(b, {r.payload}) | {r.payload}
            for w in writes:
                args = [flow.op_place(a) for a in w.call["args"][1:]]
                if not any(a and a[0] in tainted for a in args):
                    continue
                n_r4 += 1
                # suspension points strictly between read completion and the write call
                between = []
                for a in aws:
                    if a is r or a is w or a.yield_bb is None:
                        continue
                    # a lies between: reachable from r.ready and reaches w.call
                    if a.yield_bb in b.reachable(r.ready_bb, follow_yield_drop=False) and w.call_bb in b.reachable(a.ready_bb, follow_yield_drop=False):
                        between.append(a)
                wm = "update_credential" if names.call_is(w.call, "CredentialStore::update_credential") else "save_credential"
                chk.ob("R4 read-modify-write atomicity", "R4|%s|find_credentials->%s" % (api_name(b), wm), not between, where(b, w.call_bb),
                       ("value read by find_credentials (%s) is written back by %s after suspending in: %s — two overlapping ceremonies read the same counter and both store counter+1"
                        % (where(b, r.call_bb), wm, [short(a.callee() or "?") for a in between])) if between else "no foreign suspension point between read and write")
    chk.require("R4 read-modify-write atomicity", "R4|instances", n_r4 >= 1, AUTH, "no read-modify-write instance found (get_assertion's counter update expected)")
    # ---------------- R5: a counter is handed out only if the shared store took it
    from .common import accepted_counter_cut
    ga = ceremony(p, "get_assertion")
    if chk.require("R5 reported counter was accepted by the store", "R5|get_assertion", ga, AUTH, "get_assertion not found"):
        ok5, upd_ok, no_counter = accepted_counter_cut(p, ga)
        chk.ob("R5 reported counter was accepted by the store", "R5|get_assertion|assertion-needs-accepted-write", ok5, where(ga),
               "every Ok assertion lies behind (credential has no counter) or (update_credential returned Ok): %s — otherwise a refused or failed write-back (a store that rejects stale counters, a store outage) still yields an assertion, and the same counter is handed out again" % ok5)
    chk.floor("R1", 16, default=0)
    chk.floor("R2", 5)
    chk.floor("R3", 1)
    chk.floor("R4", 1)
    chk.floor("R5", 1)
    chk.assumptions = ["tokio's Mutex/RwLock are fair and their futures are cancel-safe", "user-supplied stores are not re-entrant into the authenticator",
                       "schedules themselves are not explored (static lock-order / atomicity rules only)"]
