"""C07 — failed or cancelled ceremonies leave the credential store consistent.

R1 save is the last fallible step : from the success edge of save_credential's `?` in make_credential no Err return, no `?`,
                                    no panic site and no suspension point is reachable before the Ok return.
R2 error discipline               : the awaited result of every save_credential / update_credential (and of the lookup in
                                    get_assertion) reaches a `?` or an explicit match whose Err arm returns Err — never
                                    `.ok()`, `unwrap_or*`, `let _` or an arm returning Ok.
R3 mutation sites                 : the store-mutating calls of the ceremonies are exactly save (make_credential), update
                                    (get_assertion), save (U2F register); store_mut() is used for nothing else; every Err return
                                    of make_credential is unreachable from the save's success edge.
R4 cancellation                   : no suspension point is reachable after a mutating store call completed (so a drop edge lies
                                    before the mutation or inside it); shipped leaf stores mutate with a single insert/replace and
                                    do not suspend; lock wrappers suspend only in lock + delegate (C19 R1).
R5 counter accepted before response: get_assertion's Ok is cut by (no counter) ∨ (success edge of update_credential's `?`).
R7 assertion writes only an advanced counter : the record given to update_credential is the looked-up credential with exactly
                                    its `counter` replaced by Some(stored + 1).
R6 lookup error held until consent : the `?` on the looked-up credential is cut by the consent success edge and itself cuts
                                    update / extensions / signature.
"""
from . import core, flow, names
from .framework import where, short, api_name
from .common import AUTH, ceremony
from . import c15 as panics

MUT = ("CredentialStore::save_credential", "CredentialStore::update_credential")


def try_of_await(co, aw, du):
    """the `?` site consuming the awaited result (through copies)"""
    if aw.payload is None:
        return None
    for t in flow.try_sites(co):
        if t["operand"] and aw.payload in du.trace_copy(t["operand"][0]):
            return t
    return None


def run(chk):
    p = core.load_program("all")
    chk.configs = ["all-features"]
    chk.explanation = __doc__
    mc = ceremony(p, "make_credential")
    ga = ceremony(p, "get_assertion")
    u2f_trait = [t for t in p.traits.values() if t["path"].endswith("::U2fApi")]
    from . import inline, normal, summary
    from .common import keep_named
    N = normal.Normalizer(p, summary.Summaries(p))
    ur = inline.inlined(p, p.async_body(p.method(AUTH, "register", trait=u2f_trait[0]["path"])), keep=(keep_named,)) if u2f_trait else None
    if not chk.require("R1 save is the last fallible step", "R1|ceremonies", mc is not None and ga is not None, AUTH, "ceremony bodies not found"):
        return
    for b in (mc, ga, ur):
        chk.touched(b)

    # ---------------- R1
    du = flow.DefUse(mc)
    aws = flow.awaits(mc)
    saves = [a for a in aws if a.call is not None and names.call_is(a.call, "CredentialStore::save_credential")]
    if chk.require("R1 save is the last fallible step", "R1|make_credential|save", len(saves) == 1, where(mc), "expected exactly one awaited save_credential, found %d" % len(saves)):
        sv = saves[0]
        Tm = flow.Terms(p, mc)
        ok_edges, other_edges = flow.success_edges(p, mc, flow.await_pred(sv), Tm)
        forwarded = False
        if not ok_edges:
            # not tested but handed on: `save(..).await.map(|()| response)` — Ok is returned exactly when the save succeeded
            okf, witf, _e1, _e2 = flow.failure_is_error(p, mc, flow.await_pred(sv), Tm, norm=N.norm)
            forwarded = bool(okf) and witf.startswith("forwarded")
        if chk.require("R1 save is the last fallible step", "R1|make_credential|save-try", bool(ok_edges) or forwarded, where(mc, sv.call_bb), "save_credential's result is never tested for success"):
            after = set()
            for sb, sc in ok_edges:
                after |= mc.reachable(sc, follow_yield_drop=False)
            if forwarded and sv.ready_bb is not None:
                after = mc.reachable(sv.ready_bb, follow_yield_drop=False)
            errs = [s for s in flow.outcome_sites(mc) if s["bb"] in after and s["path"] == () and s["kind"] in ("Err", "residual")]
            # any further test of a fallible value after the save succeeded (a `?`, a match on a Result/Option with an exit)
            tests = []
            for sb in sorted(after):
                t = mc.term(sb)
                if t and t["k"] == "switch" and not mc.blocks[sb]["cleanup"]:
                    term = flow.simplify_term(Tm.operand(t["op"], sb, "t"))
                    r = flow.presence_test(term, ("in", "1"))
                    if r is not None and not (isinstance(term, tuple) and term[0] == "discr" and len(term) > 2 and term[2] == "Poll") and (sb, ) and not any(sb == e[0] for e in ok_edges):
                        # a presence test is harmless when both sides continue to Ok only; count those that can leave with Err
                        if errs:
                            tests.append(sb)
            ylds = [y for y in mc.yields() if y in after]
            pan = []
            for bb in after:
                t = mc.term(bb)
                if t and t["k"] == "assert" and t["msg"]["kind"] in panics.ASSERT_KINDS:
                    pan.append((bb, t["msg"]["kind"]))
                if t and t["k"] == "call" and panics.site_kind(t) in ("unwrap", "panic", "index", "split_at", "copy", "garray", "vecop"):
                    pan.append((bb, core.callee_of(t)))
            oks = [b3 for b3 in flow.ok_sites(p, mc, Tm) if b3 in after]
            site = where(mc, sv.call_bb)
            chk.ob("R1 save is the last fallible step", "R1|make_credential|no-error-after-save", not errs, where(mc, errs[0]["bb"]) if errs else site,
                   "Err returns reachable after the save succeeded: %d" % len(errs))
            chk.ob("R1 save is the last fallible step", "R1|make_credential|no-suspension-after-save", not ylds, where(mc, ylds[0]) if ylds else site,
                   "suspension points reachable after the save completed: %s" % ylds)
            chk.ob("R1 save is the last fallible step", "R1|make_credential|no-panic-after-save", not pan, where(mc, pan[0][0]) if pan else site,
                   "panic sites after the save: %s" % [short(str(x[1])) for x in pan])
            all_oks = flow.ok_sites(p, mc, Tm)
            # (forwarded: the value-level check above already showed that every non-error leaf of the returned selection lies
            # on the success side of the save's result; the return site itself is shared with the earlier error returns)
            past = flow.cut_by_edges(mc, 0, all_oks, ok_edges) if ok_edges else forwarded
            chk.ob("R1 save is the last fallible step", "R1|make_credential|ok-after-save", len(oks) >= 1 and past,
                   site, "every Ok return passes the success edge of the save" if ok_edges else "the only value that can be Ok is the forwarded result of the save")

    # ---------------- R2
    for co, nm, pats in ((mc, "make_credential", MUT), (ga, "get_assertion", MUT + ("CredentialStore::find_credentials",)), (ur, "U2fApi::register", MUT)):
        if co is None:
            continue
        du = flow.DefUse(co)
        T = flow.Terms(p, co)
        for a in flow.awaits(co):
            if a.call is None or not names.call_is(a.call, *pats):
                continue
            which = core.callee_of(a.call).rsplit("::", 1)[-1]
            ok, wit, _oke, _bade = flow.failure_is_error(p, co, flow.await_pred(a), T, norm=N.norm)
            if not ok:
                wit = "the awaited result of %s: %s" % (which, wit)
            chk.ob("R2 error discipline", "R2|%s|%s" % (nm, which), ok, where(co, a.call_bb), wit)

    # ---------------- R3
    cer = {"make_credential": mc, "get_assertion": ga, "U2fApi::register": ur}
    u2fa = inline.inlined(p, p.async_body(p.method(AUTH, "authenticate", trait=u2f_trait[0]["path"])), keep=(keep_named,)) if u2f_trait else None
    if u2fa is not None:
        cer["U2fApi::authenticate"] = u2fa
    expect = {"make_credential": ["save_credential"], "get_assertion": ["update_credential"], "U2fApi::register": ["save_credential"], "U2fApi::authenticate": []}
    for nm, co in cer.items():
        if co is None:
            continue
        found = []
        for b in p.nested_of(co):
            for bb, t in b.calls():
                if names.call_is(t, *MUT):
                    found.append(core.callee_of(t).rsplit("::", 1)[-1])
        chk.ob("R3 mutation sites", "R3|%s|mutations" % nm, sorted(found) == sorted(expect[nm]), where(co), "store mutations in %s: %s (expected %s)" % (nm, found, expect[nm]))
        # store_mut only as receiver of a mutating call
        sm = names.calls_to(co, "Authenticator::store_mut")
        du = flow.DefUse(co)
        bad = []
        for bb, t in sm:
            from .common import forward_taint
            tainted = forward_taint(co, {t["dest"]["l"]}, through_calls=False) | {t["dest"]["l"]}
            users = [(b2, t2) for b2, t2 in co.calls() if any((flow.op_place(a) or (None,))[0] in tainted for a in t2["args"])]
            for b2, t2 in users:
                if not names.call_is(t2, *MUT):
                    bad.append(short(core.callee_of(t2)))
        if sm:
            chk.ob("R3 mutation sites", "R3|%s|store_mut-use" % nm, not bad, where(co, sm[0][0]), "store_mut() is used as receiver of: %s" % (bad or "save/update only"))

    # ---------------- R4
    for nm, co in (("make_credential", mc), ("get_assertion", ga), ("U2fApi::register", ur)):
        if co is None:
            continue
        aws = flow.awaits(co)
        muts = [a for a in aws if a.call is not None and names.call_is(a.call, *MUT)]
        late = []
        for m in muts:
            if m.ready_bb is None:
                continue
            after = co.reachable(m.ready_bb, follow_yield_drop=False)
            late += [a for a in aws if a is not m and a.yield_bb in after and a.yield_bb not in m.loop]
        chk.ob("R4 cancellation", "R4|%s|no-await-after-mutation" % nm, not late and len(muts) >= 1, where(co, late[0].call_bb) if late else where(co),
               "awaits reachable after a completed store mutation: %s" % [short(a.callee() or "?") for a in late])
    strait = [t for t in p.traits.values() if t["path"].startswith("passkey_authenticator::") and t["path"].endswith("::CredentialStore")]
    n_r8 = 0
    if strait:
        for im in p.impls_of(trait=strait[0]["path"]):
            if "tokio::sync" in im["self_ty"]:
                continue
            import re
            st = re.sub(r"\b[a-z_0-9]+::", "", im["self_ty"])
            for item in im["items"]:
                if item["name"] not in ("save_credential", "update_credential"):
                    continue
                co = p.async_body(p.bodies.get(item["def"]))
                if co is None:
                    continue
                co = inline.inlined(p, co)
                chk.touched(co)
                writes = [core.callee_of(t) for bb, t in co.calls() if names.call_is(t, "HashMap::insert", "Option::replace", "Option::insert", "HashMap::remove", "Vec::push", "Option::take", "HashMap::entry", "HashMap::clear")]
                # `*self = value`: an assignment of the whole container through the receiver reference
                for bb, s in co.stmts():
                    if s["k"] == "assign" and not co.blocks[bb]["cleanup"]:
                        pj = s["place"]["p"]
                        if pj and pj[-1]["k"] == "deref" and all(e["k"] in ("deref", "field") for e in pj):
                            l0, p0 = flow.norm_place(s["place"])
                            if p0 == () or all(isinstance(e, str) and e.isdigit() for e in p0):
                                writes.append("*self = ..")
                chk.ob("R4 cancellation", "R4|%s::%s|atomic" % (st, item["name"]), len(co.yields()) == 0 and len(writes) == 1, where(co),
                       "suspension points: %d, container writes: %s" % (len(co.yields()), [short(w) for w in writes]))
                # R8: what the shipped leaf stores write — the record they were given, under that record's own id, and
                # nothing else: every call that receives the container by `&mut` is the one allowed writer
                # (insert / replace), its value operand is the `cred` parameter itself and its key (if any) is that
                # record's credential id. `retain`, `remove`, `entry(..).or_insert`, `clear`, `get_mut` … are other
                # mutations (or conditional ones) and are reported with the callee printed.
                T8 = flow.Terms(p, co)
                SELF, CRED = ("upvar", 0), ("upvar", 1)
                touching, good = [], 0
                for bb, t in co.calls():
                    if co.blocks[bb]["cleanup"]:
                        continue
                    for i, a in enumerate(t["args"]):
                        pl = a.get("place") if isinstance(a, dict) else None
                        ty = co.local_ty(pl["l"]) if pl and not pl["p"] else ""
                        if not ty.startswith("&mut "):
                            continue
                        tm = T8.operand(a, bb, "t")
                        if flow.term_contains(tm, lambda x: x == SELF):
                            touching.append((bb, t, i))
                            break
                bad8 = []
                for bb, t, i in touching:
                    cal = core.callee_of(t)
                    if names.call_is(t, "HashMap::insert") and i == 0 and len(t["args"]) == 3:
                        key = T8.operand(t["args"][1], bb, "t"); val = T8.operand(t["args"][2], bb, "t")
                        if val == CRED and key == ("field", CRED, "credential_id"):
                            good += 1
                        else:
                            bad8.append("insert(key = %s, value = %s)" % (flow.term_str(key)[:80], flow.term_str(val)[:80]))
                    elif names.call_is(t, "Option::replace", "Option::insert") and i == 0 and len(t["args"]) == 2:
                        val = T8.operand(t["args"][1], bb, "t")
                        if val == CRED:
                            good += 1
                        else:
                            bad8.append("%s(value = %s)" % (short(cal), flow.term_str(val)[:80]))
                    else:
                        bad8.append("%s(&mut container, ..)" % short(cal))
                whole = [w for w in writes if w == "*self = .."]
                chk.ob("R8 leaf store writes the given record", "R8|%s::%s|writes-given-record-under-its-id" % (st, item["name"]),
                       not bad8 and good + len(whole) == 1, where(co, touching[0][0]) if touching else where(co),
                       "container accesses by &mut: %d; accepted writer (value = the record given, key = its credential id): %d; other: %s"
                       % (len(touching), good, bad8))
                n_r8 += 1

    chk.require("R8 leaf store writes the given record", "R8|below-floor", n_r8 >= 4, "passkey-authenticator/src/credential_store.rs",
                "save/update bodies of shipped leaf stores analysed: %d (counted by hand: 4 — MemoryStore and Option<Passkey>, two methods each)" % n_r8)
    # ---------------- R5 / R6
    du = flow.DefUse(ga)
    aws = flow.awaits(ga)
    ups = [a for a in aws if a.call is not None and names.call_is(a.call, "CredentialStore::update_credential")]
    oks = flow.ok_sites(p, ga)
    if chk.require("R5 counter accepted before response", "R5|update", len(ups) == 1 and oks, where(ga), "update_credential await / Ok return not found"):
        from .common import accepted_counter_cut
        cut, upd_ok, no_counter = accepted_counter_cut(p, ga)
        chk.require("R5 counter accepted before response", "R5|guard", bool(upd_ok) and bool(no_counter), where(ga), "test of the stored counter's presence or of update_credential's result not found")
        chk.ob("R5 counter accepted before response", "R5|get_assertion|ok-needs-accepted-counter", cut, where(ga, ups[0].call_bb),
               "Ok is %sreachable without (counter absent) or (update_credential succeeded)" % ("un" if cut else ""))
    # R7: what an assertion may write: the looked-up record with only its counter advanced
    T = flow.Terms(p, ga)
    for a in ups:
        site_conds = normal.conditions(N, p, ga, a.call_bb, T, inline=True) or []
        st = normal.under(N.inline(T.operand(a.call["args"][1], a.call_bb, "t")), site_conds)
        ok = st[0] == "with" and len(st[2]) == 1
        wit = "record given to update_credential = %s" % flow.term_str(st)[:300]
        if ok:
            (pth, v), = tuple(st[2])
            base = st[1]
            from_lookup = flow.term_contains(base, lambda x: isinstance(x, tuple) and len(x) == 4 and x[0] == "await" and names.is_(x[1], "CredentialStore::find_credentials"))
            adv = v[0] == "agg" and v[2] == "Some" and flow.term_contains(v, lambda x: x == ("payload", ("field", base, "counter"))) and flow.term_contains(v, lambda x: x == ("const", 1))
            ok = pth == ("counter",) and from_lookup and adv
            if not adv:
                wit += " — the counter written is not Some(stored + 1): a failed or cancelled assertion can leave an altered record"
        chk.ob("R7 assertion writes only an advanced counter", "R7|get_assertion|record-written", ok, where(ga, a.call_bb), wit)
    # R6: the error of the credential lookup leaves the ceremony only after consent, and nothing is done with a credential
    # that was not found.  Idiom independent: "the lookup's error exit" = an Err/None return whose necessary conditions
    # (in normal form) involve the lookup's result; "lookup succeeded" = the success edges of any test of it or of a value
    # selected from it.
    look = [a for a in aws if a.call is not None and names.call_is(a.call, "CredentialStore::find_credentials")]
    cons_aw = [a for a in aws if a.call is not None and names.call_is(a.call, "Authenticator::check_user")]
    if chk.require("R6 lookup error held until consent", "R6|sites", len(cons_aw) == 1 and len(look) == 1, where(ga), "consent await / lookup not found"):
        is_look = flow.await_pred(look[0])
        cons_ok, _cb = flow.success_edges(p, ga, flow.await_pred(cons_aw[0]), T, N=N)
        look_ok, look_bad = flow.success_edges(p, ga, is_look, T, N=N)
        exits = []
        for s in flow.outcome_sites(ga):
            if s["path"] != () or s["kind"] not in ("Err", "residual", "None"):
                continue
            cds = normal.conditions(N, p, ga, s["bb"], T) or []
            if any(flow.term_contains(t, is_look) and not flow.term_contains(t, flow.await_pred(cons_aw[0])) for sb2, l, t in cds):
                exits.append(s["bb"])
        if chk.require("R6 lookup error held until consent", "R6|lookup-try", bool(exits) and bool(cons_ok) and bool(look_ok), where(ga), "no error exit that depends on the lookup result / no test of the consent or lookup result"):
            after_consent = all(flow.cut_by_edges(ga, 0, [e], cons_ok) for e in exits)
            chk.ob("R6 lookup error held until consent", "R6|get_assertion|lookup-error-after-consent", after_consent, where(ga, exits[0]),
                   "the %d error exit(s) that depend on the lookup result are %scut by the consent success edge" % (len(exits), "" if after_consent else "NOT "))
            eff = [bb for bb, t in ga.calls() if names.call_is(t, "CredentialStore::update_credential", "SignerMut::sign", "Signer::sign", "Authenticator::get_extensions")]
            cut = flow.cut_by_edges(ga, 0, eff, look_ok)
            chk.ob("R6 lookup error held until consent", "R6|get_assertion|lookup-error-before-effects", cut and len(eff) >= 3, where(ga, exits[0]),
                   "update/extensions/sign are %scut by the success edges of the tests on the lookup result" % ("" if cut else "NOT "))
    chk.floor("R1", 4)
    chk.floor("R2", 4)
    chk.floor("R3", 6)
    chk.floor("R4", 7)
    chk.floor("R5", 1)
    chk.floor("R6", 2)
    chk.floor("R7", 1)
    chk.assumptions = ["user-written stores are atomic per call", "dropping a future runs no user code other than Drop impls of std/tokio types"]
