"""Boolean / quantifier normal form of predicate terms.

`xs.iter().any(|x| p(x))`, `!xs.iter().all(|x| !p(x))`, a search loop with an early exit, `a == b` / `!(a != b)` /
`b == a`, `c1 || c2` (short-circuit selections), `opt.is_some_and(f)` all denote formulas.  `formula(N, term)` rewrites a
bool-valued term (already in the value normal form of rules/normal.py) into

    ("or", frozenset{..}) ("and", frozenset{..}) ("not", f) ("exists", collection, body-with-("bound", k))
    ("eq", frozenset{a, b}) ("present", x) ("atom", term) ("true",) ("false",)

so that equivalent spellings compare equal.  Pure term rewriting over MIR facts; nothing is executed.
"""
from . import flow, names, normal


def f_not(f):
    if f == ("true",):
        return ("false",)
    if f == ("false",):
        return ("true",)
    if f[0] == "not":
        return f[1]
    if f[0] == "or":
        return ("and", frozenset(f_not(x) for x in f[1]))
    if f[0] == "and":
        return ("or", frozenset(f_not(x) for x in f[1]))
    return ("not", f)


def f_or(*fs):
    out = set()
    for f in fs:
        if f == ("true",):
            return ("true",)
        if f == ("false",):
            continue
        if f[0] == "or":
            out |= set(f[1])
        else:
            out.add(f)
    if not out:
        return ("false",)
    return next(iter(out)) if len(out) == 1 else ("or", frozenset(out))


def f_and(*fs):
    out = set()
    for f in fs:
        if f == ("false",):
            return ("false",)
        if f == ("true",):
            continue
        if f[0] == "and":
            out |= set(f[1])
        else:
            out.add(f)
    if not out:
        return ("true",)
    return next(iter(out)) if len(out) == 1 else ("and", frozenset(out))


def _strip_iter(x):
    while isinstance(x, tuple) and len(x) == 4 and x[0] == "call" and x[2] and (names.is_(x[1], "IntoIterator::into_iter") or x[1].endswith("::iter") or names.is_(x[1], "Iterator::copied") or names.is_(x[1], "Iterator::cloned")):
        x = x[2][0]
    return x


class Formulas:
    def __init__(self, N):
        self.N = N
        self.depth = 0

    def of_edge(self, t, labs):
        """formula asserted by taking edge `labs` of a switch on t"""
        r = flow.presence_test(t, labs)
        if r is not None and r[1] is not None:
            f = ("present", _strip_refs(r[0]))
            return f if r[1] else f_not(f)
        a, pol = flow.bool_atom(t, labs)
        if pol is None:
            return ("atom", (t, labs))
        f = self.of(a)
        return f if pol else f_not(f)

    def of(self, t, bound=0):
        """formula of a bool-valued term"""
        if t == ("const", 1):
            return ("true",)
        if t == ("const", 0):
            return ("false",)
        if not isinstance(t, tuple) or not t:
            return ("atom", t)
        if t[0] == "unop" and t[1] == "Not":
            return f_not(self.of(t[2], bound))
        if t[0] == "gamma":
            # if c {A} else {B}  ==  (c ∧ A) ∨ (¬c ∧ B)
            parts = []
            for l, v in t[2]:
                parts.append(f_and(self.of_edge(t[1], l), self.of(v, bound)))
            return f_or(*parts)
        if t[0] == "binop" and t[1] in ("Eq", "Ne"):
            f = ("eq", frozenset((_strip_refs(t[2]), _strip_refs(t[3]))))
            return f if t[1] == "Eq" else f_not(f)
        if t[0] == "binop" and t[1] in ("BitOr", "BitAnd"):
            a, b = self.of(t[2], bound), self.of(t[3], bound)
            return f_or(a, b) if t[1] == "BitOr" else f_and(a, b)
        if len(t) == 4 and t[0] == "call" and isinstance(t[1], str):
            n = t[1]
            if names.is_(n, "PartialEq::eq") and len(t[2]) == 2:
                return ("eq", frozenset((_strip_refs(t[2][0]), _strip_refs(t[2][1]))))
            if names.is_(n, "PartialEq::ne") and len(t[2]) == 2:
                return f_not(("eq", frozenset((_strip_refs(t[2][0]), _strip_refs(t[2][1])))))
            if (names.is_(n, "Iterator::any") or names.is_(n, "Iterator::all")) and len(t[2]) == 2:
                coll = _strip_iter(t[2][0])
                b = ("bound", bound)
                body = self.N.apply(t[2][1], (b,), 0)
                fb = self.of(self.N.norm(body), bound + 1)
                if names.is_(n, "Iterator::any"):
                    return ("exists", coll, fb)
                return f_not(("exists", coll, f_not(fb)))
            if (names.is_(n, "slice::contains") or names.is_(n, "Vec::contains")) and len(t[2]) == 2:
                return ("exists", _strip_iter(t[2][0]), ("eq", frozenset((("bound", bound), _strip_refs(t[2][1])))))
        return ("atom", _strip_refs(t))


def _strip_refs(x):
    """look through conversions that do not change the compared value"""
    while isinstance(x, tuple) and len(x) == 4 and x[0] == "call" and x[2] and any(names.is_(x[1], s) for s in ("Deref::deref", "AsRef::as_ref", "Vec::as_slice", "Bytes::as_slice", "Borrow::borrow", "Clone::clone")):
        x = x[2][0]
    return x


def replace_term(f, old, new):
    """substitute a value term inside a formula"""
    from . import summary
    if isinstance(f, frozenset):
        return frozenset(replace_term(x, old, new) for x in f)
    if not isinstance(f, tuple):
        return f
    if f == old:
        return new
    return tuple(replace_term(x, old, new) if isinstance(x, (tuple, frozenset)) else x for x in f)
