"""C10 — public-suffix lookups agree with the shipped list (the decidable parts).

(a) table ≡ list    : the generated table (the values rustc const-evaluated for `impl Table for TLDList`) is decoded
                      under the layout its own constants declare into a trie, and compared node by node with the trie
                      built independently from public-suffix/public_suffix_list.dat by the generator's documented rules
                      (translation validation of the generated source; every rule is an obligation).
(b) well-formedness : every index the lookup computes from the table is in range (children ranges, children index,
                      text offset+length), TEXT is ASCII, sibling labels are strictly increasing (binary-search
                      precondition), field widths fit 32 bits and every shift amount is < 32, no top-level exception node.
(c) reader layout   : the bit-field walk of ListProvider::node_label / public_suffix in MIR (shifts and masks over the
                      *named* unevaluated `T::*_BITS_*` constants) equals the writer's layout; effective_tld_plus_one
                      rejects empty labels before the lookup and guards its length arithmetic.
(d) walk step      : the transition table of ONE iteration of the lookup loop is read off the MIR (every decision path from the
                      loop head to the back edge or to the post-loop join, state expressed over loop-entry values) and compared,
                      row by row, with the PSL matching step: a wildcard inherited from the parent matches the current label
                      whether or not it has its own node; a normal node sets the suffix at the current label; an exception node
                      ends the walk one label further in; otherwise the suffix is unchanged; descent uses the node's children
                      range and wildcard bit and the remaining prefix; the implicit "*" rule applies when nothing matched.
Not decided: the induction over label sequences (that iterating this step over all inputs equals the PSL algorithm).
"""
import json
import os

from . import core, flow, names
from .framework import where, short, api_name, VERIF

CR = "public_suffix"


def table_consts(p):
    """{impl self type -> {NAME: const fact}} for impls of the Table trait"""
    out = {}
    for path, c in p.consts.items():
        it = c.get("item", {})
        im = it.get("impl")
        if im and (im.get("trait") or "").endswith("::Table") and im["trait"].startswith(CR + "::"):
            out.setdefault(im["self_ty"], {})[path.rsplit("::", 1)[-1]] = c
    return out


def ci(c):
    return int(c["bits"])


def decode(tc):
    W = {k: ci(tc[k]) for k in ("NODES_BITS_CHILDREN", "NODES_BITS_ICANN", "NODES_BITS_TEXT_OFFSET", "NODES_BITS_TEXT_LENGTH",
                                "CHILDREN_BITS_WILDCARD", "CHILDREN_BITS_NODE_TYPE", "CHILDREN_BITS_HI", "CHILDREN_BITS_LO",
                                "NODE_TYPE_NORMAL", "NODE_TYPE_EXCEPTION", "NUM_TLD")}
    text = tc["TEXT"]["str"]
    nodes = tc["NODES"]["ints"]
    children = tc["CHILDREN"]["ints"]
    TL, TO, IC, CH = W["NODES_BITS_TEXT_LENGTH"], W["NODES_BITS_TEXT_OFFSET"], W["NODES_BITS_ICANN"], W["NODES_BITS_CHILDREN"]
    LO, HI, NT, WC = W["CHILDREN_BITS_LO"], W["CHILDREN_BITS_HI"], W["CHILDREN_BITS_NODE_TYPE"], W["CHILDREN_BITS_WILDCARD"]
    dn = []
    for x in nodes:
        length = x & ((1 << TL) - 1)
        off = (x >> TL) & ((1 << TO) - 1)
        icann = (x >> (TL + TO)) & ((1 << IC) - 1)
        cidx = (x >> (TL + TO + IC)) & ((1 << CH) - 1)
        unused = x >> (TL + TO + IC + CH)
        dn.append((length, off, icann, cidx, unused))
    dc = []
    for c in children:
        lo = c & ((1 << LO) - 1)
        hi = (c >> LO) & ((1 << HI) - 1)
        nt = (c >> (LO + HI)) & ((1 << NT) - 1)
        wc = (c >> (LO + HI + NT)) & ((1 << WC) - 1)
        unused = c >> (LO + HI + NT + WC)
        dc.append((lo, hi, nt, wc, unused))
    return W, text, dn, dc


def wellformed(W, text, dn, dc):
    """list of (key, ok, witness)"""
    obs = []
    TL, TO, IC, CH = W["NODES_BITS_TEXT_LENGTH"], W["NODES_BITS_TEXT_OFFSET"], W["NODES_BITS_ICANN"], W["NODES_BITS_CHILDREN"]
    LO, HI, NT, WC = W["CHILDREN_BITS_LO"], W["CHILDREN_BITS_HI"], W["CHILDREN_BITS_NODE_TYPE"], W["CHILDREN_BITS_WILDCARD"]
    obs.append(("widths-nodes", TL + TO + IC + CH <= 32, "node field widths %d+%d+%d+%d <= 32" % (TL, TO, IC, CH)))
    obs.append(("widths-children", LO + HI + NT + WC <= 32, "children field widths %d+%d+%d+%d <= 32" % (LO, HI, NT, WC)))
    shifts = [TL, TO, TL + TO, IC, CH, LO, HI, NT, WC]
    obs.append(("shift-amounts", all(s < 32 for s in shifts), "every shift amount used by the reader is < 32: %s" % shifts))
    n = len(dn)
    obs.append(("num-tld", 0 < W["NUM_TLD"] <= n, "NUM_TLD %d within NODES (%d)" % (W["NUM_TLD"], n)))
    bad = [i for i, (l, o, ic, c, u) in enumerate(dn) if c >= len(dc)]
    obs.append(("children-index", not bad, "children index < len(CHILDREN)=%d for all %d nodes (bad: %s)" % (len(dc), n, bad[:3])))
    bad = [i for i, (l, o, ic, c, u) in enumerate(dn) if o + l > len(text)]
    obs.append(("text-range", not bad, "offset+length <= len(TEXT)=%d for all nodes (bad: %s)" % (len(text), bad[:3])))
    obs.append(("text-ascii", all(ord(ch) < 128 for ch in text), "TEXT is ASCII (every byte offset is a char boundary)"))
    bad = [i for i, (lo, hi, nt, wc, u) in enumerate(dc) if not (lo <= hi <= n)]
    obs.append(("children-ranges", not bad, "lo <= hi <= len(NODES) for all %d children rows (bad: %s)" % (len(dc), bad[:3])))
    obs.append(("mid-arith", n < 2**31, "len(NODES) < 2^31 so lo + (hi-lo)/2 and mid+1 cannot overflow u32"))
    bad = [i for i, x in enumerate(dn) if x[4] != 0] + [i for i, x in enumerate(dc) if x[4] != 0]
    obs.append(("unused-bits-zero", not bad, "no bits above the declared fields are set"))

    def label(i):
        l, o, ic, c, u = dn[i]
        return text[o:o + l]

    # sibling order (binary search precondition) for the root and every children row
    ranges = [(0, W["NUM_TLD"])] + [(lo, hi) for lo, hi, nt, wc, u in dc if hi > lo]
    bad = []
    for lo, hi in ranges:
        if hi > n:
            continue
        for i in range(lo + 1, hi):
            if not (label(i - 1).encode() < label(i).encode()):
                bad.append((i - 1, label(i - 1), label(i)))
    obs.append(("siblings-sorted", not bad, "sibling labels strictly increasing in %d ranges (bad: %s)" % (len(ranges), bad[:2])))
    bad = [i for i in range(min(W["NUM_TLD"], n)) if dn[i][3] < len(dc) and dc[dn[i][3]][2] == W["NODE_TYPE_EXCEPTION"]]
    obs.append(("no-toplevel-exception", not bad, "no top-level node of type exception (suffix = 1+len(domain) would slice out of range): %s" % bad[:3]))
    bad = [i for i in range(n) if dn[i][0] == 0]
    obs.append(("labels-nonempty", not bad, "every label is non-empty"))
    return obs


def trie_from_table(W, text, dn, dc):
    """nested dict label -> (node_type, wildcard, icann, children dict)"""
    n = len(dn)

    def build(lo, hi, depth=0):
        out = {}
        for i in range(lo, min(hi, n)):
            l, o, ic, c, u = dn[i]
            lab = text[o:o + l]
            clo, chi, nt, wc, _ = dc[c] if c < len(dc) else (0, 0, 3, 0, 0)
            out[lab] = (nt, wc, ic, build(clo, chi, depth + 1) if chi > clo and depth < 12 else {})
        return out

    return build(0, W["NUM_TLD"])


def puny(label):
    if all(ord(c) < 128 for c in label):
        return label
    return "xn--" + label.encode("punycode").decode("ascii")


def trie_from_dat(path):
    """the generator's rules: trim, skip blank and //, idna.ToASCII (punycode only), '*.' => parent-only+wildcard,
    '!' => exception, ICANN section markers; children created implicitly are parent-only, icann=true"""
    NORMAL, EXC, PARENT = 0, 1, 2
    root = {}
    rules = []
    icann = False
    with open(path, encoding="utf-8") as fh:
        for line in fh:
            s = line.strip()
            if "BEGIN ICANN DOMAINS" in s:
                icann = True
                continue
            if "END ICANN DOMAINS" in s:
                icann = False
                continue
            if s == "" or s.startswith("//"):
                continue
            s = ".".join(puny(x) for x in s.split("."))
            rules.append(s)
            nt, wc = NORMAL, False
            if s.startswith("*."):
                s, nt, wc = s[2:], PARENT, True
            elif s.startswith("!"):
                s, nt = s[1:], EXC
            labels = s.split(".")
            cur = root
            for i in range(len(labels) - 1, -1, -1):
                lab = labels[i]
                if lab not in cur:
                    cur[lab] = [PARENT, False, True, {}]
                node = cur[lab]
                if i == 0:
                    if nt != PARENT and node[0] == PARENT:
                        node[0] = nt
                    node[2] = node[2] and icann
                    node[1] = node[1] or wc
                cur = node[3]
    return root, rules


def compare(t_tab, t_dat, prefix, diffs, counter):
    for lab in sorted(set(t_tab) | set(t_dat)):
        name = lab + ("." + prefix if prefix else "")
        counter[0] += 1
        if lab not in t_tab:
            diffs.append("rule for %s is in public_suffix_list.dat but not in the compiled table" % name)
            continue
        if lab not in t_dat:
            diffs.append("node %s is in the compiled table but not in public_suffix_list.dat" % name)
            continue
        a, b = t_tab[lab], t_dat[lab]
        if a[0] != b[0] or bool(a[1]) != bool(b[1]):
            diffs.append("node %s: table (type %d, wildcard %s) != list (type %d, wildcard %s)" % (name, a[0], bool(a[1]), b[0], bool(b[1])))
        if bool(a[2]) != bool(b[2]):
            diffs.append("node %s: ICANN bit differs (table %s, list %s)" % (name, bool(a[2]), bool(b[2])))
        compare(a[3], b[3], name, diffs, counter)


_facts_memo = {}


def table_facts_hold(p):
    """(ok, summary) of part (b) for every Table impl of the workspace — used by C15 to discharge the index
    and shift obligations of the generic lookups"""
    key = id(p)
    if key in _facts_memo:
        return _facts_memo[key]
    tcs = table_consts(p)
    ok = bool(tcs)
    msgs = []
    for st, tc in tcs.items():
        try:
            W, text, dn, dc = decode(tc)
        except Exception as e:
            ok = False
            msgs.append("cannot decode %s: %s" % (st, e))
            continue
        for k, o, w in wellformed(W, text, dn, dc):
            if not o:
                ok = False
                msgs.append("%s: %s" % (k, w))
    _facts_memo[key] = (ok, "; ".join(msgs) or "all table facts hold")
    return _facts_memo[key]


# ---------------- (c) reader layout

def cname(t):
    """short name of an unevaluated Table const in a term"""
    if isinstance(t, tuple) and t and t[0] == "const" and isinstance(t[1], str) and "Table>::" in t[1]:
        return t[1].rsplit("::", 1)[-1]
    return None


def shift_amount(t):
    """list of const names making up a shift amount (sum of named consts)"""
    t = flow.simplify_term(t)
    n = cname(t)
    if n:
        return [n]
    if isinstance(t, tuple) and t[0] == "field" and t[2] == "0" and t[1][0] == "binop" and t[1][1].startswith("Add"):
        a, b = shift_amount(t[1][2]), shift_amount(t[1][3])
        if a is not None and b is not None:
            return a + b
    if isinstance(t, tuple) and t[0] == "binop" and t[1].startswith("Add"):
        a, b = shift_amount(t[2]), shift_amount(t[3])
        if a is not None and b is not None:
            return a + b
    return None


def mask_width(t):
    """(1 << W) - 1  ->  W name"""
    t = flow.simplify_term(t)
    if isinstance(t, tuple) and t[0] == "field" and t[2] == "0":
        t = t[1]
    if isinstance(t, tuple) and t[0] == "binop" and t[1].startswith("Sub") and t[3] == ("const", 1):
        s = t[2]
        if isinstance(s, tuple) and s[0] == "binop" and s[1].startswith("Shl") and s[2] == ("const", 1):
            return cname(s[3])
    return None


def bits_source(t):
    """value being decoded -> (table name, [shift const names])"""
    t = flow.simplify_term(t)
    shifts = []
    while True:
        if isinstance(t, tuple) and t[0] == "binop" and t[1].startswith("Shr"):
            sa = shift_amount(t[3])
            if sa is None:
                return None
            shifts += sa
            t = t[2]
            continue
        if isinstance(t, tuple) and t[0] == "cast":
            t = t[2]
            continue
        break
    # element of T::NODES / T::CHILDREN
    if isinstance(t, tuple) and t[0] in ("field", "elem"):
        base = t[1]
        while isinstance(base, tuple) and base[0] in ("field",) and base[2] == "[]":
            base = base[1]
        n = cname(base)
        if n:
            return n, sorted(shifts)
    return None


def reader_fields(p, body):
    """[(table, shifts, width)] for every `x & ((1 << W) - 1)` in the body"""
    T = flow.Terms(p, body)
    out = []
    for bb, blk in enumerate(body.blocks):
        if blk["cleanup"]:
            continue
        for i, s in enumerate(blk["stmts"]):
            if s["k"] == "assign" and s["rv"]["k"] == "binop" and s["rv"]["op"] == "BitAnd":
                a = T.operand(s["rv"]["a"], bb, i)
                b = T.operand(s["rv"]["b"], bb, i)
                w = mask_width(b)
                src = bits_source(a)
                if w is None:
                    w = mask_width(a)
                    src = bits_source(b)
                if w is not None:
                    out.append((src, w, s["line"]))
    return out


def run(chk):
    p = core.load_program("all")
    chk.configs = ["all-features"]
    chk.explanation = __doc__
    chk.level = "translation_validation"
    repo = core.repo_dir()
    tcs = table_consts(p)
    if not chk.require("(a) table = list", "a|table", tcs, CR, "no `impl Table` with evaluated constants found"):
        return
    with open(os.path.join(VERIF, "tables", "psl_layout.json")) as fh:
        layout = json.load(fh)
    n_rules = 0
    for st, tc in sorted(tcs.items()):
        missing = [k for k in ("TEXT", "NODES", "CHILDREN", "NUM_TLD") if k not in tc or not tc[k].get("evaluated")]
        if not chk.require("(a) table = list", "a|%s|consts" % names.last_ident(st), not missing, st, "constants not evaluated: %s" % missing):
            continue
        W, text, dn, dc = decode(tc)
        sname = names.last_ident(st)
        # (b)
        for k, ok, w in wellformed(W, text, dn, dc):
            chk.ob("(b) table well-formedness", "b|%s|%s" % (sname, k), ok, tc["NODES"]["span"]["file"], w)
        # (a)
        dat = os.path.join(repo, "public-suffix", "public_suffix_list.dat")
        if not chk.require("(a) table = list", "a|dat", os.path.exists(dat), dat, "public_suffix_list.dat not found"):
            continue
        t_dat, rules = trie_from_dat(dat)
        n_rules = len(rules)
        t_tab = trie_from_table(W, text, dn, dc)
        diffs = []
        counter = [0]
        compare(t_tab, t_dat, "", diffs, counter)
        chk.ob("(a) table = list", "a|%s|trie-isomorphic" % sname, not diffs, tc["NODES"]["span"]["file"],
               ("%d differences, first: %s" % (len(diffs), diffs[:3])) if diffs else "%d trie nodes compared, %d rules of the .dat, no difference" % (counter[0], n_rules))
        chk.ob("(a) table = list", "a|%s|num-tld" % sname, W["NUM_TLD"] == len(t_dat), tc["NUM_TLD"]["span"]["file"],
               "NUM_TLD=%d, top-level labels in the list=%d" % (W["NUM_TLD"], len(t_dat)))
        chk.ob("(a) table = list", "a|%s|node-count" % sname, counter[0] == len(dn) or bool(diffs), tc["NODES"]["span"]["file"],
               "every NODES entry is reachable exactly once: %d entries, %d trie nodes" % (len(dn), counter[0]))
        chk.extra["programs"] = 1
        chk.extra["disagreements_checked"] = counter[0]
        chk.extra["rules_in_dat"] = n_rules
        chk.extra["nodes"] = len(dn)
        # writer layout constants (frozen from generator/main.go) vs declared widths
        for k, v in layout["widths"].items():
            chk.ob("(c) reader layout", "c|%s|width|%s" % (sname, k), W.get(k) == v, tc[k]["span"]["file"], "declared %s=%s, generator layout %s" % (k, W.get(k), v))

    # (c) reader field extraction
    nl = p.method("public_suffix::ListProvider", "node_label")
    ps = p.method("public_suffix::ListProvider", "public_suffix")
    if chk.require("(c) reader layout", "c|bodies", nl is not None and ps is not None, CR, "ListProvider::node_label/public_suffix not found"):
        chk.touched(nl)
        chk.touched(ps)
        # read through their inlined views: a private accessor that unpacks a table entry is part of the lookup
        from . import inline as _inl10
        # (a helper that loops — the binary search over sibling labels — stays a call: the walk step refers to it as one)
        keep_loops = (lambda cal: bool(flow.loops(cal)),)
        nl, ps = _inl10.inlined(p, nl, keep=keep_loops), _inl10.inlined(p, ps, keep=keep_loops)
        for path_ in list(nl.inlined_callees) + list(ps.inlined_callees):
            chk.touched(p.bodies.get(path_))
        got = {}
        for b in (nl, ps):
            for src, w, line in reader_fields(p, b):
                got[w] = (src, api_name(b), line)
        for table, fields in (("NODES", layout["node_fields_lsb_first"]), ("CHILDREN", layout["children_fields_lsb_first"])):
            for i, f in enumerate(fields):
                if f in layout.get("unread", []):
                    continue
                exp = (table, sorted(fields[:i]))
                g = got.get(f)
                ok = g is not None and g[0] is not None and (g[0][0], g[0][1]) == exp
                chk.ob("(c) reader layout", "c|field|%s" % f, ok, "%s" % (g[1] if g else CR),
                       "reader extracts %s from %s after shifting by %s; writer puts it above %s" % (f, g[0][0] if g and g[0] else "?", g[0][1] if g and g[0] else "?", exp[1]))
    # effective_tld_plus_one guards
    from .common import etld_rejects_empty_labels
    found, ok, et, cb, wit = etld_rejects_empty_labels(p)
    if chk.require("(c) reader layout", "c|effective_tld_plus_one", found, CR, "effective_tld_plus_one not found"):
        chk.touched(et)
        if chk.require("(c) reader layout", "c|etld|lookup", cb is not None, where(et), "expected one public_suffix call"):
            chk.ob("(c) reader layout", "c|etld|empty-labels-rejected-before-lookup", ok, where(et, cb), wit)
    # the other public lookup entry applies the same rejection
    from .common import lookup_rejects_empty_labels
    iet = p.method("public_suffix::ListProvider", "is_effective_tld")
    if chk.require("(c) reader layout", "c|is_effective_tld", iet, CR, "ListProvider::is_effective_tld not found"):
        ok2, ietv, cb2, wit2 = lookup_rejects_empty_labels(p, iet)
        chk.touched(ietv)
        chk.ob("(c) reader layout", "c|is_effective_tld|empty-labels-rejected-before-lookup", ok2, where(ietv, cb2) if cb2 is not None else where(ietv), wit2)
    walk_step_rules(chk, p, ps)
    chk.floor("(d)", 9)
    chk.floor("(a)", 3)
    chk.floor("(b)", 13)
    chk.floor("(c)", 17)
    chk.rule_text = "obligations: one per well-formedness fact, per layout field, and one trie comparison covering every node of the compiled table and every rule of the .dat (counted in disagreements_checked)"
    chk.assumptions = ["x/net/idna ToASCII of the generator = per-label punycode (no mapping)", "the walk itself (wildcard/exception/implicit * handling) is not decided"]


def _has(t, pred):
    return flow.term_contains(t, pred)


def _isc(x, pat):
    return isinstance(x, tuple) and len(x) == 4 and x[0] == "call" and isinstance(x[1], str) and names.is_(x[1], pat)


def walk_step_rules(chk, p, ps):
    R = "(d) walk step"
    if ps is None:
        chk.ob(R, "d|public_suffix", False, CR, "anchor-missing: ListProvider::public_suffix")
        return
    L = flow.loops(ps)
    if not chk.require(R, "d|loop", len(L) == 1, where(ps), "expected exactly one loop in public_suffix, found %d" % len(L)):
        return
    head = list(L)[0]
    blocks = L[head]
    # state locals, identified by what they hold (never by name)
    # (the function's own locals: those of helpers inlined into the view are numbered after them)
    n_own = len(p.bodies[ps.path].locals) if ps.path in p.bodies else len(ps.locals)
    cand = [i for i in range(ps.arg_count + 1, min(n_own, len(ps.locals)))]
    rows0 = flow.loop_steps(p, ps, head, blocks, cand)
    if not chk.require(R, "d|rows", rows0 and all(r["conds"] is not None for r in rows0), where(ps), "loop step table could not be enumerated"):
        return
    # a helper inlined several times tests the same value several times: rows deciding one test both ways are infeasible
    from . import normal as _normal10
    rows0 = [r for r in rows0 if not _normal10.contradictory([(t, l) for t, l, sb in r["conds"]])]
    cont = [r for r in rows0 if r["kind"] == "continue"]
    exits = [r for r in rows0 if r["kind"] == "exit"]
    cn = lambda nm: (lambda x: isinstance(x, tuple) and len(x) == 2 and x[0] == "const" and isinstance(x[1], str) and x[1].endswith("::" + nm))

    # loop-carried locals: those whose value at the loop head is read by some row (temporaries holding a copy are not)
    carried = set()
    def _note(x):
        if isinstance(x, tuple) and len(x) == 2 and x[0] == "in" and isinstance(x[1], int):
            carried.add(x[1])
        return False
    for r in rows0:
        for t, l, sb in r["conds"]:
            flow.term_contains(t, _note)
        for l2, v in r["state"].items():
            if v != ("in", l2):
                flow.term_contains(v, _note)

    def find_local(pred):
        out = [l for l in cand if cont and all(pred(r["state"][l], l) for r in cont)]
        if len(out) > 1:
            out = [l for l in out if l in carried] or out
        return out[0] if len(out) == 1 else None

    tested = {t[1] for r in rows0 for t, l, sb in r["conds"] if isinstance(t, tuple) and len(t) == 2 and t[0] == "in"}
    wl = find_local(lambda t, l: ps.local_ty(l) == "bool" and l in tested and _has(t, cn("CHILDREN_BITS_WILDCARD")))
    simp = flow.simplify_term
    s_l = find_local(lambda t, l: ps.local_ty(l) == "&str" and _isc(t, "Index::index") and t[2][0] == ("in", l))
    # the part still to be matched, kept as a shrinking slice `s` or as an end index into the whole domain (`domain[..end]`)
    is_prefix_of_domain = lambda x, l: _isc(x, "Index::index") and x[2][0] in (("param", 2), ("in", 2)) and isinstance(x[2][1], tuple) and len(x[2][1]) == 4 and x[2][1][0] == "agg" and str(x[2][1][1]).endswith("RangeTo") and dict(x[2][1][3]).get("end") == ("in", l)
    end_l = None
    if s_l is None:
        end_l = find_local(lambda t, l: ps.local_ty(l) == "usize" and isinstance(simp(t), tuple) and simp(t)[:1] == ("payload",) and _isc(simp(t)[1], "str::rfind") and is_prefix_of_domain(simp(t)[1][2][0], l))
    lo = find_local(lambda t, l: ps.local_ty(l) == "u32" and simp(t)[0] == "binop" and simp(t)[1] == "BitAnd" and _has(simp(t), cn("CHILDREN_BITS_LO")) and not _has(simp(t), cn("CHILDREN_BITS_HI")))
    hi = find_local(lambda t, l: ps.local_ty(l) == "u32" and simp(t)[0] == "binop" and simp(t)[1] == "BitAnd" and _has(simp(t), cn("CHILDREN_BITS_HI")) and not _has(simp(t), cn("CHILDREN_BITS_NODE_TYPE")))
    from .common import place_reads, term_reads
    after = set()
    post_blocks = ps.reachable([r["end"] for r in rows0 if r["kind"] == "exit"][:1], follow_yield_drop=False) - blocks
    for bb in post_blocks:
        for st in ps.blocks[bb]["stmts"]:
            if st["k"] == "assign":
                after |= {pj["l"] for pj in place_reads(st["rv"])}
        after |= {pj["l"] for pj in term_reads(ps.blocks[bb]["term"])}
    # the suffix position: kept as a range `start..` or as the start index itself
    sfx = [l for l in cand if (ps.local_ty(l).startswith("core::ops::range::RangeFrom<usize>") or ps.local_ty(l) == "usize") and l in after and any(r["state"][l] != ("in", l) for r in rows0)]
    sfx = sfx[0] if len(sfx) == 1 else None
    walk_l = s_l if s_l is not None else end_l
    if not chk.require(R, "d|state", None not in (wl, walk_l, lo, hi, sfx), where(ps), "state variables not identified (wildcard=%s s=%s end=%s lo=%s hi=%s suffix=%s)" % (wl, s_l, end_l, lo, hi, sfx)):
        return
    IN = lambda l: ("in", l)
    # the walked string: the slice variable itself, or domain[..end]
    is_walk = (lambda x: x == IN(s_l)) if s_l is not None else (lambda x: is_prefix_of_domain(x, end_l))
    is_walk_len = (lambda x: _isc(x, "str::len") and is_walk(x[2][0])) if s_l is not None else (lambda x: x == IN(end_l) or (_isc(x, "str::len") and is_walk(x[2][0])))
    dot = lambda t: _isc(t, "str::rfind") and is_walk(t[2][0]) and t[2][1] == ("const", 46)
    from . import normal, summary
    Nn = normal.Normalizer(p, summary.Summaries(p))

    def start_of(t):
        """the start index of a suffix position: of `start..` it is `start`; selections are mapped branch by branch"""
        if isinstance(t, tuple) and len(t) == 4 and t[0] == "agg" and t[1].endswith("RangeFrom"):
            return dict(t[3]).get("start")
        if isinstance(t, tuple) and t and t[0] == "gamma":
            return ("gamma", t[1], tuple((l, start_of(v)) for l, v in t[2]))
        return t

    def plus_one(v, x):
        if isinstance(v, tuple) and len(v) == 3 and v[0] == "field" and v[2] == "0":
            v = v[1]
        return isinstance(v, tuple) and len(v) == 4 and v[0] == "binop" and v[1].startswith("Add") and ((v[2] == x and v[3] == ("const", 1)) or (v[3] == x and v[2] == ("const", 1)))

    def label_start(t, dot_pred, conds=()):
        """t = the index just after the last '.' of the walked string, or 0 when it has none — as a selection on the
        presence of that dot, or already decided by the tests of the row it appears in; private helpers looked through"""
        t = start_of(Nn.inline(t))
        for c_, l_, sb_ in conds:
            t = flow._resolve_nested(t, c_, l_)
        t = flow.simplify_term(t)
        if isinstance(t, tuple) and t and t[0] == "gamma":
            seen = set()
            for l_, v in t[2]:
                pt = flow.presence_test(t[1], l_)
                if pt is None or pt[1] is None or not dot_pred(pt[0]):
                    return False
                if not (plus_one(v, ("payload", pt[0])) if pt[1] else v == ("const", 0)):
                    return False
                seen.add(pt[1])
            return seen == {True, False}
        # decided by the row: the dot is there (index + 1) or not (0)
        for c_, l_, sb_ in conds:
            pt = flow.presence_test(c_, l_)
            if pt is not None and pt[1] is not None and dot_pred(pt[0]):
                return plus_one(t, ("payload", pt[0])) if pt[1] else t == ("const", 0)
        return False

    at_label = lambda t, conds=(): label_start(t, dot, conds)
    def one_further(t):
        """1 + the length of the walked string"""
        v = start_of(Nn.inline(t))
        if isinstance(v, tuple) and len(v) == 3 and v[0] == "field" and v[2] == "0":
            v = v[1]
        return isinstance(v, tuple) and len(v) == 4 and v[0] == "binop" and v[1].startswith("Add") and ("const", 1) in v[2:4] and any(is_walk_len(x) for x in v[2:4])
    nt_term = lambda t: isinstance(t, tuple) and t and t[0] == "binop" and t[1] == "Eq" and _has(t, cn("CHILDREN_BITS_NODE_TYPE"))
    is_normal = lambda t: nt_term(t) and _has(t, cn("NODE_TYPE_NORMAL"))
    is_exc = lambda t: nt_term(t) and _has(t, cn("NODE_TYPE_EXCEPTION"))

    def classify(r):
        d = {"wild": None, "empty": None, "found": None, "normal": None, "exc": None, "dot": None}
        for t, l, sb in r["conds"]:
            if t == IN(wl):
                d["wild"] = flow.lab_true(l)
            elif t[0] == "binop" and t[1] == "Eq" and set(t[2:4]) == {IN(lo), IN(hi)}:
                d["empty"] = flow.lab_true(l)
            elif flow.tests_presence_of(t, lambda x: _isc(x, "ListProvider::find")):
                d["found"] = flow.asserts_ok(t, l, lambda x: _isc(x, "ListProvider::find"))
                f = [x for x in flow._subjects(flow.presence_test(t, l)[0], True) if _isc(x, "ListProvider::find")][0]
                la = f[2][1] if len(f[2]) == 4 else None
                if s_l is not None:
                    label_ok = _isc(la, "Index::index") and la[2][0] == IN(s_l) and at_label(la[2][1], r["conds"])
                else:
                    # domain[label..end]: from the start of the last label of domain[..end] to end
                    rg = la[2][1] if _isc(la, "Index::index") and la[2][0] in (("param", 2), ("in", 2)) else None
                    dr = dict(rg[3]) if isinstance(rg, tuple) and len(rg) == 4 and rg[0] == "agg" and str(rg[1]).endswith("::Range") else {}
                    label_ok = dr.get("end") == IN(end_l) and dr.get("start") is not None and at_label(dr["start"], r["conds"])
                d["find_args_ok"] = len(f[2]) == 4 and label_ok and f[2][2] == IN(lo) and f[2][3] == IN(hi)
            elif is_normal(t):
                d["normal"] = flow.lab_true(l)
            elif is_exc(t):
                d["exc"] = flow.lab_true(l)
            elif flow.tests_presence_of(t, dot):
                d["dot"] = flow.asserts_ok(t, l, dot)
        return d

    bad = {k: [] for k in ("d1", "d2", "d3", "d4", "d5", "d6", "d7")}
    for r in rows0:
        c = classify(r)
        sv = r["state"][sfx]
        desc = "%s row %s -> suffix' = %s" % (r["kind"], {k: v for k, v in c.items() if v is not None and k != "find_args_ok"}, flow.term_str(sv)[:70])
        if c["wild"] is None:
            bad["d1"].append(desc)
        matched_here = c["found"] and (c["normal"] or c["exc"])
        if c["exc"] and c["found"] and not c["normal"]:
            if not (r["kind"] == "exit" and one_further(sv)):
                bad["d4"].append(desc)
        elif c["normal"] and c["found"]:
            if not at_label(sv, r["conds"]):
                bad["d3"].append(desc)
        elif c["wild"]:
            if not at_label(sv, r["conds"]):
                bad["d2"].append(desc)
        else:
            if sv != IN(sfx):
                bad["d6"].append(desc)
        if r["kind"] == "continue":
            ok = c["empty"] is False and c["found"] and c.get("find_args_ok") and c["dot"] and not (c["exc"] and not c["normal"])
            st = r["state"]
            if s_l is not None:
                ok = ok and _isc(st[s_l], "Index::index") and st[s_l][2][0] == IN(s_l) and _has(st[s_l][2][1], lambda x: flow.is_payload_of(x, dot))
            else:
                ok = ok and flow.is_payload_of(simp(st[end_l]), dot)
            ok = ok and _has(simp(st[lo]), cn("CHILDREN")) and _has(simp(st[hi]), cn("CHILDREN")) and _has(simp(st[wl]), cn("CHILDREN"))
            if not ok:
                bad["d5"].append(desc)
        else:
            # exits: empty range / label not found / exception / no more labels
            reason = c["empty"] is True or c["found"] is False or (c["exc"] and not c["normal"]) or c["dot"] is False
            if not reason:
                bad["d7"].append(desc)
    site = where(ps)
    n = len(rows0)
    chk.extra["walk_step_rows"] = n
    chk.ob(R, "d|wildcard-consulted-on-every-path", not bad["d1"], site, bad["d1"][0] if bad["d1"] else "all %d rows branch on the wildcard flag inherited from the parent node" % n)
    chk.ob(R, "d|wildcard-matches-any-label", not bad["d2"], site, ("a label under a wildcard parent does not set the suffix: " + bad["d2"][0]) if bad["d2"] else "rows with the inherited wildcard set put the suffix at the current label (also when the label has its own node)")
    chk.ob(R, "d|normal-node-sets-suffix", not bad["d3"], site, bad["d3"][0] if bad["d3"] else "rows on a normal node put the suffix at the current label")
    chk.ob(R, "d|exception-node-ends-one-label-further", not bad["d4"], site, bad["d4"][0] if bad["d4"] else "rows on an exception node leave the loop with suffix = 1 + len(s)..")
    chk.ob(R, "d|descent", not bad["d5"] and len(cont) >= 2, site, bad["d5"][0] if bad["d5"] else "%d continue rows: label found in [lo,hi), children range / wildcard bit decoded from CHILDREN, s := s[..dot]" % len(cont))
    chk.ob(R, "d|otherwise-unchanged", not bad["d6"], site, bad["d6"][0] if bad["d6"] else "rows with neither inherited wildcard nor a matching node keep the suffix")
    chk.ob(R, "d|exits", not bad["d7"] and len(exits) >= 4, site, bad["d7"][0] if bad["d7"] else "%d exit rows: empty range, label not found, exception node, no more labels" % len(exits))
    # initial state and the implicit "*" rule
    T = flow.Terms(p, ps)
    pre = [b for b in ps.preds().get(head, []) if b not in blocks]
    if chk.require(R, "d|preheader", len(pre) == 1, site, "loop preheader not unique"):
        pb = pre[0]
        init = {l: flow.simplify_term(T.place(l, (), pb, "t")) for l in (lo, hi, walk_l, sfx, wl)}
        i_sfx = start_of(init[sfx])
        whole = init[walk_l] == ("param", 2) if s_l is not None else (_isc(init[walk_l], "str::len") and init[walk_l][2][0] == ("param", 2))
        ok = init[lo] == ("const", 0) and cn("NUM_TLD")(init[hi]) and whole and init[wl] == ("const", 0) and _isc(i_sfx, "str::len") and i_sfx[2][0] == ("param", 2)
        chk.ob(R, "d|initial-state", ok, where(ps, pb), "lo=%s hi=%s walked=%s wildcard=%s suffix=%s" % tuple(flow.term_str(init[k])[:40] for k in (lo, hi, walk_l, wl, sfx)))
    # after the loop: suffix == len(domain)  =>  suffix = the start of the last label of the whole domain; nothing else writes it
    from . import intervals
    iv = intervals.Intervals(p, ps)
    du = flow.DefUse(ps)
    dot_dom = lambda t: _isc(t, "str::rfind") and t[2][0] == ("param", 2) and t[2][1] == ("const", 46)

    def traces_to_suffix(op):
        pl = flow.op_place(op)
        if not pl or pl[1] not in ((), ("start",)):
            return False
        for l_ in du.trace_copy(pl[0]):
            if l_ == sfx:
                return True
            d_ = du.single_def(l_)
            if d_ and d_[0] == "assign" and d_[4]["k"] == "use":
                q = flow.op_place(d_[4]["op"])
                if q and q[0] == sfx and q[1] in ((), ("start",)):
                    return True
        return False

    def is_domain_len(op, bb):
        v = flow.simplify_term(T.operand(op, bb, "t"))
        return _isc(v, "str::len") and v[2][0] == ("param", 2)

    post_defs = []
    for bb in sorted(post_blocks):
        blk = ps.blocks[bb]
        for i, s in enumerate(blk["stmts"]):
            if s["k"] == "assign" and flow.norm_place(s["place"])[0] == sfx:
                post_defs.append((bb, flow.simplify_term(T._rvalue(s["rv"], bb, i, 0))))
        t = blk["term"]
        if t and t["k"] == "call" and flow.norm_place(t["dest"])[0] == sfx:
            post_defs.append((bb, flow.simplify_term(T._call(t, bb, 0))))
    star = len(post_defs) == 1
    for bb, v in post_defs:
        guarded = False
        for sb, l, c_ in flow.conditions(p, ps, bb, T):
            tm = ps.term(sb)
            pl = flow.op_place(tm["op"]) if tm and tm["k"] == "switch" else None
            cd = iv.cmp_defs.get(pl[0]) if pl and pl[1] == () else None
            if cd and cd[0] in ("Eq", "Ne") and ((traces_to_suffix(cd[1]) and is_domain_len(cd[2], sb)) or (traces_to_suffix(cd[2]) and is_domain_len(cd[1], sb))):
                guarded = flow.lab_true(l) if cd[0] == "Eq" else flow.lab_false(l)
        star = star and guarded and label_start(v, dot_dom)
    chk.ob(R, "d|implicit-star-rule", star, site, "when no rule matched (suffix.start == len(domain)) the suffix becomes the last label: %s" % star)
