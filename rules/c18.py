"""C18 — the sealed CTAP2 API trait behaves exactly like the direct methods.

R1 forwarding   : the async body of every `impl Ctap2Api for Authenticator` method makes exactly one
                  workspace call, and method resolution (Instance::try_resolve) picked the *inherent*
                  method of the same name on the same type.
R2 no self-cycle: no API-trait impl method (Ctap2Api, U2fApi) can reach itself in the resolved call graph
                  (the termination clause; an async self-call recurses until the stack overflows).
R3 transparent  : receiver and request are the method's own parameters, the returned value is the awaited
                  result of that one call, unmodified.
R4 sealed       : the trait has a supertrait that is not reachable from outside the crate, so this impl is
                  the only one.
"""
from . import core, flow
from .framework import where, short
from .c02 import sub as _sub

CRATE = "passkey_authenticator"
AUTH = "passkey_authenticator::authenticator::Authenticator"


def find_trait(p, name):
    c = [t for t in p.traits.values() if t["path"].startswith(CRATE + "::") and t["path"].rsplit("::", 1)[-1] == name]
    return c[0] if len(c) == 1 else None


def workspace_calls(p, body):
    out = []
    for bb, t in body.calls():
        if t.get("callee") in (flow.POLL, flow.INTO_FUTURE) or (t.get("callee") or "").split("::")[0] in ("core", "alloc", "std"):
            continue  # await plumbing / std
        names = core.callee_names(t)
        if any(n.split("::")[0].lstrip("<") in core.WORKSPACE_CRATES or n.startswith("<passkey") for n in names):
            out.append((bb, t))
    return out


def run(chk):
    p = core.load_program("all")
    chk.configs = ["all-features"]
    chk.explanation = __doc__
    og = flow.Origins(p)

    tr = find_trait(p, "Ctap2Api")
    if not chk.require("R4 sealed", "R4|Ctap2Api", tr, CRATE, "public trait Ctap2Api not found"):
        return
    tpath = tr["path"]
    # R4: sealed
    private_supers = [s for s in tr["supertraits"] if s in p.traits and not p.traits[s]["effective_pub"]]
    chk.ob("R4 sealed", "R4|Ctap2Api|sealed", bool(private_supers), tpath,
           "supertraits %s; unreachable from outside the crate: %s" % (tr["supertraits"], private_supers))
    impls = p.impls_of(trait=tpath)
    chk.ob("R4 sealed", "R4|Ctap2Api|single-impl", len(impls) == 1 and impls[0].get("self_adt") == AUTH,
           tpath, "impls in the workspace: %s" % [i["self_ty"] for i in impls])

    methods = [m for m in tr["items"]]
    chk.require("R1 forwarding", "R1|methods", len(methods) >= 3, tpath, "expected get_info/make_credential/get_assertion, found %s" % methods)
    for m in methods:
        fnb = p.method(AUTH, m, trait=tpath)
        if not chk.require("R1 forwarding", "R1|%s" % m, fnb, tpath, "impl method %s has no body" % m):
            continue
        co = p.async_body(fnb)
        if not chk.require("R1 forwarding", "R1|%s|async" % m, co, where(fnb), "async body of %s not found" % m):
            continue
        chk.touched(fnb)
        chk.touched(co)
        inherent = p.method(AUTH, m, trait=None)
        calls = workspace_calls(p, co)
        fwd = [(bb, t) for bb, t in calls if inherent is not None and t.get("resolved") == inherent.path]
        other = [(bb, t) for bb, t in calls if not (inherent is not None and t.get("resolved") == inherent.path)]
        ok = inherent is not None and len(fwd) == 1 and not other
        if ok:
            wit = "single workspace call resolves to inherent %s" % short(inherent.path)
        else:
            wit = "workspace calls in the async body resolve to: %s (inherent twin: %s)" % (
                [short(core.callee_of(t)) + " [" + (t.get("resolved_item", {}).get("container") or "?") + "]" for _, t in calls],
                short(inherent.path) if inherent else "missing")
        site = where(co, calls[0][0]) if calls else where(co)
        chk.ob("R1 forwarding", "R1|Ctap2Api::%s" % m, ok, site, wit)

        # R3 transparency
        if fwd:
            bb, t = fwd[0]
            og.opaque = frozenset([inherent.path])
            okargs = True
            wits = []
            for i, a in enumerate(t["args"]):
                at = og.of_operand(co, a)
                s = flow.atoms_summary(at)
                wits.append("arg%d<-%s" % (i, s))
                if not all(x[0] == "upvar" and x[1] == i for x in at):
                    okargs = False
                # ... and it is that parameter as it was received: not updated in place (`request.allow_list.as_mut()…retain`),
                # not rebuilt with a member replaced — the value term is the parameter itself
                vt = flow.simplify_term(flow.Terms(p, co).operand(a, bb, "t"))
                if vt != ("upvar", i):
                    okargs = False
                    wits.append("arg%d is not the parameter unchanged: %s" % (i, flow.term_str(vt)[:120]))
            chk.ob("R3 transparent", "R3|Ctap2Api::%s|args" % m, okargs, where(co, bb), "; ".join(wits))
            ret = og.of_place(co, 0)
            rs = flow.atoms_summary(ret)
            okret = all(x[0] == "call" and x[2] == inherent.path for x in ret) and len(ret) >= 1
            if not okret:
                # the result taken apart and re-wrapped unchanged (`Ok(x.await?)`, match arms that rebuild the same variant)
                from . import normal, summary
                Nn = normal.Normalizer(p, summary.Summaries(p))
                Tt = flow.Terms(p, co)
                ico = p.async_body(inherent)
                same_ty = ico is not None and ico.j["locals"][0]["ty"] == co.j["locals"][0]["ty"]
                rts = [Nn.norm(Tt.place(0, (), rb, "t")) for rb in co.return_blocks()]
                fw = [x for rt in rts for x in _sub(rt) if isinstance(x, tuple) and len(x) == 4 and x[0] == "await" and x[1] == inherent.path]
                okret = bool(rts) and bool(fw) and all(normal.rebuilds(rt, fw[0], residual_ok=same_ty) for rt in rts)
                if okret:
                    rs = "the awaited result of %s, re-wrapped variant by variant (same result type: %s)" % (short(inherent.path), same_ty)
            chk.ob("R3 transparent", "R3|Ctap2Api::%s|result" % m, okret, where(co), "return value origins: %s" % rs)

    # R2: no API-trait impl method reaches itself
    api_traits = [tpath]
    u2f = find_trait(p, "U2fApi")
    if u2f:
        api_traits.append(u2f["path"])
    n_r2 = 0
    for tp in api_traits:
        for (adt, trait, name), bodies in sorted(p.methods.items(), key=lambda kv: str(kv[0])):
            if trait != tp:
                continue
            for fnb in bodies:
                n_r2 += 1
                reach = p.call_closure([fnb])
                cyc = None
                for path, b in reach.items():
                    for bb, t in b.calls():
                        if fnb.path in core.callee_names(t):
                            cyc = (b, bb)
                            break
                    if cyc:
                        break
                chk.touched(fnb)
                chk.ob("R2 no self-cycle", "R2|%s::%s" % (tp.rsplit("::", 1)[-1], name), cyc is None,
                       where(cyc[0], cyc[1]) if cyc else where(fnb),
                       ("%s is called again from %s: unconditional async recursion" % (short(fnb.path), short(cyc[0].path))) if cyc
                       else "not reachable from itself (%d bodies in its call closure)" % len(reach))
    chk.floor("R1", 3)
    chk.floor("R2", 5)
    chk.floor("R3", 6)
    chk.floor("R4", 2)
    chk.assumptions = ["async_trait's boxing is plumbing (Box::pin of the async block)",
                       "the inherent methods themselves are covered by C02-C09"]
