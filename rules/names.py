"""Name matching that does not depend on private module paths.

Facts carry real definition paths (`passkey_types::ctap2::attestation_fmt::AuthenticatorData::new`).
Rules name items the way the public API does: "AuthenticatorData::new",
"CredentialStore::find_credentials" (trait method, any Self), or a full std path.
"""
import re


def strip_generics(s):
    """remove every balanced <...> group that follows '::' or an identifier, but keep a
    leading qualified-path '<T as Trait>' intact for parse_qualified."""
    out = []
    depth = 0
    i = 0
    while i < len(s):
        c = s[i]
        if c == "<":
            depth += 1
        elif c == ">":
            depth -= 1
        elif depth == 0:
            out.append(c)
        i += 1
    r = "".join(out)
    r = r.replace("::::", "::")
    while r.endswith("::"):
        r = r[:-2]
    return r


def split_top(s, sep):
    """split at top-level (not inside <>, (), []) occurrences of sep"""
    parts, depth, cur, i = [], 0, [], 0
    while i < len(s):
        c = s[i]
        if c in "<([":
            depth += 1
        elif c in ">)]":
            depth -= 1
        if depth == 0 and s.startswith(sep, i):
            parts.append("".join(cur))
            cur = []
            i += len(sep)
            continue
        cur.append(c)
        i += 1
    parts.append("".join(cur))
    return parts


def parse(path):
    """-> dict(self_ty, trait, segs) for '<T as Trait>::m::{closure#0}' or plain paths;
    segs are the generic-free trailing segments."""
    self_ty = trait = None
    rest = path
    if path.startswith("<"):
        depth = 0
        for i, c in enumerate(path):
            if c == "<":
                depth += 1
            elif c == ">":
                depth -= 1
                if depth == 0:
                    inner = path[1:i]
                    rest = path[i + 1:]
                    parts = split_top(inner, " as ")
                    self_ty = parts[0]
                    trait = parts[1] if len(parts) > 1 else None
                    break
    segs = [strip_generics(x) for x in split_top(rest, "::") if x != ""]
    segs = [x for x in segs if x]
    return {"self_ty": self_ty, "trait": trait, "segs": segs}


def last_ident(type_str):
    """'passkey_types::ctap2::Foo<T>' -> 'Foo'"""
    if type_str is None:
        return None
    s = strip_generics(type_str).strip()
    s = s.lstrip("&").replace("mut ", "").strip()
    return s.rsplit("::", 1)[-1]


def canon(path):
    """canonical short forms of a def path: set of strings like 'Type::method',
    'Trait::method', 'Type as Trait::method', and the generic-free full path."""
    d = parse(path)
    out = set()
    segs = d["segs"]
    full = "::".join(segs)
    if d["self_ty"] is None:
        out.add(full)
        # inherent impl printed as module::<impl Type>::method  -> segs lose the <impl ..>; recover
        m = re.search(r"<impl ([^>]*(?:<[^>]*>)?[^>]*)>::([A-Za-z_0-9]+)(?:::<.*>)?$", path)
        if m:
            out.add("%s::%s" % (last_ident(m.group(1)), m.group(2)))
        m = re.search(r"<impl (.+?) for (.+)>::([A-Za-z_0-9]+)(?:::<.*>)?$", path)
        if m:
            tr, st, meth = last_ident(m.group(1)), last_ident(m.group(2)), m.group(3)
            out.add("%s::%s" % (tr, meth))
            out.add("%s::%s" % (st, meth))
            out.add("%s as %s::%s" % (st, tr, meth))
        if len(segs) >= 2:
            out.add("::".join(segs[-2:]))
        if segs:
            out.add(segs[-1])
    else:
        st, tr = last_ident(d["self_ty"]), last_ident(d["trait"])
        tail = "::".join(segs)
        if tr:
            out.add("%s::%s" % (tr, tail))
            out.add("%s as %s::%s" % (st, tr, tail))
        out.add("%s::%s" % (st, tail))
    return out


_cache = {}
ALIASES = {}   # def path -> extra canonical names (rules/roles.py: a private helper found by its role, under its usual name)


def is_(path, pat):
    """does def path `path` denote `pat` ('Type::method' / 'Trait::method' / full std path)?"""
    if not path:
        return False
    k = path
    if k not in _cache:
        c0 = canon(path)
        if ALIASES:
            extra = ALIASES.get(path) or ALIASES.get(strip_generics(path))
            if extra:
                c0 = set(c0) | set(extra)
        _cache[k] = c0
    c = _cache[k]
    if pat in c:
        return True
    full = strip_generics(path) if not path.startswith("<") else None
    if full and (full == pat or full.endswith("::" + pat)):
        return True
    return False


def call_is(t, *pats):
    """call terminator matches any of pats by declared callee or resolved instance"""
    for n in (t.get("callee"), t.get("resolved")):
        if n:
            for p in pats:
                if is_(n, p):
                    return True
    return False


def calls_to(body, *pats):
    return [(bb, t) for bb, t in body.calls() if call_is(t, *pats)]
