"""Positional writes into byte buffers: the writer-side dual of rules/bytesview.py.

A message can be assembled as a chain / concat / push-extend sequence (flow.byte_segments) or by filling a buffer at
positions: `buf[..32].copy_from_slice(a); buf[32] = b; buf[33..37].copy_from_slice(&n.to_be_bytes())`, through
`split_at_mut` halves, or byte by byte with shifts.  `positional_writes` lists every such write of a body as
(root buffer term, lo, hi, source, block); `segments_of(root)` turns the writes into one ordered segment list — the same
form byte_segments gives for a chain — when they tile the buffer (gaps of a zero-initialised buffer are zero bytes).
Pure reading of MIR facts and value terms; nothing is executed.
"""
from . import flow, names, bytesview


def root_of(t):
    """the buffer a (partially updated) buffer term started as"""
    seen = 0
    while isinstance(t, tuple) and t and seen < 200:
        seen += 1
        if t[0] == "upd" and len(t) == 4:
            t = t[2]
        elif t[0] == "with" and len(t) == 3:
            t = t[1]
        elif len(t) == 4 and t[0] == "call" and t[2] and any(names.is_(t[1], s) for s in ("Deref::deref", "DerefMut::deref_mut", "AsMut::as_mut", "AsRef::as_ref", "array::as_mut_slice", "Vec::as_mut_slice", "array::as_slice", "Vec::as_slice")):
            t = t[2][0]
        elif t[0] in ("gamma", "phi") and seen < 60:
            # a buffer that was (or was not) updated on different paths is still the same buffer
            brs = [v for l_, v in t[2]] if t[0] == "gamma" else list(t[1])
            roots = {root_of(v) for v in brs if not (isinstance(v, tuple) and len(v) == 2 and v[0] == "cyclic")}
            roots = {r for r in roots if not flow.term_contains(r, lambda y: isinstance(y, tuple) and len(y) == 2 and y[0] == "cyclic")} or roots
            if len(roots) == 1:
                t = next(iter(roots))
            break
        else:
            break
    return t


def positional_writes(p, body, N, T=None):
    """[(root term, lo, hi | None, ("slice", src) | ("byte", value) | ("fill", value), bb)]"""
    if T is None:
        T = flow.Terms(p, body)
    T.indexed = True
    out = []
    for bb, t in body.calls():
        if names.call_is(t, "slice::copy_from_slice", "slice::clone_from_slice") and len(t["args"]) == 2:
            dst = N.norm(T.operand(t["args"][0], bb, "t"))
            v = bytesview.closed_view(dst)
            src = N.norm(T.operand(t["args"][1], bb, "t"))
            out.append((root_of(v[0]), v[1], v[2], ("slice", src), bb))
        elif names.call_is(t, "slice::fill") and len(t["args"]) == 2:
            dst = N.norm(T.operand(t["args"][0], bb, "t"))
            v = bytesview.closed_view(dst)
            out.append((root_of(v[0]), v[1], v[2], ("fill", N.norm(T.operand(t["args"][1], bb, "t"))), bb))
    for bb, blk in enumerate(body.blocks):
        if blk["cleanup"]:
            continue
        for i, s in enumerate(blk["stmts"]):
            if s["k"] != "assign":
                continue
            pj = [e for e in s["place"]["p"] if e["k"] != "deref"]
            if not pj or pj[-1]["k"] not in ("index", "cindex") or any(e["k"] in ("index", "cindex", "subslice") for e in pj[:-1]):
                continue
            if pj[-1]["k"] == "cindex" and pj[-1].get("from_end"):
                continue
            l, path = flow.norm_place(s["place"])
            base = N.norm(T.place(l, path[:-1], bb, i))
            it = N.norm(T.place(pj[-1]["l"], (), bb, i)) if pj[-1]["k"] == "index" else ("const", pj[-1]["offset"])
            k = bytesview._const(it)
            v = bytesview.closed_view(base)
            val = N.norm(T._rvalue(s["rv"], bb, i, 0))
            if k is None:
                out.append((root_of(v[0]), None, None, ("byte", val), bb))
            else:
                out.append((root_of(v[0]), v[1] + k, v[1] + k + 1, ("byte", val), bb))
    return out


def segments_of(writes, root, total=None):
    """ordered byte segments of the buffer `root` from its positional writes, or None when they do not tile it
    (an unknown position, an overlap, a gap in a buffer that was not zero-initialised)"""
    ws = [w for w in writes if w[0] == root]
    if not ws or any(w[1] is None for w in ws):
        return None
    n = total if total is not None else bytesview.known_len(root)
    # what the unwritten positions hold: the value the buffer was filled with (`[0; N]`, `[0x04; N]`)
    fill = root[1][1] if isinstance(root, tuple) and len(root) == 3 and root[0] == "repeat" and isinstance(root[1], tuple) and root[1][:1] == ("const",) and isinstance(root[1][1], int) and 0 <= root[1][1] < 256 else None
    zero = fill is not None
    ws = sorted(ws, key=lambda w: w[1])
    out = []
    pos = 0
    for r, lo, hi, src, bb in ws:
        if hi is None:
            hi = n
        if hi is None or lo < pos:
            return None
        if lo > pos:
            if not zero:
                return None
            out.append(("bytes", bytes([fill]) * (lo - pos)))
        if src[0] == "slice":
            out += flow.byte_segments(src[1])
        elif src[0] == "byte":
            out.append(("array", (src[1],)))
        else:
            if src[1] != ("const", 0):
                return None
            out.append(("bytes", bytes(hi - lo)))
        pos = hi
    if n is not None and pos < n:
        if not zero:
            return None
        out.append(("bytes", bytes([fill]) * (n - pos)))
    return out


def written_before(body, writes, root, use_bb):
    """every write to `root` happens on all paths to the use (its block cannot be bypassed)"""
    preds = body.preds()
    for r, lo, hi, src, bb in writes:
        if r != root or bb == use_bb:
            continue
        if not flow.cut_by_edges(body, 0, [use_bb], [(pb, bb) for pb in preds.get(bb, [])]):
            return False
    return True


def returned_segments(p, N, body):
    """ordered byte segments of the byte sequence a function returns — built as a chain / concat / push-extend sequence, by
    a private encoder it calls, or in a fixed buffer filled at positions; adjacent constants merged.  The function is read
    through its inlined view (private helpers are part of it)."""
    from . import inline
    view = inline.inlined(p, body) or body
    T = flow.Terms(p, view)
    ret = N.norm(T.place(0, (), view.return_blocks()[0], "t"))
    segs = flow.expand_byte_calls(p, N, flow.byte_segments(ret))
    if len(segs) == 1:
        W = positional_writes(p, view, N)
        root = root_of(segs[0])
        s2 = segments_of(W, root)
        if s2 is not None:
            segs = s2
    return flow.merge_const_segments(segs), view


def _int_byte(v):
    """a single byte that is byte k of an integer: -> (integer term, ("elem", order, k)) for `x.to_be_bytes()[k]`, or
    (integer term, ("shift", s)) for `(x >> s) as u8`; None otherwise"""
    x = v
    while isinstance(x, tuple) and x and x[0] == "cast" and len(x) == 3 and x[1] == "u8":
        x = x[2]
    if x is not v or True:
        y = x
        if isinstance(y, tuple) and len(y) == 3 and y[0] == "elem_at" and isinstance(y[1], tuple) and len(y[1]) == 4 and y[1][0] == "call" and bytesview._const(y[2]) is not None:
            for order in ("be", "le", "ne"):
                if y[1][1].endswith("::to_%s_bytes" % order) and len(y[1][2]) == 1:
                    return (y[1][2][0], ("elem", order, bytesview._const(y[2]), y[1][1]))
        if v is not x:
            if isinstance(y, tuple) and len(y) == 4 and y[0] == "binop" and y[1] in ("Shr", "ShrUnchecked") and bytesview._const(y[3]) is not None:
                return (y[2], ("shift", bytesview._const(y[3])))
            return (y, ("shift", 0))
    return None


def grouped_writes(writes, root):
    """[(lo, hi, source term)] of the positional writes into `root`, in position order, with runs of single-byte stores
    that spell an integer byte by byte (`buf[5] = (n >> 8) as u8; buf[6] = n as u8`, `let [a, b, c, d] = x.to_ne_bytes();
    buf[0] = a; ...`) merged into the one slice write they amount to (`x.to_be_bytes()` …)"""
    ws = sorted([w for w in writes if w[0] == root and w[1] is not None], key=lambda w: w[1])
    out = []
    i = 0
    while i < len(ws):
        r, lo, hi, src, bb = ws[i]
        if src[0] == "byte" and hi == lo + 1:
            ib = _int_byte(src[1])
            if ib is not None:
                run = [(lo, ib)]
                j = i + 1
                while j < len(ws) and ws[j][3][0] == "byte" and ws[j][1] == run[-1][0] + 1:
                    nb = _int_byte(ws[j][3][1])
                    if nb is None or nb[0] != ib[0]:
                        break
                    run.append((ws[j][1], nb))
                    j += 1
                n = len(run)
                kinds = [k[1] for p_, k in run]
                merged = None
                if n in (2, 4, 8):
                    ty = {2: "u16", 4: "u32", 8: "u64"}[n]
                    if all(k[0] == "elem" for k in kinds) and len({k[1] for k in kinds}) == 1 and [k[2] for k in kinds] == list(range(n)):
                        merged = ("call", kinds[0][3], (ib[0],), 0)
                    elif all(k[0] == "shift" for k in kinds) and [k[1] for k in kinds] == [8 * (n - 1 - q) for q in range(n)]:
                        merged = ("call", "core::num::<impl %s>::to_be_bytes" % ty, (ib[0],), 0)
                    elif all(k[0] == "shift" for k in kinds) and [k[1] for k in kinds] == [8 * q for q in range(n)]:
                        merged = ("call", "core::num::<impl %s>::to_le_bytes" % ty, (ib[0],), 0)
                if merged is not None:
                    out.append((lo, lo + n, merged))
                    i = j
                    continue
        out.append((lo, hi, src[1]))
        i += 1
    return out
