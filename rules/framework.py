"""Obligation bookkeeping, known findings, floors, evidence and exit codes."""
import json
import os
import sys
import time

from . import core

VERIF = core.VERIF


class Obligation:
    def __init__(self, rule, key, ok, construct, witness, nontrivial=True):
        self.rule = rule  # e.g. "R2 checked arithmetic"
        self.key = key  # stable key (no line numbers): "<rule>|<item>|<detail>"
        self.ok = ok
        self.construct = construct  # human readable: file:line function / statement
        self.witness = witness  # why discharged / what violates
        self.nontrivial = nontrivial
        self.known = None

    def to_json(self):
        d = {
            "rule": self.rule,
            "key": self.key,
            "verdict": "discharged" if self.ok else ("known-finding" if self.known else "violated"),
            "construct": self.construct,
            "witness": self.witness,
        }
        return d


class Check:
    def __init__(self, prop, tier="quick", level="other"):
        self.prop = prop
        self.tier = tier
        self.level = level
        self.obs = []
        self.t0 = time.time()
        self.explanation = ""
        self.rule_text = ""
        self.assumptions = []
        self.trusted_base = [
            "rustc nightly MIR construction and method resolution (facts come from the compiler, not from text)",
            "engines/mirfacts fact extractor",
            "frozen specification tables under /verif/tables",
        ]
        self.extra = {}
        self.floors = {}
        self.analysed_functions = set()
        self.configs = []
        self.info = []
        self.config = os.environ.get("VERIF_CONFIG") or "all"

    # ---- recording
    def ob(self, rule, key, ok, construct, witness, nontrivial=True):
        o = Obligation(rule, key, bool(ok), construct, witness, nontrivial)
        self.obs.append(o)
        return o

    def require(self, rule, key, value, construct, what):
        """Anchor presence: fail closed if an expected program element is missing."""
        if value is None or value is False or value == []:
            self.ob(rule, key, False, construct, "anchor-missing: " + what)
            return False
        return True

    def note(self, s):
        self.info.append(s)

    def floor(self, rule_prefix, n, default=None):
        """hand-confirmed instance count of a rule family on the pinned tree (all-features build; `default` = the count
        on the default-features build when it differs, e.g. without the tokio lock wrappers)"""
        self.floors[rule_prefix] = default if (self.config == "default" and default is not None) else n

    def absorb(self, other, tag):
        """merge the obligations of a run of the same rules on another feature configuration (thorough tier)"""
        for pref, n in other.floors.items():
            have = sum(1 for o in other.obs if o.rule.startswith(pref))
            if have < n:
                other.ob(pref, "%s|below-floor" % pref, False, "rule instance count",
                         "below-floor (%s build): %d obligations found, %d confirmed by hand" % (tag, have, n))
        for o in other.obs:
            o.rule = "%s: %s" % (tag, o.rule)
            self.obs.append(o)
        self.analysed_functions |= other.analysed_functions
        self.configs = list(self.configs) + [c for c in other.configs if c not in self.configs]
        self.info += ["%s: %s" % (tag, s) for s in other.info]

    def touched(self, body):
        if body is not None:
            self.analysed_functions.add(body.path)

    # ---- finishing
    def finish(self):
        kf = load_known_findings()
        opens = {(e["property"], e["key"]): e for e in kf.get("open", [])}
        # floors: fail closed when fewer obligations than hand-confirmed
        for pref, n in self.floors.items():
            have = sum(1 for o in self.obs if o.rule.startswith(pref))
            if have < n:
                self.ob(pref, "%s|below-floor" % pref, False, "rule instance count",
                        "below-floor: %d obligations found, %d confirmed by hand on the pinned tree" % (have, n))
        violations = []
        known = []
        for o in self.obs:
            if not o.ok:
                e = opens.get((self.prop, o.key))
                if e is not None:
                    o.known = e
                    known.append(o)
                else:
                    violations.append(o)
        os.makedirs(os.path.join(VERIF, "evidence", "replay"), exist_ok=True)
        printed = set()
        for o in known:
            if o.key in printed:
                continue  # the same finding seen again on another feature configuration
            printed.add(o.key)
            print("KNOWN-FINDING: property=%s %s [%s] %s" % (self.prop, o.known.get("what", ""), o.key, o.construct))
        lines = []
        for i, o in enumerate(violations):
            rp = os.path.join(VERIF, "evidence", "replay", "%s-%d.json" % (self.prop, i))
            with open(rp, "w") as fh:
                json.dump({"property": self.prop, "obligation": o.to_json(), "repo": core.repo_dir()}, fh, indent=1)
            print("  violated: rule=%s key=%s" % (o.rule, o.key))
            print("            at %s" % o.construct)
            print("            %s" % o.witness)
            lines.append("VIOLATION property=%s replay=%s" % (self.prop, rp))
        n = len(self.obs)
        disc = sum(1 for o in self.obs if o.ok)
        by_rule = {}
        for o in self.obs:
            r = by_rule.setdefault(o.rule, [0, 0])
            r[0] += 1
            r[1] += 1 if o.ok else 0
        for r in sorted(by_rule):
            print("  %-58s %d/%d" % (r, by_rule[r][1], by_rule[r][0]))
        for s in self.info:
            print("  note: " + s)
        nontriv = len({o.key for o in self.obs if o.nontrivial})
        samples = [o.to_json() for o in self.obs if not o.ok][:6] + [o.to_json() for o in self.obs if o.ok][:10]
        cov = {
            "explanation": self.explanation,
            "obligations": n,
            "discharged": disc,
            "evaluations": max(n, 1),
            "distinct_nontrivial": nontriv,
            "rule": self.rule_text or "one obligation per (rule, program construct) enumerated from the compiler's MIR/type facts of /repo's current tree; non-trivial = discharge needed a witness (guard, value-flow slice, table row)",
            "samples": samples,
            "by_rule": {r: {"obligations": v[0], "discharged": v[1]} for r, v in sorted(by_rule.items())},
            "functions_analysed": len(self.analysed_functions),
            "functions": sorted(self.analysed_functions)[:80],
            "configs": self.configs,
            "known_findings": [o.to_json() for o in known],
            "checker_cmd": "./check %s --tier %s" % (self.prop, self.tier),
            "trusted_base": self.trusted_base,
            "exhaustive": True,
            "notes": self.info,
        }
        cov.update(self.extra)
        ev = {
            "property_id": self.prop,
            "tier": self.tier,
            "seed": int(os.environ.get("VERIF_SEED", "0") or 0),
            "level": self.level,
            "coverage": cov,
            "assumptions": self.assumptions,
            "wall_s": round(time.time() - self.t0, 2),
            "violations": len(violations),
        }
        with open(os.path.join(VERIF, "evidence", "%s.json" % self.prop), "w") as fh:
            json.dump(ev, fh, indent=1)
        if violations:
            for l in lines:
                print(l)
            return 1
        print("OK property=%s obligations=%d discharged=%d known_findings=%d" % (self.prop, n, disc, len(known)))
        return 0


def load_known_findings():
    p = os.path.join(VERIF, "known_findings.json")
    if not os.path.exists(p):
        return {"open": [], "fixed": []}
    with open(p) as fh:
        return json.load(fh)


def where(body, bb=None, line=None):
    if body is None:
        return "?"
    if line is not None:
        return "%s:%d (%s)" % (body.file, line, short(body.path))
    if bb is not None:
        t = body.term(bb)
        return "%s:%d (%s bb%d)" % (body.file, t["line"] if t else body.line, short(body.path), bb)
    return "%s:%d (%s)" % (body.file, body.line, short(body.path))


def short(path):
    """shorten a def path for messages (keeps it unambiguous enough)"""
    s = path.replace("passkey_authenticator::", "pa::").replace("passkey_types::", "pt::").replace("passkey_client::", "pc::")
    return s if len(s) < 140 else s[:60] + "…" + s[-70:]


def api_name(body):
    """stable public-API style name of the function a body belongs to: 'Type::method' / 'Type as Trait::method'"""
    if body is None:
        return "?"
    ri = body.j.get("root_item")
    root = body.root
    name = root.rsplit("::", 1)[-1]
    suffix = body.path[len(root):]
    if ri and "impl" in ri:
        st = (ri["impl"].get("self_adt") or ri["impl"].get("self_ty") or "?").rsplit("::", 1)[-1]
        tr = ri["impl"].get("trait")
        base = "%s as %s::%s" % (st, tr.rsplit("::", 1)[-1], name) if tr else "%s::%s" % (st, name)
    else:
        base = "::".join(root.split("::")[-2:]) if root.count("::") > 1 else root
    return base + suffix.replace("::{closure#0}", "", 1) if suffix.startswith("::{closure#0}") and body.is_coroutine else base + suffix


def borrow(chk, module, wanted, why):
    """Obligations that two properties share: run the rule module that owns them and take over the ones whose key starts
    with one of `wanted` — under this property too, so that the check of *this* property reports their violation.
    Fails closed: the owner crashing, or none of the wanted obligations being produced, is itself a violated obligation."""
    import importlib, traceback
    from . import core
    mod = importlib.import_module("rules.%s" % module.lower())
    other = Check(module.upper(), chk.tier)
    try:
        mod.run(other)
    except core.ToolFailure:
        raise
    except Exception as e:
        sys.stderr.write(traceback.format_exc())
    got = [o for o in other.obs if any(o.key.startswith(w) for w in wanted)]
    for w in wanted:
        if not any(o.key.startswith(w) for o in got):
            chk.ob("shared with %s" % module.upper(), "shared|%s|%s" % (module.upper(), w), False, "rules/%s.py" % module.lower(),
                   "anchor-missing: the obligation %s of %s (%s) was not produced on this tree" % (w, module.upper(), why))
    for o in got:
        chk.obs.append(Obligation("shared with %s: %s" % (module.upper(), o.rule), o.key, o.ok, o.construct, "%s — %s" % (o.witness, why), o.nontrivial))
    chk.analysed_functions |= other.analysed_functions
    return got
