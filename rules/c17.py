"""C17 — U2F registration and authentication messages are well-formed and verifiable (structural clauses).

R1 registration signature base : the signed message is the chain [0x00] | application | challenge | key handle | public key
                                 (0x04|x|y), signed with the key whose public point is returned.
R2 stored credential           : credential id ← the key handle, rp id ← application through the conversion chain
                                 Vec<u8>→Bytes→String, key ← the private COSE key, counter Some(0); authentication looks the credential
                                 up with the *same* conversion chain for the rp id and the request's key handle as id.
R3 authentication signature base : application | presence byte | u32::to_be_bytes(counter) | challenge, signed with the key
                                 recovered from the found credential; a failed lookup is an error.
R4 encodings                   : RegisterResponse = 0x05 | 0x04|x|y | len(handle) as u8 | handle | certificate | signature | 0x9000;
                                 AuthenticationResponse = presence | counter BE | signature | 0x9000; Version = "U2F_V2" | 0x9000;
                                 status words equal the U2F table.
R5 request framing             : header constants (6-byte header + LC, big-endian length at 3..7), INS table 1/2/3, control bytes
                                 3/7/8, payload carving 32|32 and 32|32|1|L.
Not decided: signature validity; that parsing the encoding of every well-formed frame returns that request.
"""
import re

from . import core, flow, names, summary, intervals
from .framework import where, short, api_name
from .common import AUTH, find_aggs
from .c02 import has, is_call, find, sub, closure_ret
from .c12 import chain_segments

U = "passkey_types::u2f::"
SW = {"NoError": 0x9000, "ConditionsNotSatisfied": 0x6985, "WrongData": 0x6A80, "WrongLength": 0x6700, "ClaNotSupported": 0x6E00, "InsNotSupported": 0x6D00}


def conversions(body, op, max_steps=40):
    """type conversions (From/Into pairs) applied along the single-definition chain that produces operand `op`"""
    du = flow.DefUse(body)
    out = []
    cur = flow.op_place(op)
    steps = 0
    while cur is not None and steps < max_steps:
        steps += 1
        l, pth = cur
        d = du.single_def(l)
        if d is None:
            break
        if d[0] == "assign":
            rv = d[4]
            if rv["k"] in ("use", "cast"):
                cur = flow.op_place(rv["op"])
            elif rv["k"] in ("ref", "copyforderef", "rawptr"):
                cur = flow.norm_place(rv["place"])
            else:
                break
        elif d[0] == "call":
            t = d[4]
            full = t.get("callee_full") or ""
            m = re.match(r"^<(.+) as core::convert::Into<(.+)>>::into", full)
            m2 = re.match(r"^<(.+) as core::convert::From<(.+)>>::from", full)
            if m:
                out.append((names.last_ident(m.group(1)), names.last_ident(m.group(2))))
            elif m2:
                out.append((names.last_ident(m2.group(2)), names.last_ident(m2.group(1))))
            elif not any(n in flow.PASS_THROUGH for n in core.callee_names(t)):
                break
            cur = flow.op_place(t["args"][0]) if t["args"] else None
        else:
            break
    return list(reversed(out))


def segs_of(t):
    return flow.byte_segments(t)


def run(chk):
    p = core.load_program("all")
    chk.configs = ["all-features"]
    chk.explanation = __doc__
    # shared clause (C07 R8): the key pair a U2F registration hands out is the one later authentications sign with only
    # if the shipped stores' save writes the record it is given (a re-registration under the same handle replaces it)
    from .framework import borrow
    borrow(chk, "C07", ["R8|"], "C17: authentication signs with the key of the latest registration of that handle")
    S = summary.Summaries(p)
    from . import normal
    N = normal.Normalizer(p, S)
    tr = [t for t in p.traits.values() if t["path"].endswith("::U2fApi")]
    if not chk.require("R1 registration signature base", "R1|U2fApi", len(tr) == 1, "passkey_authenticator", "trait U2fApi not found"):
        return
    from .common import u2f_body
    ur = u2f_body(p, "register")
    ua = u2f_body(p, "authenticate")
    if not chk.require("R1 registration signature base", "R1|bodies", ur is not None and ua is not None, AUTH, "U2F register/authenticate bodies not found"):
        return
    chk.touched(ur)
    chk.touched(ua)
    uvn = {}
    # ---------------- R1
    T = flow.Terms(p, ur)
    sg = names.calls_to(ur, "Signer::sign", "SignerMut::sign")
    if chk.require("R1 registration signature base", "R1|sign", len(sg) == 1, where(ur), "expected one sign call in U2F register"):
        sb, st = sg[0]
        msg = flow.simplify_term(T.operand(st["args"][1], sb, "t"))
        segs = segs_of(msg)
        def strip_iter(x):
            while isinstance(x, tuple) and x and x[0] == "call" and (names.is_(x[1], "Iterator::copied") or names.is_(x[1], "Iterator::cloned") or x[1].endswith("::iter") or names.is_(x[1], "IntoIterator::into_iter")):
                x = x[2][0]
            return x
        sc = [strip_iter(s) for s in segs]
        ok = len(sc) == 5 and sc[0] == ("array", (("const", 0),)) and sc[1] == ("field", ("upvar", 1), "application") and sc[2] == ("field", ("upvar", 1), "challenge") and sc[3] == ("upvar", 2) and is_call(sc[4], "PublicKey::encode")
        chk.ob("R1 registration signature base", "R1|register|layout", ok, where(ur, sb), "signed message segments: %s" % [flow.term_str(x)[:50] for x in sc])
        key = flow.simplify_term(T.operand(st["args"][0], sb, "t"))
        rr = find_aggs(ur, "RegisterResponse")
        if rr:
            bb, i, rv = rr[0]
            f = {k: flow.simplify_term(T.operand(o, bb, i)) for k, o in zip(rv["fields"], rv["ops"])}
            pk_signed = sc[4][2][0] if ok else None
            okk = pk_signed is not None and f["public_key"] == pk_signed and has(f["public_key"], lambda x: isinstance(x, tuple) and len(x) == 4 and x[0] == "call" and x[1].endswith("to_encoded_point")) and has(f["public_key"], lambda x: x == key or (isinstance(x, tuple) and len(x) == 4 and x[0] == "call" and x[1].endswith("verifying_key")))
            chk.ob("R1 registration signature base", "R1|register|returned-key-is-signers-public-point", bool(okk), where(ur, bb), "response.public_key = %s" % flow.term_str(f["public_key"])[:200])
            chk.ob("R1 registration signature base", "R1|register|handle-and-signature-returned", f["key_handle"] == ("upvar", 2) and has(f["signature"], lambda x: is_call(x, "Signer::sign") or is_call(x, "SignerMut::sign")), where(ur, bb), "key_handle = %s ; signature from sign(): %s" % (flow.term_str(f["key_handle"]), has(f["signature"], lambda x: is_call(x, "Signer::sign") or is_call(x, "SignerMut::sign"))))
    pe = p.method(U + "register::PublicKey", "encode")
    if chk.require("R1 registration signature base", "R1|PublicKey::encode", pe, U, "PublicKey::encode not found"):
        chk.touched(pe)
        from . import layout
        sc, _pv = layout.returned_segments(p, N, pe)
        ok = sc == [("bytes", b"\x04"), ("field", ("param", 1), "x"), ("field", ("param", 1), "y")]
        chk.ob("R1 registration signature base", "R1|PublicKey::encode|0x04-x-y", ok, where(pe), "PublicKey::encode = %s" % [flow.term_str(x)[:60] for x in sc])

    # ---------------- R2
    wr = names.calls_to(ur, "Passkey::wrap_u2f_registration_request")
    if chk.require("R2 stored credential", "R2|wrap", len(wr) == 1, where(ur), "wrap_u2f_registration_request call not found"):
        wb, wt = wr[0]
        a = [flow.simplify_term(T.operand(x, wb, "t")) for x in wt["args"]]
        ok = a[0] == ("upvar", 1) and a[1][0] == "agg" and a[2] == ("upvar", 2) and a[3][0] == "field" and a[3][2] == "private"
        chk.ob("R2 stored credential", "R2|register|wrap-arguments", ok, where(ur, wb), "wrap(request, response, handle = %s, key = %s)" % (flow.term_str(a[2]), flow.term_str(a[3])[:80]))
        sv = names.calls_to(ur, "CredentialStore::save_credential")
        if sv:
            pkt = flow.simplify_term(T.operand(sv[0][1]["args"][1], sv[0][0], "t"))
            chk.ob("R2 stored credential", "R2|register|saves-the-wrapped-passkey", pkt[0] == "field" and pkt[2] == "0" and is_call(pkt[1], "Passkey::wrap_u2f_registration_request"), where(ur, sv[0][0]), "saved = %s" % flow.term_str(pkt)[:120])
    w = p.method("passkey_types::passkey::Passkey", "wrap_u2f_registration_request")
    fr = p.method("passkey_types::passkey::Passkey", "from_u2f_register_response")
    conv_reg = None
    if chk.require("R2 stored credential", "R2|Passkey::from_u2f_register_response", w is not None and fr is not None, "Passkey", "wrap/from_u2f_register_response not found"):
        chk.touched(w)
        chk.touched(fr)
        Tw = flow.Terms(p, w)
        c = names.calls_to(w, "Passkey::from_u2f_register_response")
        okw = False
        if c:
            aa = [flow.simplify_term(Tw.operand(x, c[0][0], "t")) for x in c[0][1]["args"]]
            okw = aa == [("param", 1), ("param", 2), ("param", 4)]
        chk.ob("R2 stored credential", "R2|wrap|delegates", okw, where(w), "wrap → from_u2f_register_response(request, response, private_key): %s" % okw)
        from . import inline as _inl, bytesview as _bv
        fri = _inl.inlined(p, fr)   # the record may be built in a private helper shared with the authentication upgrade
        ag = find_aggs(fri, "Passkey")

        def rp_id_form(t):
            """(text encoding, byte source) of an rp_id string: which encoding of which bytes"""
            x = t
            while isinstance(x, tuple) and len(x) == 4 and x[0] == "call" and x[2] and (names.is_(x[1], "String::as_str") or names.is_(x[1], "Deref::deref") or names.is_(x[1], "AsRef::as_ref") or names.is_(x[1], "ToString::to_string")):
                x = x[2][0]
            if is_call(x, "Encoding::encode") and len(x[2]) == 2:
                return (x[2][0], _bv.closed_view(x[2][1]))
            return None
        if ag:
            bb, i, rv = ag[0]
            Tf = flow.Terms(p, fri)
            Tf.conversions = True
            f = {k: N.inline(Tf.operand(o, bb, i)) for k, o in zip(rv["fields"], rv["ops"])}
            conv_reg = rp_id_form(f["rp_id"])
            ok = _bv.closed_view(f["credential_id"]) == (("field", ("param", 2), "key_handle"), 0, None) and conv_reg is not None and conv_reg[1] == (("field", ("param", 1), "application"), 0, None) \
                and f["key"] == ("param", 3) and f["counter"] == ("agg", "core::option::Option", "Some", (("0", ("const", 0)),))
            chk.ob("R2 stored credential", "R2|from_u2f_register_response|fields", ok, where(fr), "Passkey{id: %s, rp_id: %s, key: %s, counter: %s}" % tuple(flow.term_str(f[k])[:90] for k in ("credential_id", "rp_id", "key", "counter")))
    Ta = flow.Terms(p, ua)
    fc = names.calls_to(ua, "CredentialStore::find_credentials")
    if chk.require("R2 stored credential", "R2|authenticate|lookup", len(fc) == 1, where(ua), "find_credentials call not found"):
        fb, ft = fc[0]
        Tc = flow.Terms(p, ua)
        Tc.conversions = True
        conv_auth = rp_id_form(N.inline(Tc.operand(ft["args"][2], fb, "t")))
        ids = flow.simplify_term(Ta.operand(ft["args"][1], fb, "t"))
        # stored and looked-up rp_id: the same text encoding of the request's application parameter
        ok = conv_reg is not None and conv_auth is not None and conv_auth[0] == conv_reg[0] and conv_auth[1] == (("field", ("upvar", 1), "application"), 0, None)
        chk.ob("R2 stored credential", "R2|rp-id-conversion-agrees", ok, where(ua, fb), "stored rp_id: %s of the application parameter ; lookup rp_id: %s of the application parameter" % (
            flow.term_str(conv_reg[0]) if conv_reg else "?", flow.term_str(conv_auth[0]) if conv_auth else "?"))
        okid = has(ids, lambda x: isinstance(x, tuple) and len(x) == 4 and x[0] == "agg" and x[1].endswith("PublicKeyCredentialDescriptor") and dict(x[3]).get("id") == ("field", ("upvar", 1), "key_handle"))
        chk.ob("R2 stored credential", "R2|authenticate|id-is-key-handle", okid, where(ua, fb), "lookup ids = %s" % flow.term_str(ids)[:160])

    # ---------------- R3
    sg = names.calls_to(ua, "Signer::sign", "SignerMut::sign")
    if chk.require("R3 authentication signature base", "R3|sign", len(sg) == 1, where(ua), "expected one sign call in U2F authenticate"):
        sb, st = sg[0]
        msg = flow.simplify_term(Ta.operand(st["args"][1], sb, "t"))
        sc = segs_of(msg)
        if len(sc) == 1:
            # a fixed buffer filled at positions instead of a chain: the same segments, read from its positional writes
            from . import layout
            W = layout.positional_writes(p, ua, N)
            root = layout.root_of(N.norm(msg))
            sg2 = layout.segments_of(W, root)
            if sg2 is not None and layout.written_before(ua, W, root, sb):
                sc = sg2

        def flag_byte(t):
            while is_call(t, "Flags::bits") or is_call(t, "Into::into") or is_call(t, "From::from"):
                t = t[2][0]
            return t
        ok = len(sc) == 4 and sc[0] == ("field", ("upvar", 1), "application") and sc[1][0] == "array" and len(sc[1][1]) == 1 and flag_byte(sc[1][1][0]) == ("upvar", 3) and is_call(sc[2], "u32::to_be_bytes") and sc[2][2][0] == ("upvar", 2) and sc[3] == ("field", ("upvar", 1), "challenge")
        chk.ob("R3 authentication signature base", "R3|authenticate|layout", ok, where(ua, sb), "signed message segments: %s" % [flow.term_str(x)[:50] for x in sc])
        key = flow.simplify_term(Ta.operand(st["args"][0], sb, "t"))
        okk = has(key, lambda x: is_call(x, "private_key_from_cose_key")) and has(key, lambda x: isinstance(x, tuple) and len(x) == 3 and x[0] == "field" and x[2] == "key" and has(x[1], lambda y: is_call(y, "CredentialStore::find_credentials")))
        chk.ob("R3 authentication signature base", "R3|authenticate|key-of-found-credential", okk, where(ua, sb), "signing key = %s" % flow.term_str(key)[:200])
        ar = find_aggs(ua, "AuthenticationResponse")
        if ar:
            bb, i, rv = ar[0]
            f = {k: flow.simplify_term(Ta.operand(o, bb, i)) for k, o in zip(rv["fields"], rv["ops"])}
            chk.ob("R3 authentication signature base", "R3|authenticate|response-fields", f["user_presence"] == ("upvar", 3) and f["counter"] == ("upvar", 2) and has(f["signature"], lambda x: is_call(x, "Signer::sign") or is_call(x, "SignerMut::sign")), where(ua, bb),
                   "response presence = %s, counter = %s" % (flow.term_str(f["user_presence"]), flow.term_str(f["counter"])))
        # lookup failure -> Err: the sign call is cut by the success edges of the `?`s on the lookup result
        # (`?`, `let .. else`, `match`: any test of presence; the edges on which the value was found present cut the signing)
        is_lookup = lambda x: isinstance(x, tuple) and len(x) == 4 and x[0] in ("await", "call") and names.is_(x[1], "CredentialStore::find_credentials")
        is_first = lambda x: is_call(x, "Iterator::next") and has(x, is_lookup)
        ok = True
        n_tests = 0
        for pred in (is_lookup, is_first):
            found, missing = flow.success_edges(p, ua, pred, Ta, N=N)
            n_tests += 1 if found else 0
            ok = ok and bool(found) and flow.cut_by_edges(ua, 0, [sb], found)
        chk.ob("R3 authentication signature base", "R3|authenticate|unknown-handle-is-error", ok, where(ua, sb), "signing happens only past `lookup succeeded` and `a credential was found` (%d presence tests cut it): %s" % (n_tests, ok))

    # ---------------- R4
    enc = p.method(U + "register::RegisterResponse", "encode")
    if chk.require("R4 encodings", "R4|RegisterResponse::encode", enc, U, "RegisterResponse::encode not found"):
        chk.touched(enc)
        v = flow.simplify_term(flow.Terms(p, enc).place(0, (), enc.return_blocks()[0], "t"))
        sc = []
        pke = p.method(U + "register::PublicKey", "encode")
        for s_ in segs_of(v):
            # the public key's own encoding (R1|PublicKey::encode: 0x04 | x | y) written out, whether by call or in place
            if is_call(s_, "PublicKey::encode") and pke is not None and len(s_[2]) == 1:
                inner = segs_of(flow.simplify_term(flow.Terms(p, pke).place(0, (), pke.return_blocks()[0], "t")))
                sc += [summary.replace(x, ("param", 1), s_[2][0]) for x in inner]
            else:
                sc.append(s_)
        sc = flow.merge_const_segments(flow.expand_byte_calls(p, N, sc))
        if any(is_call(x, "PublicKey::to_bytes") or is_call(x, "PublicKey::encode") for x in sc) and pke is not None:
            # the key's encoding built in a fixed buffer by a helper: its positional layout (R1|PublicKey::encode)
            from . import layout as _lay
            pk_segs, _v = _lay.returned_segments(p, N, pke)
            out_ = []
            for x in sc:
                if (is_call(x, "PublicKey::to_bytes") or is_call(x, "PublicKey::encode")) and len(x[2]) == 1:
                    out_ += [summary.replace(y, ("param", 1), x[2][0]) for y in pk_segs]
                else:
                    out_.append(x)
            sc = flow.merge_const_segments(out_)
        PK = ("field", ("param", 1), "public_key")
        ok = len(sc) == 8 and sc[0] == ("bytes", b"\x05\x04") and sc[1] == ("field", PK, "x") and sc[2] == ("field", PK, "y") \
            and sc[3][0] == "array" and sc[3][1][0][0] == "cast" and sc[3][1][0][1] == "u8" and has(sc[3], lambda x: is_call(x, "Vec::len") and x[2][0] == ("field", ("param", 1), "key_handle")) \
            and sc[4] == ("field", ("param", 1), "key_handle") and sc[5] == ("field", ("param", 1), "attestation_certificate") and sc[6] == ("field", ("param", 1), "signature") \
            and is_call(sc[7], "u16::to_be_bytes") and has(sc[7], lambda x: isinstance(x, tuple) and len(x) == 4 and x[0] == "agg" and x[2] == "NoError")
        chk.ob("R4 encodings", "R4|RegisterResponse::encode|layout", ok, where(enc), "segments: %s" % [flow.term_str(x)[:40] for x in sc])
    enc = p.method(U + "authenticate::AuthenticationResponse", "encode")
    if chk.require("R4 encodings", "R4|AuthenticationResponse::encode", enc, U, "AuthenticationResponse::encode not found"):
        chk.touched(enc)
        v = N.norm(flow.Terms(p, enc).place(0, (), enc.return_blocks()[0], "t"))
        sc = flow.expand_byte_calls(p, N, segs_of(v))
        # the presence byte: the flags member as its u8 (`.into()`, `u8::from`, `.bits()`)
        if sc and isinstance(sc[0], tuple) and sc[0][:1] == ("array",) and len(sc[0][1]) == 1:
            e0 = sc[0][1][0]
            while isinstance(e0, tuple) and len(e0) == 4 and e0[0] == "call" and len(e0[2]) == 1 and (is_call(e0, "Into::into") or is_call(e0, "From::from") or e0[1].endswith("Flags::bits") or e0[1].endswith("::bits")):
                e0 = e0[2][0]
            sc = [("array", (e0,))] + list(sc[1:])
        ok = len(sc) == 4 and sc[0] == ("array", (("field", ("param", 1), "user_presence"),)) and is_call(sc[1], "u32::to_be_bytes") and sc[1][2][0] == ("field", ("param", 1), "counter") and sc[2] == ("field", ("param", 1), "signature") \
            and is_call(sc[3], "u16::to_be_bytes") and has(sc[3], lambda x: isinstance(x, tuple) and len(x) == 4 and x[0] == "agg" and x[2] == "NoError")
        chk.ob("R4 encodings", "R4|AuthenticationResponse::encode|layout", ok, where(enc), "segments: %s" % [flow.term_str(x)[:40] for x in sc])
    enc = p.method(U + "version::Version", "encode")
    if chk.require("R4 encodings", "R4|Version::encode", enc, U, "Version::encode not found"):
        chk.touched(enc)
        v = N.norm(flow.Terms(p, enc).place(0, (), enc.return_blocks()[0], "t"))
        sc = flow.expand_byte_calls(p, N, segs_of(v))   # (a private helper for the trailer is read through its value)
        first = sc[0]
        while isinstance(first, tuple) and first and first[0] == "call":
            first = first[2][0]
        ok = len(sc) == 2 and first == ("const", b"U2F_V2") and is_call(sc[1], "u16::to_be_bytes") and has(sc[1], lambda x: isinstance(x, tuple) and len(x) == 4 and x[0] == "agg" and x[2] == "NoError")
        chk.ob("R4 encodings", "R4|Version::encode|layout", ok, where(enc), "segments: %s" % [flow.term_str(x)[:40] for x in sc])
    sw = p.adts.get(U + "ResponseStatusWords")
    got = {v["name"]: int(v["discr"]) for v in sw["variants"]} if sw else {}
    chk.ob("R4 encodings", "R4|status-words", got == SW, U + "ResponseStatusWords", "status words %s" % {k: hex(v) for k, v in got.items()})
    ap = p.method(U + "ResponseStatusWords", "as_primitive")
    fu = [b for b in p.all_bodies if b.path.endswith("::from") and "From<passkey_types::u2f::ResponseStatusWords> for u16" in b.path]
    if fu:
        o = S.local_outcomes(fu[0])
        chk.ob("R4 encodings", "R4|status-word-to-u16", len(o) == 1 and o[0].value[0] == "cast" and o[0].value[1] == "u16" and has(o[0].value, lambda x: x == ("param", 1)), where(fu[0]), "u16::from(sw) = %s" % [flow.term_str(x.value) for x in o])

    # ---------------- R5
    def ok_record(view, T_):
        """the record inside the Ok value a parser returns (selections on the way looked through: the Ok leaf)"""
        ret = N.norm(T_.place(0, (), view.return_blocks()[0], "t"))
        leaves = []

        def walk(x, d=0):
            if isinstance(x, tuple) and x and x[0] == "gamma" and d < 12:
                for l_, b_ in x[2]:
                    walk(b_, d + 1)
            elif isinstance(x, tuple) and len(x) == 4 and x[0] == "agg" and x[2] == "Ok":
                leaves.append(dict(x[3]).get("0"))
        walk(ret)
        return leaves[0] if len(leaves) == 1 else None

    from . import inline as _inl17
    rq = p.method(U + "commands::Request", "try_from", trait="core::convert::TryFrom")
    if chk.require("R5 request framing", "R5|Request::try_from", rq, U, "TryFrom<&[u8]> for Request not found"):
        chk.touched(rq)
        rq = _inl17.inlined(p, rq)   # a parser split into private phases is read as one body
        Tr = flow.Terms(p, rq)
        iv = intervals.Intervals(p, rq)
        be = names.calls_to(rq, "u32::from_be_bytes")
        # which bytes of the frame feed which member of the parsed Request, as byte-range views (rules/bytesview.py)
        from . import bytesview
        Tr.indexed = True
        IN = ("param", 1)
        rags = find_aggs(rq, "Request")
        fv = {}
        dl = None
        rec_ = ok_record(rq, Tr)
        if rec_ is not None:
            for f_ in ("cla", "ins", "p1", "data_len"):
                t_ = N.norm(("field", rec_, f_))
                if f_ == "data_len":
                    dl = bytesview.int_decode(t_)
                elif f_ in ("cla", "ins", "p1"):
                    while is_call(t_, "Command::from") or is_call(t_, "From::from") or is_call(t_, "Into::into"):
                        t_ = t_[2][0]
                    fv[f_] = bytesview.closed_view(t_)
        # the header is 7 bytes (CLA INS P1 P2 + 3 LC bytes): the payload handed to the command parsers is frame[7 .. 7 + declared length]
        def ok_leaves(x, d=0, out=None):
            out = [] if out is None else out
            if isinstance(x, tuple) and x and x[0] == "gamma" and d < 14:
                for l_, b_ in x[2]:
                    ok_leaves(b_, d + 1, out)
            elif isinstance(x, tuple) and x and x[0] == "phi" and d < 14:
                for b_ in x[1]:
                    ok_leaves(b_, d + 1, out)
            elif isinstance(x, tuple) and len(x) == 4 and x[0] == "agg" and x[2] == "Ok":
                out.append(dict(x[3]).get("0"))
            return out
        starts = {}
        for leaf in ok_leaves(N.norm(Tr.place(0, (), rq.return_blocks()[0], "t"))):
            dterm = N.norm(("field", leaf, "data"))
            if not (isinstance(dterm, tuple) and len(dterm) == 4 and dterm[0] == "agg" and dterm[2] in ("Register", "Authenticate")):
                continue
            got_ = None
            for x in sub(dterm):
                pv_ = bytesview.prefix_view(x) if isinstance(x, tuple) and x and x[0] in ("payload", "try", "call") else None
                if pv_ is not None and pv_[0][0] == IN:
                    got_ = (pv_[0][1], bytesview.int_decode(N.norm(pv_[1])))
                    break
                cv_ = bytesview.view(x) if isinstance(x, tuple) and x and x[0] in ("payload", "try", "call", "subslice_at") else None
                if cv_ is not None and cv_[0] == IN and cv_[1] >= 7:
                    got_ = (cv_[1], "to the end" if cv_[2] is None else cv_[2])
                    break
            starts[dterm[2]] = got_
        okhl = set(starts) == {"Register", "Authenticate"} and all(v is not None and v[0] == 7 and v[1] == ("be", (IN, 3, 7)) for v in starts.values())
        chk.ob("R5 request framing", "R5|header-length", okhl, where(rq), "payload of each command = frame[start .. start + length]: %s (expected start 7, length = the big-endian value of frame[3..7])" % {k: (v[0], ("%s-endian frame[%s..%s]" % (v[1][0], v[1][1][1], v[1][1][2])) if isinstance(v[1], tuple) and len(v[1]) == 2 and isinstance(v[1][1], tuple) else str(v[1])[:60]) if v else None for k, v in sorted(starts.items())})
        chk.ob("R5 request framing", "R5|length-field", dl == ("be", (IN, 3, 7)), where(rq), "declared length = %s" % (("%s-endian value of frame[%s..%s]" % (dl[0], dl[1][1], dl[1][2])) if dl and dl[1][0] == IN else "not a recognised read of the frame"))
        # the shortest frame that gets past the length guard is the bare 7-byte header (a request without data, e.g. VERSION)
        lo = None
        site_bb = be[0][0] if be else (rags[0][0] if rags else None)
        if site_bb is not None:
            st = iv.at(site_bb, "t")
            if st is not None:
                lo = iv.len_operand(st, {"k": "copy", "place": {"l": 1, "p": [], "s": "_1"}}).lo
        chk.ob("R5 request framing", "R5|shortest-frame", lo == 7, where(rq), "frames reaching the length field are at least %s bytes long (header 6 + LC 1 = 7)" % lo)
        # cla / ins / p1 are bytes 0, 1, 2 of the frame
        okp = fv.get("cla") == (IN, 0, 1) and fv.get("ins") == (IN, 1, 2) and fv.get("p1") == (IN, 2, 3)
        chk.ob("R5 request framing", "R5|cla-ins-p1-positions", okp, where(rq), "cla, ins, p1 read from frame bytes: %s" % {k: ("%s..%s" % (v[1], v[2]) if v[0] == IN else "?") for k, v in sorted(fv.items())})
    cf = p.method(U + "commands::Command", "from", trait="core::convert::From")
    if chk.require("R5 request framing", "R5|Command::from", cf, U, "From<u8> for Command not found"):
        chk.touched(cf)
        tab = {}
        for o in S.local_outcomes(cf):
            for t, l, f, w in o.conds:
                if t == ("param", 1) and l[0] == "in" and len(l) == 2 and o.value[0] == "agg":
                    tab[int(l[1])] = o.value[2]
        chk.ob("R5 request framing", "R5|INS-table", tab == {1: "Register", 2: "Authenticate", 3: "Version"}, where(cf), "INS table %s" % tab)
    fcb = p.method(U + "authenticate::AuthenticationParameter", "from_control_byte")
    if fcb is None:
        fcb = p.method(U + "authenticate::AuthenticationParameter", "from", trait="core::convert::From")
    if chk.require("R5 request framing", "R5|control-bytes", fcb, U, "control byte decoder not found"):
        chk.touched(fcb)
        tab = {}
        for o in S.outcomes(fcb):
            v = o.value
            while isinstance(v, tuple) and v and v[0] == "agg" and v[2] == "Some":
                v = dict(v[3]).get("0")
            for t, l, f, w in o.conds:
                if t == ("param", 1) and l[0] == "in" and len(l) == 2 and isinstance(v, tuple) and v and v[0] == "agg":
                    tab[int(l[1])] = v[2]
        chk.ob("R5 request framing", "R5|control-byte-table", tab == {3: "EnforceUserPresence", 7: "CheckOnly", 8: "DontEnforceUserPresence"}, where(fcb), "control bytes %s" % tab)
    for nm, adt, trait, exp in (("RegisterRequest", U + "register::RegisterRequest", "core::convert::TryFrom", [(None, 32), (32, None)]), ("AuthenticationRequest", U + "authenticate::AuthenticationRequest", None, [(None, 32), (32, 64), (64, 65), (65, None)])):
        b = p.method(adt, "try_from", trait=trait)
        if not chk.require("R5 request framing", "R5|%s::try_from" % nm, b, adt, "%s::try_from not found" % nm):
            continue
        chk.touched(b)
        from . import bytesview
        b = _inl17.inlined(p, b)
        Tb = flow.Terms(p, b)
        Tb.indexed = True
        IN = ("param", 1)
        got = {}
        rec_ = ok_record(b, Tb)
        adt_ = p.adts.get(adt)
        if rec_ is not None and adt_:
            for f_ in [x["name"] for x in adt_["variants"][0]["fields"]]:
                got[f_] = N.norm(("field", rec_, f_))
        views = {f_: bytesview.closed_view(t_) for f_, t_ in got.items()}
        ok = views.get("challenge") == (IN, 0, 32)
        if nm == "RegisterRequest":
            ok = ok and views.get("application") == (IN, 32, None)
            wit = "challenge <- data[0..32], application <- data[32..] (converted to 32 bytes or refused)"
        else:
            ok = ok and views.get("application") == (IN, 32, 64)
            # the key handle: the first `data[64]` bytes of data[65..]
            kh = got.get("key_handle")
            gets = [x for x in sub(kh)] if kh is not None else []
            okh = False
            for x in gets:
                # (any spelling of "the first data[64] bytes of data[65..]": get(..n) of the rest, or data[65..65 + n])
                pv_ = bytesview.prefix_view(x) if isinstance(x, tuple) else None
                if pv_ is not None and pv_[0] == (IN, 65, None):
                    e_ = pv_[1]
                    while isinstance(e_, tuple) and e_ and (e_[0] == "cast" or (is_call(e_, "From::from") or is_call(e_, "Into::into"))):
                        e_ = e_[-1] if e_[0] == "cast" else e_[2][0]
                    if bytesview.closed_view(e_) == (IN, 64, 65):
                        okh = True
                if is_call(x, "slice::get") and len(x[2]) == 2 and isinstance(x[2][1], tuple) and len(x[2][1]) == 4 and x[2][1][0] == "agg" and str(x[2][1][1]).endswith("RangeTo"):
                    end = dict(x[2][1][3]).get("end")
                    while isinstance(end, tuple) and end and end[0] == "cast":
                        end = end[-1]
                    if bytesview.closed_view(x[2][0]) == (IN, 65, None) and bytesview.closed_view(end) == (IN, 64, 65):
                        okh = True
            ok = ok and okh
            wit = "challenge <- data[0..32], application <- data[32..64], key handle <- the first data[64] bytes of data[65..]"
        chk.ob("R5 request framing", "R5|%s|payload-carving" % nm, bool(ok), where(b), wit if ok else "members read from: %s" % {k: (("data[%s..%s]" % (v[1], v[2] if v[2] is not None else "")) if v[0] == IN else flow.term_str(v[0])[:60]) for k, v in sorted(views.items())})
    chk.floor("R1", 4)
    chk.floor("R2", 6)
    chk.floor("R3", 4)
    chk.floor("R4", 5)
    chk.floor("R5", 7)
    chk.assumptions = ["p256 signs what it is given", "From<Bytes> for String is one deterministic encoding (same impl at store and lookup)"]
