"""Byte-range views: which bytes of which buffer a term denotes, however they were carved.

`s.split_at(32).1.split_at(1).0`, `&s[32..33]`, `[s[32]]`, `s[32..][..1]`, a buffer filled by `copy_from_slice(&s[32..33])`
and `<[u8; 1]>::try_from(&s[32..33]).unwrap()` all denote bytes [32, 33) of `s`.  `view(t)` rewrites a term (made with
`Terms.indexed = True`, so that element reads keep their index) to (base term, lo, hi) with hi = None for "to the end";
`int_decode(t)` recognises an integer assembled from consecutive bytes — `uN::from_be_bytes(view)`, or shifts and ors of
single bytes — and returns its byte order and the view it reads.  Pure term rewriting; nothing is executed.
"""
from . import names

_SAME_BYTES = ("Deref::deref", "DerefMut::deref_mut", "AsRef::as_ref", "Vec::as_slice", "array::as_slice", "Bytes::as_slice", "Borrow::borrow",
               "Clone::clone", "slice::to_vec", "ToOwned::to_owned", "Vec::from", "slice::as_ref", "Into::into", "From::from", "slice::iter",
               "IntoIterator::into_iter", "Iterator::copied", "Iterator::cloned", "Iterator::collect")
_CONV = ("TryInto::try_into", "TryFrom::try_from")


def _is(t, *pats):
    return isinstance(t, tuple) and len(t) == 4 and t[0] == "call" and isinstance(t[1], str) and any(names.is_(t[1], p) for p in pats)


def _const(t, depth=0):
    """value of a constant integer term (sums / products of constants folded)"""
    if not isinstance(t, tuple) or not t or depth > 8:
        return None
    if len(t) == 2 and t[0] == "const":
        return t[1] if isinstance(t[1], int) and not isinstance(t[1], bool) else None
    if t[0] == "field" and len(t) == 3 and t[2] == "0" and isinstance(t[1], tuple) and t[1][:1] == ("binop",) and "WithOverflow" in t[1][1]:
        return _const(("binop", t[1][1].replace("WithOverflow", ""), t[1][2], t[1][3]), depth + 1)
    if t[0] == "binop" and len(t) == 4 and t[1] in ("Add", "Sub", "Mul", "AddUnchecked", "SubUnchecked", "MulUnchecked"):
        a, c = _const(t[2], depth + 1), _const(t[3], depth + 1)
        if a is None or c is None:
            return None
        r = a + c if t[1].startswith("Add") else (a - c if t[1].startswith("Sub") else a * c)
        return r if r >= 0 else None
    if t[0] == "cast" and len(t) == 3:
        return _const(t[2], depth + 1)
    return None


def known_len(base):
    """length of a buffer term when its construction fixes it"""
    if isinstance(base, tuple) and base and base[0] == "repeat":
        try:
            return int(base[2])
        except (TypeError, ValueError):
            return None
    if isinstance(base, tuple) and base and base[0] == "upd":
        return known_len(base[2])
    if isinstance(base, tuple) and base and base[0] == "array":
        return len(base[1])
    return None


def _sub(v, a, e):
    base, lo, hi = v
    return (base, lo + a, (lo + e) if e is not None else hi)


def _close(v):
    base, lo, hi = v
    if hi is None:
        n = known_len(base)
        if n is not None:
            hi = n
    return (base, lo, hi)


def view(t, depth=0):
    """(base, lo, hi) of a byte-sequence term; an unrecognised term is its own base: (t, 0, None)"""
    if depth > 40 or not isinstance(t, tuple) or not t:
        return (t, 0, None)
    if t[0] in ("payload", "try") and len(t) == 2 and _is(t[1], *_CONV) and t[1][2]:
        # unwrap of a length conversion
        return view(t[1][2][-1], depth + 1)
    if _is(t, "Result::unwrap", "Option::unwrap", "Result::expect", "Option::expect") and t[2] and _is(t[2][0], *_CONV):
        return view(t[2][0][2][-1], depth + 1)
    if _is(t, *_SAME_BYTES) and t[2]:
        return view(t[2][0], depth + 1)
    if len(t) == 4 and t[0] == "agg" and len(t[3]) == 1 and t[3][0][0] == "0" and str(t[1]).rsplit("::", 1)[-1] in ("Bytes",):
        # the byte-string newtype of the workspace: the same bytes as what it wraps
        return view(t[3][0][1], depth + 1)
    if len(t) == 3 and t[0] == "field" and t[2] == "0" and isinstance(t[1], tuple) and len(t[1]) == 4 and t[1][0] == "agg" and str(t[1][1]).rsplit("::", 1)[-1] == "Bytes":
        return view(dict(t[1][3]).get("0"), depth + 1)
    if t[0] == "upd" and isinstance(t[1], str) and (names.is_(t[1], "slice::copy_from_slice") or names.is_(t[1], "slice::clone_from_slice")) and len(t[3]) == 1:
        # the whole buffer is overwritten by the source (equal lengths or the call panics)
        if isinstance(t[2], tuple) and t[2] and t[2][0] in ("repeat", "array"):
            return view(t[3][0], depth + 1)
    if len(t) == 3 and t[0] == "field" and t[2] in ("0", "1") and _is(t[1], "slice::split_at", "slice::split_at_mut") and len(t[1][2]) == 2:
        k = _const(t[1][2][1])
        if k is None and _is(t[1][2][1], "Ord::min", "cmp::min") and len(t[1][2][1][2]) == 2:
            # `s.split_at(s.len().min(N))`: the first N bytes and the rest when s is long enough; a shorter s gives a short
            # head, which the fixed-size conversion that follows rejects — on its success side the head is s[..N]
            a_, b_ = t[1][2][1][2]
            for x_, y_ in ((a_, b_), (b_, a_)):
                if _const(x_) is not None and isinstance(y_, tuple) and len(y_) == 4 and y_[0] == "call" and y_[1].endswith("::len") and y_[2] and view(y_[2][0], depth + 1) == view(t[1][2][0], depth + 1):
                    k = _const(x_)
        if k is not None:
            v = view(t[1][2][0], depth + 1)
            return _sub(v, 0, k) if t[2] == "0" else _sub(v, k, None)
    if _is(t, "Index::index", "IndexMut::index_mut") and len(t[2]) == 2 and isinstance(t[2][1], tuple) and len(t[2][1]) == 4 and t[2][1][0] == "agg":
        r = t[2][1]
        kind = str(r[1]).rsplit("::", 1)[-1]
        f = {k: _const(x) for k, x in r[3]}
        v = view(t[2][0], depth + 1)
        if kind == "RangeFull":
            return v
        if kind == "RangeTo" and f.get("end") is not None:
            return _sub(v, 0, f["end"])
        if kind == "RangeFrom" and f.get("start") is not None:
            return _sub(v, f["start"], None)
        if kind == "Range" and f.get("start") is not None and f.get("end") is not None:
            return _sub(v, f["start"], f["end"])
        if kind == "RangeToInclusive" and f.get("end") is not None:
            return _sub(v, 0, f["end"] + 1)
    if t[0] == "payload" and len(t) == 2 and _is(t[1], "slice::first_chunk", "slice::first_chunk_mut") and len(t[1][2]) == 2 and _const(t[1][2][1]) is not None:
        # `s.first_chunk::<N>()` on its Some side: the first N bytes
        return _sub(view(t[1][2][0], depth + 1), 0, _const(t[1][2][1]))
    if len(t) == 3 and t[0] == "field" and t[2] in ("0", "1") and isinstance(t[1], tuple) and len(t[1]) == 2 and t[1][0] == "payload" \
            and _is(t[1][1], "slice::split_first_chunk", "slice::split_first_chunk_mut") and len(t[1][1][2]) == 2 and _const(t[1][1][2][1]) is not None:
        n_ = _const(t[1][1][2][1])
        v = view(t[1][1][2][0], depth + 1)
        return _sub(v, 0, n_) if t[2] == "0" else _sub(v, n_, None)
    if len(t) == 3 and t[0] == "field" and t[2] in ("0", "1") and isinstance(t[1], tuple) and len(t[1]) == 2 and t[1][0] == "payload" \
            and _is(t[1][1], "slice::split_first") and len(t[1][1][2]) == 1:
        # `s.split_first()` on its Some side: (&s[0], &s[1..])
        v = view(t[1][1][2][0], depth + 1)
        return _sub(v, 0, 1) if t[2] == "0" else _sub(v, 1, None)
    if t[0] == "subslice_at" and len(t) == 5:
        v = _close(view(t[1], depth + 1))
        if not t[4]:
            return _sub(v, t[2], t[3])
        if t[3] == 0:
            return _sub(v, t[2], None)
        if v[2] is not None:
            return (v[0], v[1] + t[2], v[2] - t[3])
    if t[0] == "payload" and len(t) == 2 and _is(t[1], "slice::get", "slice::get_mut") and len(t[1][2]) == 2:
        # the checked form of range indexing: present exactly when the range is in bounds
        return view(("call", "core::ops::index::Index::index", t[1][2], 0), depth + 1)
    if t[0] == "gamma":
        # a selection between a range of the input and the empty default (which the following length conversion rejects)
        vs = []
        for l, x in t[2]:
            if _is(x, "Default::default") or x == ("default",) or x == ("const", b"") or (isinstance(x, tuple) and x[:1] == ("array",) and not x[1]):
                continue
            vs.append(view(x, depth + 1))
        if vs and all(v == vs[0] for v in vs):
            return vs[0]
    if t[0] == "elem_at" and len(t) == 3:
        i = _const(t[2])
        if i is not None:
            return _sub(view(t[1], depth + 1), i, i + 1)
    if t[0] == "array" and t[1]:
        vs = [_close(view(e, depth + 1)) for e in t[1]]
        ok = all(v[2] is not None and v[2] == v[1] + 1 for v in vs) and all(vs[i][0] == vs[0][0] and vs[i][1] == vs[0][1] + i for i in range(len(vs)))
        if ok and not (vs[0][0] == t[1][0]):
            return (vs[0][0], vs[0][1], vs[-1][2])
    return (t, 0, None)


def closed_view(t):
    return _close(view(t))


def prefix_view(t):
    """(view of the receiver, length term) when t is the first `n` bytes of a byte sequence with n not a constant:
    `&s[..n]`, `s.get(..n)` (unwrapped), `s.split_at(n).0`; None otherwise"""
    x = t
    while _is(x, *_SAME_BYTES) and x[2]:
        x = x[2][0]
    if isinstance(x, tuple) and len(x) == 2 and x[0] in ("payload", "try") and _is(x[1], "slice::get", "slice::get_mut"):
        x = ("call", "core::ops::index::Index::index", x[1][2], 0)
    if _is(x, "Index::index", "IndexMut::index_mut") and len(x[2]) == 2 and isinstance(x[2][1], tuple) and len(x[2][1]) == 4 and x[2][1][0] == "agg" and str(x[2][1][1]).rsplit("::", 1)[-1] == "RangeTo":
        return (_close(view(x[2][0])), dict(x[2][1][3]).get("end"))
    if _is(x, "Index::index", "IndexMut::index_mut") and len(x[2]) == 2 and isinstance(x[2][1], tuple) and len(x[2][1]) == 4 and x[2][1][0] == "agg" and str(x[2][1][1]).rsplit("::", 1)[-1] == "Range":
        # `s[a..a + n]` with a constant a: the first n bytes of s[a..]
        d = dict(x[2][1][3])
        a = _const(d.get("start"))
        e = d.get("end")
        if isinstance(e, tuple) and len(e) == 3 and e[0] == "field" and e[2] == "0":
            e = e[1]
        if isinstance(e, tuple) and len(e) == 2 and e[0] in ("payload", "try") and isinstance(e[1], tuple) and len(e[1]) == 4 and e[1][0] == "call" and e[1][1].endswith("::checked_add") and len(e[1][2]) == 2:
            # `a.checked_add(n)` on its Some side is a + n
            e = ("binop", "Add", e[1][2][0], e[1][2][1])
        if a is not None and isinstance(e, tuple) and len(e) == 4 and e[0] == "binop" and e[1].startswith("Add"):
            for p_, q_ in ((e[2], e[3]), (e[3], e[2])):
                if _const(p_) == a:
                    return (_sub(_close(view(x[2][0])), a, None), q_)
    if isinstance(x, tuple) and len(x) == 3 and x[0] == "field" and x[2] == "0" and _is(x[1], "slice::split_at") and len(x[1][2]) == 2:
        return (_close(view(x[1][2][0])), x[1][2][1])
    return None


def _parts(t, shift, out, depth=0):
    """an integer term as a sum of (single-byte view, left shift)"""
    if depth > 20 or not isinstance(t, tuple) or not t:
        return False
    if t[0] == "binop" and t[1] in ("BitOr", "Add", "BitXor", "AddWithOverflow", "AddUnchecked"):
        return _parts(t[2], shift, out, depth + 1) and _parts(t[3], shift, out, depth + 1)
    if t[0] == "binop" and t[1] in ("Shl", "ShlUnchecked"):
        k = _const(t[3])
        return k is not None and _parts(t[2], shift + k, out, depth + 1)
    if t[0] == "binop" and t[1] in ("Mul", "MulWithOverflow"):
        for a, b in ((t[2], t[3]), (t[3], t[2])):
            k = _const(b)
            if k is not None and k > 0 and k & (k - 1) == 0:
                return _parts(a, shift + k.bit_length() - 1, out, depth + 1)
        return False
    if t[0] == "field" and len(t) == 3 and t[2] == "0" and isinstance(t[1], tuple) and t[1][:1] == ("binop",) and "WithOverflow" in t[1][1]:
        return _parts(t[1], shift, out, depth + 1)
    if t[0] == "cast":
        return _parts(t[-1], shift, out, depth + 1)
    if _is(t, "Into::into", "From::from") and len(t[2]) == 1:
        return _parts(t[2][0], shift, out, depth + 1)
    if t[0] == "elem_at":
        v = _close(view(t))
        if v[2] is not None and v[2] == v[1] + 1:
            out.append((v, shift))
            return True
    return False


def int_decode(t, N=None):
    """("be"|"le"|"ne", (base, lo, hi)) when t is an unsigned integer read from consecutive bytes; None otherwise.
    With a Normalizer N also `bytes.iter().fold(0, |acc, b| (acc << 8) | b)` (big-endian; over `.rev()` little-endian)"""
    x = t
    if N is not None and _is(t, "Iterator::fold") and len(t[2]) == 3 and t[2][1] == ("const", 0):
        src, rev = t[2][0], False
        while _is(src, "Iterator::rev", "slice::iter", "IntoIterator::into_iter", "Iterator::copied", "Iterator::cloned") and src[2]:
            rev = rev != _is(src, "Iterator::rev")
            src = src[2][0]
        acc, byte = ("bound", 0), ("bound", 1)
        body = N.norm(N.apply(t[2][2], (acc, byte), 0))
        parts = []

        def terms(y, shift):
            if isinstance(y, tuple) and len(y) == 3 and y[0] == "field" and y[2] == "0" and isinstance(y[1], tuple) and y[1][:1] == ("binop",):
                y = y[1]
            if isinstance(y, tuple) and len(y) == 4 and y[0] == "binop" and y[1] in ("BitOr", "Add", "AddWithOverflow", "BitXor"):
                return terms(y[2], shift) and terms(y[3], shift)
            if isinstance(y, tuple) and len(y) == 4 and y[0] == "binop" and y[1] in ("Shl", "ShlUnchecked") and _const(y[3]) is not None:
                return terms(y[2], shift + _const(y[3]))
            if isinstance(y, tuple) and len(y) == 4 and y[0] == "binop" and y[1] in ("Mul", "MulWithOverflow"):
                for a_, b_ in ((y[2], y[3]), (y[3], y[2])):
                    k = _const(b_)
                    if k is not None and k > 0 and k & (k - 1) == 0:
                        return terms(a_, shift + k.bit_length() - 1)
                return False
            while isinstance(y, tuple) and y and (y[0] == "cast" or (_is(y, "Into::into", "From::from", "Deref::deref", "Clone::clone") and len(y[2]) == 1)):
                y = y[-1] if y[0] == "cast" else y[2][0]
            if y in (acc, byte):
                parts.append((y, shift))
                return True
            return False
        if terms(body, 0) and sorted(parts, key=str) == sorted([(acc, 8), (byte, 0)], key=str):
            v = _close(view(src))
            if v[2] is not None:
                return ("le" if rev else "be", v)
        return None
    while isinstance(x, tuple) and x and (x[0] == "cast" or (_is(x, "Into::into", "From::from", "usize::from", "u32::from", "u64::from") and len(x[2]) == 1)):
        inner = x[-1] if x[0] == "cast" else x[2][0]
        if isinstance(inner, tuple) and inner and inner[0] == "elem_at":
            break
        x = inner
    for order, pats in (("be", ("u16::from_be_bytes", "u32::from_be_bytes", "u64::from_be_bytes", "usize::from_be_bytes")),
                        ("le", ("u16::from_le_bytes", "u32::from_le_bytes", "u64::from_le_bytes", "usize::from_le_bytes")),
                        ("ne", ("u16::from_ne_bytes", "u32::from_ne_bytes", "u64::from_ne_bytes", "usize::from_ne_bytes"))):
        if _is(x, *pats) and len(x[2]) == 1:
            return (order, _close(view(x[2][0])))
    out = []
    if not _parts(t, 0, out) or not out:
        return None
    out.sort(key=lambda e: e[0][1])
    base = out[0][0][0]
    n = len(out)
    if any(v[0] != base or v[1] != out[0][0][1] + i for i, (v, s) in enumerate(out)):
        return None
    shifts = [s for v, s in out]
    whole = (base, out[0][0][1], out[-1][0][2])
    if shifts == [8 * (n - 1 - i) for i in range(n)]:
        return ("be", whole)
    if shifts == [8 * i for i in range(n)]:
        return ("le", whole)
    return None
