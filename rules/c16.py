"""C16 — CTAPHID fragmentation and reassembly preserve every message, per channel (structural clauses; partial).

R1 channel frame rule : in ChannelHandler::handle_packet every access to the channel table uses a key that is exactly the
                        channel field of the packet being handled, the returned message is built from that packet and that
                        entry only, and the handler has no other state — so handling a packet commutes with packets of other
                        channels (the interleaving clause, for all schedules).
R2 continuation without init : the table lookup's None ends the call with None before any mutation.
R3 constants agree    : packet 64, init header 7, continuation header 5, payloads 57 / 59, discriminator bit 0x80, command bytes
                        (CTAPHID table); header encoders and decoders use the same offsets, the same byte order for the channel
                        on both sides and big-endian for the length.
R4 sequence discipline: the sender numbers continuation packets from the enumeration index (0,1,2,..); the receiver starts at 0,
                        accepts a packet only when its number equals the counter, increments by the constant 1 on accept and
                        changes nothing on reject.
R5 full packets       : the only buffer written is the [u8; 64] packet; its tail is zeroed on the last packet before encoding.
R6 size refusal       : Message::new returns Ok only past both size guards; from the guard constants read in the MIR the largest
                        accepted payload is init + max_cont·cont − 1 ≤ 7609 and nothing accepted needs more than 128 continuations.
Not decided: that fragmentation∘reassembly is the identity for every payload length and content.
"""
from . import core, flow, names, normal, summary, intervals
from .framework import where, short, api_name
from .common import find_aggs
from .c02 import has, is_call, find, sub, closure_ret

H = "passkey_transports::hid::"
CMD = {"Msg": 0x03, "Cbor": 0x10, "Init": 0x06, "Ping": 0x01, "Cancel": 0x11, "Err": 0x3F, "KeepAlive": 0x3B, "Wink": 0x08, "Lock": 0x04}
PROTO_MAX = 7609


def run(chk):
    p = core.load_program("all")
    chk.configs = ["all-features"]
    chk.explanation = __doc__
    S = summary.Summaries(p)
    N = normal.Normalizer(p, S)
    hp = p.method(H + "ChannelHandler", "handle_packet")
    ext = p.method(H + "Message", "extend")
    new = p.method(H + "Message", "new")
    snd = p.method(H + "Message", "send")
    tpk = p.method(H + "Message", "to_packets")
    ihe = p.method(H + "InitHeader", "encode")
    che = p.method(H + "ContHeader", "encode")
    need = dict(handle_packet=hp, extend=ext, new=new, send=snd, to_packets=tpk, init_encode=ihe, cont_encode=che)
    if not chk.require("R1 channel frame rule", "R1|anchors", all(v is not None for v in need.values()), H, "missing: %s" % [k for k, v in need.items() if v is None]):
        return
    # the receiving side as one body: handle_packet together with the crate-private parsers and constructors it calls
    # (PacketHeader::try_from, InitHeader::try_from, ContHeader::from, Message::init, ... — whichever exist), so that the
    # rules below hold for the parse as a whole and not for how it is cut into helpers.  Bytes of the packet are tracked as
    # byte-range views (rules/bytesview.py).
    from . import inline, bytesview
    HP = inline.inlined(p, hp)
    Tv = flow.Terms(p, HP)
    Tv.indexed = True
    PKT = ("param", 2)
    CH = ("ne", (PKT, 0, 4))
    bdec = lambda t: bytesview.int_decode(t)
    vw = lambda t: bytesview.closed_view(t)
    for path in HP.inlined_callees:
        chk.touched(p.bodies.get(path))
    for b in need.values():
        chk.touched(b)

    # ---------------- R1 / R2
    T = flow.Terms(p, hp)
    tbl = []
    # (on the inlined receiving side: the table accesses may sit in private helpers — `handle_init`, `handle_cont`)
    for bb, t in HP.calls():
        c = t.get("callee") or ""
        if "HashMap" in c and c.rsplit("::", 1)[-1] in ("insert", "get_mut", "get", "remove", "entry", "contains_key", "clear", "retain", "drain", "values_mut", "iter_mut"):
            tbl.append((bb, t, c.rsplit("::", 1)[-1]))
    keys_ok = True
    wit = []
    n_tbl = 0
    for bb, t in HP.calls():
        c = t.get("callee") or ""
        m = c.rsplit("::", 1)[-1]
        if not ("HashMap" in c and m in ("insert", "get_mut", "get", "remove", "entry", "contains_key", "clear", "retain", "drain", "values_mut", "iter_mut")):
            continue
        n_tbl += 1
        recv = flow.simplify_term(Tv.operand(t["args"][0], bb, "t"))
        key = N.norm(Tv.operand(t["args"][1], bb, "t")) if len(t["args"]) > 1 else None
        on_tbl = has(recv, lambda x: x == ("field", ("param", 1), "channels"))
        k_ok = key is not None and bdec(key) == CH
        wit.append("%s(key=%s)" % (m, ("channel bytes packet[0..4]" if k_ok else flow.term_str(key)[-60:]) if key else "-"))
        if not (on_tbl and k_ok) or m in ("clear", "retain", "drain", "values_mut", "iter_mut"):
            keys_ok = False
    chk.ob("R1 channel frame rule", "R1|handle_packet|keys-are-the-packet-channel", keys_ok and n_tbl >= 3, where(hp), "table accesses: %s" % wit)
    st = p.adts.get(H + "ChannelHandler")
    fields = [f["name"] for f in st["variants"][0]["fields"]] if st else []
    statics = [k for k, c in p.consts.items() if k.startswith(H) and c["def_kind"].startswith("Static")]
    chk.ob("R1 channel frame rule", "R1|no-other-state", fields == ["channels"] and not statics, H + "ChannelHandler", "handler fields: %s, statics: %s" % (fields, statics))
    # what is returned: a Message built from this packet (its channel is this packet's channel bytes), or the entry removed
    # under this packet's channel
    ret_ok = True
    n_some = 0
    for s_ in flow.outcome_sites(HP):
        if s_["path"] != ():
            continue
        if s_.get("idx") is not None:
            v = N.norm(Tv._rvalue(s_["rv"], s_["bb"], s_["idx"], 0))
        else:
            v = N.norm(Tv._call(s_["term"], s_["bb"], 0))
        if isinstance(v, tuple) and len(v) == 4 and v[0] == "agg" and v[2] == "None":
            continue
        if s_["kind"] == "residual":
            continue
        n_some += 1
        inner = dict(v[3]).get("0") if isinstance(v, tuple) and len(v) == 4 and v[0] == "agg" and v[2] == "Some" else v
        if isinstance(inner, tuple) and len(inner) == 4 and inner[0] == "agg" and inner[1].endswith("::Message"):
            ret_ok = ret_ok and bdec(dict(inner[3]).get("channel")) == CH
        elif isinstance(inner, tuple) and len(inner) == 4 and inner[0] == "call" and inner[1].endswith("::remove"):
            ret_ok = ret_ok and len(inner[2]) == 2 and bdec(inner[2][1]) == CH
        elif isinstance(inner, tuple) and inner and inner[0] == "gamma" and all((isinstance(x, tuple) and len(x) == 4 and ((x[0] == "call" and x[1].endswith("::remove") and bdec(x[2][1]) == CH) or (x[0] == "agg" and x[2] == "None"))) for l_, x in inner[2]):
            pass
        else:
            ret_ok = False
    chk.ob("R1 channel frame rule", "R1|returned-message-from-this-packet-or-entry", ret_ok and n_some >= 2, where(hp), "every returned message is built from this packet or is the removed entry of this packet's channel: %s (%d sites)" % (ret_ok, n_some))
    # continuation arm — read on the body that does the lookup: handle_packet itself, or the one private helper it hands the
    # continuation packet to (`handle_cont`); `Message::extend` is a call there
    def _tbl_of(b_):
        out_ = []
        for bb, t in b_.calls():
            c_ = t.get("callee") or ""
            if "HashMap" in c_ and c_.rsplit("::", 1)[-1] in ("insert", "get_mut", "get", "remove", "entry", "contains_key", "clear", "retain", "drain", "values_mut", "iter_mut"):
                out_.append((bb, t, c_.rsplit("::", 1)[-1]))
        return out_
    RB = hp
    if not any(m == "get_mut" for bb, t, m in _tbl_of(hp)):
        cands_ = [p.bodies[x] for x in (getattr(HP, "inlined_callees", None) or []) if x in p.bodies and any(m == "get_mut" for bb, t, m in _tbl_of(p.bodies[x]))]
        if len(cands_) == 1:
            RB = cands_[0]
            chk.touched(RB)
    tbl2 = _tbl_of(RB)
    gm = [(bb, t) for bb, t, m in tbl2 if m == "get_mut"]
    muts = [(bb, t, m) for bb, t, m in tbl2 if m in ("insert", "remove", "entry")]
    if chk.require("R2 continuation without init", "R2|get_mut", len(gm) == 1, where(RB), "expected one get_mut on the channel table"):
        gb = gm[0][0]
        Th = flow.Terms(p, RB)
        is_lookup = lambda x: isinstance(x, tuple) and len(x) == 4 and x[0] == "call" and x[1].endswith("::get_mut")
        found_edges, missing_edges = flow.success_edges(p, RB, is_lookup, Th)
        ok = bool(found_edges) and bool(missing_edges)
        dbg = ""
        if ok:
            after_none = set()
            for sb, sc in missing_edges:
                after_none |= RB.reachable(sc, follow_yield_drop=False)
            mut_after = [m for bb, t, m in muts if bb in after_none]
            ext_after = [bb for bb, t in RB.calls() if names.call_is(t, "Message::extend") and bb in after_none]
            # every outcome on the "no entry" side is None
            exclusive = [s for s in flow.outcome_sites(RB) if s["path"] == () and s["bb"] in after_none and flow.cut_by_edges(RB, 0, [s["bb"]], missing_edges)]
            only_none = bool(exclusive) and all(s["kind"] in ("None", "residual") for s in exclusive)
            ok = not mut_after and not ext_after and only_none
            dbg = (mut_after, ext_after, only_none)
            # in the continuation arm the only mutations are extend (of this entry) and remove (of this key), both after the lookup succeeded
            cont_muts = [bb for bb, t, m in muts if m != "insert"] + [bb for bb, t in RB.calls() if names.call_is(t, "Message::extend")]
            ok = ok and all(flow.cut_by_edges(RB, 0, [bb], found_edges) for bb in cont_muts)
        # a continuation completes (and delivers) the message only when extend() returned Ok(true)
        is_ext = lambda x: isinstance(x, tuple) and len(x) == 4 and x[0] == "call" and names.is_(x[1], "Message::extend")
        ext_ok, ext_bad = flow.success_edges(p, RB, is_ext, Th, N=N)
        rem = [bb for bb, t, m in muts if m == "remove"]
        deliv = bool(ext_ok) and bool(rem) and all(flow.cut_by_edges(RB, 0, [bb], ext_ok) for bb in rem)
        if deliv:
            for bb in rem:
                cds = normal.conditions(N, p, RB, bb, Th) or []
                deliv = deliv and any(flow.is_payload_of(flow.bool_atom(t, l)[0], is_ext) and flow.bool_atom(t, l)[1] is True for sb2, l, t in cds)
        chk.ob("R2 continuation without init", "R2|delivered-only-when-complete", deliv, where(RB, rem[0]) if rem else where(RB), "the entry is removed and returned only past extend(..) == Ok(true): %s" % deliv)
        chk.ob("R2 continuation without init", "R2|none-before-mutation", ok, where(RB, gb), "lookup None → return None; remove/extend only past the successful lookup: %s %s" % (ok, dbg))

    # ---------------- R3
    consts = {"MAX_PACKET_SIZE": 64, "InitHeader::HEADER_SIZE": 7, "InitHeader::MAX_PAYLOAD_SIZE": 57, "ContHeader::HEADER_SIZE": 5, "ContHeader::MAX_PAYLOAD_SIZE": 59, "PACKET_DISCRIPTOR_BIT": 0x80}
    for k, v in consts.items():
        got = p.const_bits(H + k)
        chk.ob("R3 constants agree", "R3|const|%s" % k, got == v, H + k, "%s = %s (CTAPHID: %s)" % (k, got, v))
    cmd = p.adts.get(H + "Command")
    got = {v["name"]: int(v["discr"]) for v in cmd["variants"]} if cmd else {}
    chk.ob("R3 constants agree", "R3|command-bytes", got == CMD, H + "Command", "command bytes %s" % got)
    # the decoder maps each byte to the variant whose discriminant (= the byte the encoder writes) it is
    cd = p.method(H + "Command", "try_from", trait="core::convert::TryFrom")
    if chk.require("R3 constants agree", "R3|Command::try_from", cd, H + "Command", "TryFrom<u8> for Command not found"):
        chk.touched(cd)
        dec = {}
        for o in normal.rows(S, cd, N, expand=False):
            if o.variant[:1] != ("Ok",):
                continue
            v = dict(o.value[3]).get("0")
            for t, l, f, w in o.conds:
                if t == ("param", 1) and l[0] == "in" and isinstance(v, tuple) and v and v[0] == "agg":
                    for b in l[1:]:
                        dec[v[2]] = dec.get(v[2], set()) | {int(b)}
        okd = set(dec) == set(CMD) and all(dec[k] == {CMD[k]} for k in dec)
        chk.ob("R3 constants agree", "R3|Command::try_from|decodes-what-encode-writes", okd, where(cd), "byte → variant table of the decoder: %s (encoder: %s)" % ({k: sorted(v) for k, v in dec.items()}, CMD))
    # encoders
    def writes(b):
        """((lo, hi), source) of the positional writes of an encoder into the packet buffer it is given — range copies and
        element stores alike, byte-wise integer stores merged, helpers it calls inlined (rules/layout.py)"""
        from . import layout
        vb = inline.inlined(p, b)
        W = layout.positional_writes(p, vb, N)
        roots = {w[0] for w in W if isinstance(w[0], tuple) and w[0][:1] == ("param",)}
        out = []
        for r in sorted(roots, key=str):
            out += [((lo, hi), src) for lo, hi, src in layout.grouped_writes(W, r)]
        return out
    wi = writes(ihe)
    wc = writes(che)
    def kind(src):
        if find(src, lambda x: isinstance(x, tuple) and len(x) == 4 and x[0] == "call" and x[1].endswith("to_ne_bytes")):
            return "ne"
        if find(src, lambda x: isinstance(x, tuple) and len(x) == 4 and x[0] == "call" and x[1].endswith("to_be_bytes")):
            return "be"
        if find(src, lambda x: isinstance(x, tuple) and len(x) == 4 and x[0] == "call" and x[1].endswith("to_le_bytes")):
            return "le"
        return "byte"
    li = sorted(((r, kind(s), s) for r, s in wi if r), key=lambda x: x[0][0])
    lc = sorted(((r, kind(s), s) for r, s in wc if r), key=lambda x: x[0][0])
    ok_i = [(r, k) for r, k, s in li] == [((0, 4), "ne"), ((4, 5), "byte"), ((5, 7), "be")] and has(li[0][2], lambda x: x == ("field", ("param", 1), "channel")) and has(li[2][2], lambda x: x == ("field", ("param", 1), "payload_len")) and has(li[1][2], lambda x: x == ("field", ("param", 1), "command"))
    ok_c = [(r, k) for r, k, s in lc] == [((0, 4), "ne"), ((4, 5), "byte")] and has(lc[0][2], lambda x: x == ("field", ("param", 1), "channel")) and lc[1][2] == ("field", ("param", 1), "seq")
    chk.ob("R3 constants agree", "R3|InitHeader::encode|layout", ok_i, where(ihe), "writes: %s" % [(r, k) for r, k, s in li])
    chk.ob("R3 constants agree", "R3|ContHeader::encode|layout", ok_c, where(che), "writes: %s" % [(r, k) for r, k, s in lc])
    # the command byte carries the discriminator bit
    ce = p.method(H + "Command", "encode")
    if ce is not None:
        chk.touched(ce)
        o = S.local_outcomes(ce)
        okb = len(o) >= 1 and all(has(x.value, lambda y: isinstance(y, tuple) and y and y[0] == "binop" and y[1] == "BitOr") and has(x.value, lambda y: isinstance(y, tuple) and len(y) == 2 and y[0] == "const" and (y[1] == 128 or str(y[1]).endswith("PACKET_DISCRIPTOR_BIT"))) for x in o)
        chk.ob("R3 constants agree", "R3|Command::encode|sets-bit-7", okb, where(ce), "Command::encode = %s" % [flow.term_str(x.value)[:80] for x in o][:2])
    # decoders, on the inlined receiving side: which packet bytes feed which header member, and under which test of bit 7
    is_bit = lambda y: isinstance(y, tuple) and len(y) == 2 and y[0] == "const" and (y[1] == 128 or str(y[1]).endswith("PACKET_DISCRIPTOR_BIT"))

    def bit7(t, l):
        """does the edge assert that bit 7 of packet byte 4 is set (True) / clear (False)?  None: no such test"""
        e = flow.eq_test(t, l)
        if e is None or len(e[0]) != 2 or e[1] is None:
            return None
        a_, b_ = tuple(e[0])
        for m_, lit in ((a_, b_), (b_, a_)):
            if isinstance(m_, tuple) and len(m_) == 4 and m_[0] == "binop" and m_[1] == "BitAnd":
                x = [y for y in m_[2:4] if not is_bit(y)]
                if len(x) == 1 and any(is_bit(y) for y in m_[2:4]) and vw(x[0]) == (PKT, 4, 5):
                    if is_bit(lit):
                        return e[1]
                    if lit == ("const", 0):
                        return not e[1]
        return None

    def site_alts(bb):
        return normal.conditions_dnf(N, p, HP, bb, Tv)

    def under(t, alt):
        for sb_, l_, c_ in alt:
            t = flow._resolve_nested(t, c_, l_)
        return flow.simplify_term(t)

    inits = find_aggs(HP, "InitHeader")
    conts = find_aggs(HP, "ContHeader")
    msgs = find_aggs(HP, "Message")
    fld = lambda bb, i, rv, name: N.norm(Tv.operand(rv["ops"][rv["fields"].index(name)], bb, i))
    ch_ok = bool(inits) and bool(conts) and all(bdec(fld(bb, i, rv, "channel")) == CH for bb, i, rv in inits + conts)
    enc_kind = li[0][1] if li else None
    chk.ob("R3 constants agree", "R3|PacketHeader::try_from|channel", ch_ok and enc_kind == "ne" and (lc[0][1] if lc else None) == "ne", where(hp), "both header kinds take the channel from packet[0..4] in native byte order (encoders: %s / %s): %s" % (enc_kind, lc[0][1] if lc else None, ch_ok))
    disc = bool(inits) and bool(conts)
    for group, want in ((inits, True), (conts, False)):
        for bb, i, rv in group:
            alts = site_alts(bb)
            disc = disc and bool(alts) and all(any(bit7(c_, l_) is want for sb_, l_, c_ in alt) for alt in alts)
    chk.ob("R3 constants agree", "R3|PacketHeader::try_from|bit-7-dispatch", disc, where(hp), "an initialization header is built only where bit 7 of packet[4] is set, a continuation header only where it is clear: %s" % disc)
    len_ok = bool(inits) and all(bdec(fld(bb, i, rv, "payload_len")) == ("be", (PKT, 5, 7)) for bb, i, rv in inits)
    seq_ok_ = bool(conts) and all(vw(fld(bb, i, rv, "seq")) == (PKT, 4, 5) for bb, i, rv in conts)
    chk.ob("R3 constants agree", "R3|InitHeader::try_from|cmd1-len2-be", len_ok and seq_ok_ and (li[2][1] if len(li) > 2 else None) == "be", where(hp), "payload length = big-endian packet[5..7] (encoder: %s): %s ; continuation sequence number = packet[4]: %s" % (li[2][1] if len(li) > 2 else None, len_ok, seq_ok_))
    mask = bool(inits)
    for bb, i, rv in inits:
        cm = fld(bb, i, rv, "command")
        def cleared(y):
            if not (isinstance(y, tuple) and len(y) == 4 and y[0] == "binop" and y[1] == "BitAnd"):
                return False
            ops = y[2:4]
            byte = [x for x in ops if vw(x) == (PKT, 4, 5)]
            msk = [x for x in ops if x == ("const", 127) or (isinstance(x, tuple) and len(x) == 3 and x[0] == "unop" and x[1] == "Not" and is_bit(x[2]))]
            return bool(byte) and bool(msk)
        mask = mask and has(cm, cleared) and has(cm, lambda y: is_call(y, "TryFrom::try_from") or is_call(y, "TryInto::try_into"))
    chk.ob("R3 constants agree", "R3|InitHeader::try_from|clears-bit-7", mask, where(hp), "command = Command::try_from(packet[4] & !0x80): %s" % mask)
    # payload share per packet on the receiving side uses the same maxima
    def share(t, start, cap, len_pred):
        """t = the first min(n, cap) bytes of packet[start..]"""
        pv = bytesview.prefix_view(t)
        if pv is None or pv[0] != (PKT, start, None):
            return False
        e = N.norm(pv[1])
        m = normal.min_of(e)
        if m is not None:
            return ("const", cap) in m and any(len_pred(x) for x in m if x != ("const", cap))
        # the same amount written case by case: `if received < total { (total - received).min(cap) } else { 0 }`
        okc, n_pos = True, 0
        for cs, v in normal.cases_deep(e):
            mv = normal.min_of(v)
            if mv is not None and ("const", cap) in mv and any(len_pred(x, cs) for x in mv if x != ("const", cap)):
                n_pos += 1
            elif v == ("const", 0) and cs:
                pass
            else:
                okc = False
        return okc and n_pos >= 1
    oki = bool(msgs)
    for bb, i, rv in msgs:
        alts = site_alts(bb)
        pay = fld(bb, i, rv, "payload")
        oki = oki and bool(alts) and all(share(under(pay, alt), 7, 57, lambda x, cs=None: bdec(x) == ("be", (PKT, 5, 7))) for alt in alts)
    exts = [(bb, t) for bb, t in HP.calls() if names.call_is(t, "Vec::extend_from_slice", "Extend::extend", "Vec::extend")]
    oke = bool(exts)
    for bb, t in exts:
        alts = site_alts(bb)
        a_ = N.norm(Tv.operand(t["args"][1], bb, "t"))
        def remaining(x, cs=None):
            """declared length minus what was received so far — saturating, or a plain subtraction under the test received < total"""
            if isinstance(x, tuple) and len(x) == 3 and x[0] == "field" and x[2] == "0":
                x = x[1]
            mentions = has(x, lambda y: isinstance(y, tuple) and len(y) == 3 and y[0] == "field" and y[2] == "payload_len") and has(x, lambda y: is_call(y, "Vec::len"))
            if is_call(x, "usize::saturating_sub"):
                return mentions
            if isinstance(x, tuple) and x[:1] == ("binop",) and x[1].startswith("Sub") and mentions:
                # a plain subtraction must be guarded by received < total on this case
                for t_, l_ in (cs or []):
                    a_, pol = flow.bool_atom(t_, l_)
                    if isinstance(a_, tuple) and len(a_) == 4 and a_[0] == "binop" and pol is not None:
                        lt = (a_[1] in ("Lt",) and pol) or (a_[1] in ("Ge",) and not pol)
                        gt = (a_[1] in ("Gt",) and pol) or (a_[1] in ("Le",) and not pol)
                        if (lt and a_[2] == x[3] and a_[3] == x[2]) or (gt and a_[2] == x[2] and a_[3] == x[3]):
                            return True
                return False
            return False
        oke = oke and bool(alts) and all(share(under(a_, alt), 5, 59, remaining) for alt in alts)
    chk.ob("R3 constants agree", "R3|receiver-payload-shares", oki and oke, where(hp), "a new message takes the first min(declared length, 57) bytes of packet[7..]: %s ; a continuation appends the first min(remaining, 59) bytes of packet[5..]: %s" % (oki, oke))

    # ---------------- R7: delivery point of the initialisation arm, for every declared length
    # A message whose declared length fits the initialisation packet (<= 57) is returned by that very call; a longer one is
    # parked under its channel (and the sender accepts lengths up to 7608, so all of those must be parked, not dropped).
    # The declared length is a u16: the site conditions of "return Some(message of this packet)" and of the table insert
    # are evaluated for each of the 65536 values on a full 64-byte packet (term interpreter of rules/monotone.py; nothing of
    # the repository runs).  Conditions that do not mention the declared length are about other bytes of the packet and are
    # left free.
    from . import monotone
    LSYM = ("sym", "declared_length")

    def over_len(t, d=0):
        """the term with the declared length and lengths of packet shares spelled over LSYM"""
        if not isinstance(t, tuple) or d > 60:
            return t
        if bdec(t) == ("be", (PKT, 5, 7)):
            return LSYM
        if len(t) == 4 and t[0] == "call" and t[2] and (t[1].endswith("::len") or names.is_(t[1], "Vec::len") or names.is_(t[1], "slice::len")):
            pv = bytesview.prefix_view(t[2][0])
            if pv is None:
                x_ = t[2][0]
                while is_call(x_, "slice::to_vec") or is_call(x_, "ToOwned::to_owned") or is_call(x_, "Vec::from") or is_call(x_, "Into::into") or is_call(x_, "From::from") or is_call(x_, "Deref::deref") or is_call(x_, "Clone::clone"):
                    x_ = x_[2][0]
                pv = bytesview.prefix_view(x_)
            if pv is not None and pv[0][0] == PKT:
                return over_len(N.norm(pv[1]), d + 1)
            cv = bytesview.closed_view(t[2][0])
            if cv[0] == PKT:
                return ("const", (64 if cv[2] is None else cv[2]) - cv[1])
        if len(t) == 3 and t[0] == "unop" and t[1] == "PtrMetadata":
            return over_len(("call", "core::slice::<impl [T]>::len", (t[2],), 0), d + 1)
        return tuple(over_len(x, d + 1) if isinstance(x, tuple) else x for x in t)

    undecided = []

    def prepared(alts):
        out = []
        for alt in alts:
            cs_ = []
            dead = False
            for sb_, l_, c_ in alt:
                flat = normal.norm_cond(under(c_, alt), l_)
                if flat is None:
                    dead = True
                    break
                for t3, l3 in flat:
                    # `packet_share.get(..n)` is present exactly when n bytes are there (a full 64-byte packet)
                    pt = flow.presence_test(t3, l3)
                    if pt is not None and pt[1] is not None and isinstance(pt[0], tuple) and len(pt[0]) == 4 and pt[0][0] == "call" and names.is_(pt[0][1], "slice::get") and len(pt[0][2]) == 2:
                        base_, rng_ = pt[0][2]
                        cv_ = bytesview.closed_view(base_)
                        if cv_[0] == PKT and isinstance(rng_, tuple) and len(rng_) == 4 and rng_[0] == "agg":
                            avail_ = (64 if cv_[2] is None else cv_[2]) - cv_[1]
                            d_ = dict(rng_[3])
                            kind_ = str(rng_[1]).rsplit("::", 1)[-1]
                            end_ = d_.get("end") if kind_ in ("RangeTo", "Range") else None
                            if end_ is not None:
                                t3, l3 = ("binop", "Le", end_, ("const", avail_)), (("notin", "0") if pt[1] else ("in", "0"))
                    c2 = over_len(t3)
                    if flow.term_contains(c2, lambda y: y == LSYM):
                        cs_.append((sb_, l3, c2))
            if not dead:
                out.append(cs_)
        return out

    def holds_for(alts, n):
        """does some alternative of the (prepared) site condition hold for declared length n? None = a condition could not be evaluated"""
        for alt in alts:
            ok_ = True
            for sb_, l_, c2 in alt:
                try:
                    if not monotone.cond_holds(c2, l_, LSYM, n):
                        ok_ = False
                        break
                except monotone.NotMonotone as e_:
                    undecided.append("%s %s" % (flow.term_str(c2)[:300], l_))
                    return None
            if ok_:
                return True
        return False
    ret_sites = []
    for s_ in flow.outcome_sites(HP):
        if s_["path"] != () or s_["kind"] != "Some":
            continue
        v_ = N.norm(Tv._rvalue(s_["rv"], s_["bb"], s_["idx"], 0)) if s_.get("idx") is not None else N.norm(Tv._call(s_["term"], s_["bb"], 0))
        in_ = dict(v_[3]).get("0") if isinstance(v_, tuple) and len(v_) == 4 and v_[0] == "agg" and v_[2] == "Some" else None
        if isinstance(in_, tuple) and len(in_) == 4 and in_[0] == "agg" and in_[1].endswith("::Message"):
            ret_sites.append(s_["bb"])
    ins_sites = [bb for bb, t in HP.calls() if "HashMap" in (t.get("callee") or "") and (t.get("callee") or "").rsplit("::", 1)[-1] in ("insert", "entry")]
    if chk.require("R7 delivery point", "R7|sites", len(ret_sites) >= 1 and len(ins_sites) >= 1, where(hp), "returned-message sites: %d, insert sites: %d" % (len(ret_sites), len(ins_sites))):
        # (path by path: a guard inside a parser helper is a condition of the paths that run through it)
        ret_alts = prepared([a_ for bb in ret_sites for a_ in (normal.path_conditions(N, p, HP, bb, indexed=True) or [])])
        ins_alts = prepared([a_ for bb in ins_sites for a_ in (normal.path_conditions(N, p, HP, bb, indexed=True) or [])])
        bad_d = bad_p = und = None
        for n_ in range(0, 65536):
            d_, p_ = holds_for(ret_alts, n_), holds_for(ins_alts, n_)
            if d_ is None or p_ is None:
                und = n_
                break
            if d_ != (n_ <= 57) and bad_d is None:
                bad_d = (n_, d_)
            if n_ <= PROTO_MAX - 1 and p_ != (n_ > 57) and bad_p is None:
                bad_p = (n_, p_)
        chk.ob("R7 delivery point", "R7|init-packet|delivered-iff-it-holds-the-whole-payload", und is None and bad_d is None, where(HP, ret_sites[0]),
               ("a site condition could not be evaluated (declared length %s): %s" % (und, undecided[:1])) if und is not None else
               ("declared length %d: the message is %s by the call that handles its initialisation packet (a payload of up to 57 bytes is complete with that packet, a longer one is not)" % (bad_d[0], "returned" if bad_d[1] else "not returned")) if bad_d else
               "for each of the 65536 declared lengths: returned by the initialisation call exactly when the length is <= 57")
        chk.ob("R7 delivery point", "R7|init-packet|longer-messages-parked", und is None and bad_p is None, where(HP, ins_sites[0]),
               ("a site condition could not be evaluated (declared length %s)" % und) if und is not None else
               ("declared length %d (the sender accepts up to %d): the message is %s" % (bad_p[0], PROTO_MAX - 1, "parked" if bad_p[1] else "neither returned nor parked — its continuation packets will find no message in progress")) if bad_p else
               "for each declared length in 58..=%d: parked under the packet's channel" % (PROTO_MAX - 1))

    # ---------------- R4
    Tt = flow.Terms(p, tpk)
    # the sequence number of a continuation header is the enumeration index of the chunk it carries — whether the chunks are
    # mapped through a closure or walked by a `for` loop
    seq_ok = False
    src = None
    from . import inline
    for nb0 in p.nested_of(tpk):
        nb = tpk if nb0 is tpk else inline.inlined(p, nb0)
        for bb, i, rv in find_aggs(nb, "ContHeader"):
            Tn = flow.Terms(p, nb)
            sv = N.norm(Tn.operand(rv["ops"][rv["fields"].index("seq")], bb, i))
            x = sv
            while isinstance(x, tuple) and x and (x[0] == "payload" or (len(x) == 4 and x[0] == "call" and (names.is_(x[1], "TryInto::try_into") or names.is_(x[1], "TryFrom::try_from") or names.is_(x[1], "Option::unwrap") or names.is_(x[1], "Result::unwrap")))):
                x = x[1] if x[0] == "payload" else x[2][0]
            if not (isinstance(x, tuple) and len(x) == 3 and x[0] == "field" and x[2] == "0"):
                continue
            elem = x[1]
            if nb0 is not tpk and elem == ("param", 2):
                # closure argument: the closure must be mapped over the enumerated chunks
                for mb, mt in names.calls_to(tpk, "Iterator::map"):
                    clo = flow.simplify_term(Tt.operand(mt["args"][1], mb, "t"))
                    if clo[0] == "closure" and clo[1] == nb0.path:
                        src = N.norm(Tt.operand(mt["args"][0], mb, "t"))
            elif flow.payload_subject(elem) is not None and is_call(flow.payload_subject(elem), "Iterator::next"):
                src = flow.iterator_source(flow.payload_subject(elem)[2][0])
            seq_ok = src is not None and is_call(src, "Iterator::enumerate") and is_call(src[2][0], "slice::chunks")
    enum = seq_ok
    skip = [core.callee_of(t) for bb, t in tpk.calls() if names.call_is(t, "Iterator::skip", "Iterator::rev", "Iterator::step_by", "Iterator::zip")]
    ck = names.calls_to(tpk, "slice::chunks")
    manual = None
    if not seq_ok and not ck:
        # the same numbering and chunking written as a counting loop: one transition table of the loop (flow.loop_steps) —
        # a counter that starts at 0 and grows by one per packet numbers the packet pushed in that iteration, an offset that
        # starts at 57 and advances by min(59, what is left) delimits its payload
        Ls = flow.loops(tpk)
        if len(Ls) == 1:
            head = list(Ls)[0]
            blocks = Ls[head]
            cand = [i for i in range(tpk.arg_count + 1, len(tpk.locals))]
            rws = [r for r in flow.loop_steps(p, tpk, head, blocks, cand) if r["conds"] is not None]
            cont_rows = [r for r in rws if r["kind"] == "continue"]
            pre = [b for b in tpk.preds().get(head, []) if b not in blocks]
            IN = lambda l: ("in", l)
            def plus(v, x, k):
                v = N.norm(v)
                if isinstance(v, tuple) and len(v) == 3 and v[0] == "field" and v[2] == "0":
                    v = v[1]
                return isinstance(v, tuple) and len(v) == 4 and v[0] == "binop" and v[1].startswith("Add") and ((v[2] == x and v[3] == ("const", k)) or (v[3] == x and v[2] == ("const", k)))
            if cont_rows and len(pre) == 1:
                init = lambda l: flow.simplify_term(Tt.place(l, (), pre[0], "t"))
                seq_l = [l for l in cand if tpk.local_ty(l) in ("usize", "u8", "u32") and all(plus(r["state"][l], IN(l), 1) for r in cont_rows) and init(l) == ("const", 0)]
                def adv(v, l):
                    m = normal.min_of(N.norm(v))
                    def total(x):
                        # the payload's length, read directly or kept in a local the loop does not change
                        if is_call(x, "Vec::len") or is_call(x, "slice::len"):
                            return True
                        if isinstance(x, tuple) and len(x) == 2 and x[0] == "in" and all(r["state"].get(x[1]) == x for r in cont_rows):
                            i0 = init(x[1])
                            return is_call(i0, "Vec::len") or is_call(i0, "slice::len")
                        return False
                    return m is not None and any(plus(x, IN(l), 59) for x in m) and any(total(x) for x in m)
                off_l = [l for l in cand if tpk.local_ty(l) == "usize" and all(adv(r["state"][l], l) for r in cont_rows) and init(l) == ("const", 57)]
                pk_l = [l for l in cand if all(isinstance(N.norm(r["state"][l]), tuple) and N.norm(r["state"][l])[:1] == ("upd",) and names.is_(N.norm(r["state"][l])[1], "Vec::push") for r in cont_rows)]
                okm = len(seq_l) == 1 and len(off_l) == 1 and len(pk_l) == 1
                if okm:
                    for r in cont_rows:
                        pushed = N.norm(r["state"][pk_l[0]])
                        okm = okm and pushed[2] == IN(pk_l[0]) and len(pushed[3]) == 1
                        item = pushed[3][0]
                        f0 = N.norm(("field", item, "0"))
                        f1 = N.norm(("field", item, "1"))
                        seqv = find(f0, lambda y: isinstance(y, tuple) and len(y) == 4 and y[0] == "agg" and y[1].endswith("::ContHeader"))
                        sq = dict(seqv[3]).get("seq") if seqv else None
                        while isinstance(sq, tuple) and sq and (sq[0] == "payload" or sq[0] == "cast" or (len(sq) == 4 and sq[0] == "call" and (names.is_(sq[1], "TryInto::try_into") or names.is_(sq[1], "TryFrom::try_from") or names.is_(sq[1], "Result::unwrap")))):
                            sq = sq[1] if sq[0] == "payload" else (sq[-1] if sq[0] == "cast" else sq[2][0])
                        okm = okm and sq == IN(seq_l[0])
                        # the payload of that packet: payload[offset .. min(len, offset + 59)]
                        rg = f1[2][1] if is_call(f1, "Index::index") and len(f1[2]) == 2 else None
                        dr = dict(rg[3]) if isinstance(rg, tuple) and len(rg) == 4 and rg[0] == "agg" and str(rg[1]).endswith("::Range") else {}
                        okm = okm and dr.get("start") == IN(off_l[0]) and dr.get("end") is not None and adv(dr["end"], off_l[0])
                manual = okm
                if okm:
                    src = ("loop", "counter _%d from 0, offset _%d from 57 by min(59, rest)" % (seq_l[0], off_l[0]))
                    seq_ok = True
    chk.ob("R4 sequence discipline", "R4|sender-numbers-from-enumerate", seq_ok and not skip, where(tpk), "ContHeader.seq = enumeration index of %s: %s" % (flow.term_str(src)[:120] if src else "?", seq_ok))
    if manual is not None:
        chk.ob("R4 sequence discipline", "R4|sender-chunk-sizes", bool(manual), where(tpk), "continuation chunks: offset starts at 57 and advances by min(59, remaining): %s" % bool(manual))
    if ck:
        ivt = intervals.Intervals(p, tpk)
        n = ivt.iv_operand(ivt.at(ck[0][0], "t"), ck[0][1]["args"][1]).exact()
        fst = [flow.simplify_term(Tt.operand(t["args"][1], bb, "t")) for bb, t in tpk.calls() if names.call_is(t, "Index::index", "slice::split_at", "slice::split_at_checked")]
        chk.ob("R4 sequence discipline", "R4|sender-chunk-sizes", n == 59 and any(has(x, lambda y: y == ("const", 57)) for x in fst), where(tpk, ck[0][0]), "continuation chunks of %s bytes after the first 57" % n)
    ok = bool(msgs) and all(fld(bb, i, rv, "sequence") == ("const", 0) for bb, i, rv in msgs)
    chk.ob("R4 sequence discipline", "R4|receiver-starts-at-0", ok, where(hp), "a message created from an initialization packet starts with sequence = 0: %s" % ok)
    rows = S.local_outcomes(ext)
    acc = [o for o in rows if o.variant[:1] == ("Ok",)]
    rej = [o for o in rows if o.variant[:1] == ("Err",)]
    want = frozenset({("field", ("param", 2), "seq"), ("field", ("param", 1), "sequence")})
    ok = len(acc) >= 1
    for arow in acc:
        # every accepting row: the packet's number equals the counter, and the row changes exactly the counter (+1) and the
        # payload
        rok = any(flow.eq_test(t, l) == (want, True) for t, l, f, w in arow.conds)
        if rok:
            w = find(arow.value, lambda y: isinstance(y, tuple) and len(y) == 3 and y[0] == "with")
            if w is None:
                # the returned value does not mention the updated receiver: read what `*self` holds where the row returns
                Te_ = flow.Terms(p, ext)
                w = normal.under(N.norm(Te_.place(1, (), arow.site[1], "t")), [(0, l, t) for t, l, f, w_ in arow.conds])
                w = w if isinstance(w, tuple) and len(w) == 3 and w[0] == "with" else None
            ups = dict((k, v) for k, v in w[2]) if w else {}
            inc = ups.get(("sequence",))
            rok = inc is not None and has(inc, lambda y: isinstance(y, tuple) and y and y[0] == "binop" and y[1].startswith("Add") and ("const", 1) in y[2:4] and ("field", ("param", 1), "sequence") in y[2:4]) and set(ups) == {("sequence",), ("payload",)}
        ok = ok and rok
    chk.ob("R4 sequence discipline", "R4|receiver-accepts-only-expected-number", ok, where(ext), "accept row: %s" % ([flow.term_str(acc[0].value)[:200]] if acc else "none"))
    # rejects leave self untouched: no write to self on reject paths
    rej_clean = all(not has(o.value, lambda y: isinstance(y, tuple) and len(y) == 3 and y[0] == "with") for o in rej) and len(rej) >= 2
    mut_sites = [bb for bb, s in ext.stmts() if s["k"] == "assign" and flow.norm_place(s["place"])[0] == 1 and flow.norm_place(s["place"])[1]] + [bb for bb, s in ext.stmts() if s["k"] == "assign" and s["rv"]["k"] == "ref" and s["rv"].get("mut") and flow.norm_place(s["rv"]["place"])[0] == 1]
    err_sites = [s["bb"] for s in flow.outcome_sites(ext) if s["kind"] in ("Err", "residual")]
    untouched = all(not any(e in ext.reachable(m, follow_yield_drop=False) for e in err_sites) for m in mut_sites)
    chk.ob("R4 sequence discipline", "R4|reject-changes-nothing", rej_clean and untouched, where(ext), "no Err return is reachable after a write to self: %s" % untouched)

    # ---------------- R5
    # send, with the functions declared inside it (a local `fn write_packet`) read as part of it; everything else stays a call
    snd_raw = snd
    snd = inline.inlined(p, snd, keep=(lambda cal: not cal.path.startswith(snd_raw.path + "::"),))
    Ts = flow.Terms(p, snd)
    from . import layout as _lay16
    wr = [(bb, t) for bb, t in snd.calls() if names.call_is(t, "Write::write", "Write::write_all")]
    okw = len(wr) >= 1
    for bb_w, t_w in wr:
        # what is written is the whole packet buffer: a zero-initialised [u8; 64] (however it is borrowed or re-sliced)
        root_w = _lay16.root_of(N.norm(Ts.operand(t_w["args"][1], bb_w, "t")))
        okw = okw and root_w == ("repeat", ("const", 0), "64")
    chk.ob("R5 full packets", "R5|send|writes-the-64-byte-buffer", okw, where(snd, wr[0][0]) if wr else where(snd), "the only Write::write argument is the [u8; 64] packet buffer: %s" % okw)
    # the tail of the buffer is zeroed — iter_mut().for_each(|b| *b = 0) or fill(0) — on the edge `index == last`, before encode
    zero_sites = []
    for bb, t in snd.calls():
        if names.call_is(t, "slice::fill") and flow.const_bits(t["args"][1]) == 0:
            zero_sites.append(bb)
        if names.call_is(t, "Iterator::for_each"):
            clo = flow.simplify_term(Ts.operand(t["args"][1], bb, "t"))
            cb2 = p.bodies.get(clo[1]) if clo and clo[0] == "closure" else None
            if cb2 is not None and any(s["k"] == "assign" and s["rv"]["k"] == "use" and s["rv"]["op"]["k"] == "const" and flow.const_bits(s["rv"]["op"]) == 0 and any(e["k"] == "deref" for e in s["place"]["p"]) for b3, s in cb2.stmts()):
                zero_sites.append(bb)
    zero = bool(zero_sites)
    enc = [bb for bb, t in snd.calls() if names.call_is(t, "PacketHeader::encode")]
    fe = zero_sites
    order = bool(enc and fe) and enc[0] in snd.reachable(fe[0], follow_yield_drop=False)
    conds = flow.conditions(p, snd, fe[0], Ts) if fe else []
    def is_last_index(e):
        """index == len(packets) - 1"""
        if e is None or e[1] is not True or len(e[0]) != 2:
            return False
        a, b = tuple(e[0])
        for x, y in ((a, b), (b, a)):
            sub1 = isinstance(x, tuple) and x and x[0] == "binop" and x[1] in ("Sub", "SubWithOverflow", "SubUnchecked") and x[3] == ("const", 1) and has(x[2], lambda z: is_call(z, "Vec::len") or is_call(z, "slice::len"))
            sub1 = sub1 or (isinstance(x, tuple) and x and x[0] == "field" and x[2] == "0" and isinstance(x[1], tuple) and x[1][0] == "binop" and x[1][1].startswith("Sub") and x[1][3] == ("const", 1) and has(x[1][2], lambda z: is_call(z, "Vec::len") or is_call(z, "slice::len")))
            idx = has(y, lambda z: is_call(z, "Iterator::next")) or has(y, lambda z: is_call(z, "Iterator::enumerate"))
            if sub1 and idx:
                return True
        return False
    last = any(is_last_index(flow.eq_test(N.norm(t), l)) for sb, l, t in conds)
    if not last and fe:
        # the other way to single out the last packet: it is popped off the list first, the rest is sent in a loop, then the
        # buffer tail is zeroed and the popped packet is encoded — by the encode call that follows, after which no other runs
        is_pop = lambda z: is_call(z, "Vec::pop")
        encs = [(bb, t) for bb, t in snd.calls() if names.call_is(t, "PacketHeader::encode")]
        after_z = snd.reachable(fe[0], follow_yield_drop=False)
        finals = [(bb, t) for bb, t in encs if bb in after_z]
        if len(finals) == 1:
            eb, et_ = finals[0]
            hdr = N.norm(Ts.operand(et_["args"][0], eb, "t"))
            no_more = not any(bb2 in snd.reachable(snd.succs(eb), follow_yield_drop=False) for bb2, t2 in encs)
            # the zeroed range starts at header length + data length of that same popped packet
            zt = [t for bb, t in snd.calls() if bb == fe[0]][0]
            rng = N.norm(Ts.operand(zt["args"][0], fe[0], "t"))
            last = has(hdr, is_pop) and no_more and has(rng, is_pop) and has(rng, lambda z: is_call(z, "PacketHeader::len"))
            order = order or (eb in after_z)
    # ... and the zeroed range starts right after what this packet writes: header length of *this* packet's header kind (7 for
    # an initialisation packet, 5 for a continuation packet) + length of its data
    start_ok, start_w = False, "zeroed range not found"
    if fe:
        zt = [t for bb, t in snd.calls() if bb == fe[0]][0]
        rcv = N.norm(Ts.operand(zt["args"][0], fe[0], "t"))
        st_t = None
        for x in sub(rcv):
            if isinstance(x, tuple) and len(x) == 4 and x[0] == "agg" and str(x[1]).endswith("RangeFrom"):
                st_t = dict(x[3]).get("start")
                break
            if is_call(x, "Iterator::skip") and len(x[2]) == 2:
                st_t = x[2][1]
                break
        if isinstance(st_t, tuple) and len(st_t) == 3 and st_t[0] == "field" and st_t[2] == "0":
            st_t = st_t[1]
        start_w = "zeroing starts at %s" % (flow.term_str(st_t)[:160] if st_t else "?")
        if isinstance(st_t, tuple) and len(st_t) == 4 and st_t[0] == "binop" and st_t[1].startswith("Add"):
            ops = [st_t[2], st_t[3]]
            dl = [o for o in ops if has(o, lambda z: isinstance(z, tuple) and len(z) == 4 and z[0] == "call" and z[1].endswith("::len") and not names.is_(z[1], "PacketHeader::len"))]
            hl = [o for o in ops if o not in dl]
            pha = p.adts.get(H + "PacketHeader")
            vidx = {v["name"]: str(i) for i, v in enumerate(pha["variants"])} if pha else {}
            want = {vidx.get("Initialization"): 7, vidx.get("Continuation"): 5}

            def kind_table(h):
                """{variant index: header length} of a header-length term: a private helper matched on the header kind, or the
                same selection written in place"""
                if isinstance(h, tuple) and len(h) == 4 and h[0] == "call" and h[1] in p.bodies and len(h[2]) == 1:
                    tab = {}
                    for o in S.local_outcomes(p.bodies[h[1]]):
                        v = o.value
                        k = [l[1] for t, l, f_, w_ in o.conds if flow.is_discr(t, ("param", 1)) and l[0] == "in" and len(l) == 2]
                        if len(k) == 1 and isinstance(v, tuple) and v[0] == "const" and isinstance(v[1], int):
                            tab[k[0]] = v[1]
                        else:
                            return None
                    return tab
                if isinstance(h, tuple) and h and h[0] == "gamma" and flow.is_discr(h[1]):
                    tab = {}
                    for l, v in h[2]:
                        if l[0] == "in" and len(l) == 2 and isinstance(v, tuple) and v[0] == "const" and isinstance(v[1], int):
                            tab[l[1]] = v[1]
                        else:
                            return None
                    return tab
                return None
            if len(dl) == 1 and len(hl) == 1:
                kt = kind_table(hl[0])
                start_ok = kt is not None and kt == want
                start_w += " — header length by packet kind: %s (CTAPHID: initialisation 7, continuation 5)" % (kt if kt is not None else "not a function of the header kind")
    chk.ob("R5 full packets", "R5|send|zeroing-starts-after-this-packets-header-and-data", start_ok, where(snd, fe[0]) if fe else where(snd), start_w)
    chk.ob("R5 full packets", "R5|send|tail-zeroed-on-last-packet-before-encode", zero and order and last, where(snd, fe[0]) if fe else where(snd), "zeroing of the unused tail: %s, applied to the last packet only (i == last, or the popped last element): %s, before it is encoded: %s" % (zero, last, order))
    snd = snd_raw

    # ---------------- R6
    # the size guard decided for every payload length: its conditions are comparisons of monotone functions of the length
    # with constants, so the set of accepted lengths is found exactly from the thresholds (rules/monotone.py) — whichever
    # way the guard is spelled
    from . import monotone
    rows = normal.rows(S, new, N, expand=True, deep=True)
    LEN = None
    for o in rows:
        for t, l, f, w in o.conds:
            x = find(t, lambda y: is_call(y, "slice::len") and y[2][0] == ("param", 3))
            if x is not None:
                LEN = x
    tab = [(o.variant[:1] == ("Ok",), [(t, l) for t, l, f, w in o.conds]) for o in rows]
    acc_set = monotone.accept_set(tab, LEN) if LEN is not None else None
    chk.ob("R6 size refusal", "R6|new|ok-only-past-both-guards", acc_set is not None and len(acc_set) == 1 and acc_set[0][0] == 0, where(new),
           "accepted payload lengths (all lengths decided from the guard's thresholds): %s" % (acc_set if acc_set is not None else "the guard is not a combination of monotone length tests: %s" % [o.cond_strs() for o in rows][:2]))
    if acc_set:
        largest = acc_set[-1][1]
        need_cont = -(-(largest - 57) // 59) if largest > 57 else 0
        chk.ob("R6 size refusal", "R6|new|largest-accepted-within-protocol", len(acc_set) == 1 and largest <= PROTO_MAX and largest <= 65535 and need_cont <= 128 and largest >= 57 + 128 * 59 - 1, where(new),
               "largest accepted payload %d (protocol maximum %d, length field maximum 65535), needing %d continuation packets of 59 bytes after the first 57" % (largest, PROTO_MAX, need_cont))
    chk.floor("R1", 3)
    chk.floor("R2", 2)
    chk.floor("R3", 15)
    chk.floor("R4", 5)
    chk.floor("R5", 2)
    chk.floor("R6", 2)
    chk.floor("R7", 2)
    chk.assumptions = ["HashMap operations on different keys commute", "std::io::Write::write of a 64-byte buffer is one report"]
