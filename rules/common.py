"""Helpers shared by the property rule modules."""
from collections import deque

from . import core, flow, names

AUTH = "passkey_authenticator::authenticator::Authenticator"
CLIENT = "passkey_client::Client"


def adt_ident(p, ident, crate=None):
    """Full path of the unique workspace ADT with this last identifier (fail closed: None)."""
    c = [a for a in p.adts if a.rsplit("::", 1)[-1] == ident and (crate is None or a.startswith(crate + "::"))]
    # ignore serde-generated helper ADTs inside `_::` modules
    c2 = [a for a in c if "::_::" not in a] or c
    return c2[0] if len(c2) == 1 else None


# Private functions that rule modules still address by name (their decision tables are extracted as units).  They are
# kept as calls in the inlined views; every other non-exported helper — in particular any helper a refactoring
# introduces — is inlined.  (Shrinking this list = restating the rule on the inlined view.)
NAMED_PRIVATE = (
    "Authenticator::check_user", "Authenticator::make_extensions", "Authenticator::get_extensions", "Authenticator::get_prf",
    "CoseKeyPair::from_secret_key", "private_key_from_cose_key", "Client::registration_extension_outputs",
    "Client::auth_extension_ctap2_input", "Client::registration_extension_ctap2_input", "Client::map_rk",
    "Authenticator::choose_algorithm", "RpIdVerifier::assert_domain",
)


def keep_named(callee):
    from . import names
    return any(names.is_(callee.path, pat) for pat in NAMED_PRIVATE)


def ceremony(p, name, adt=AUTH, trait=None, raw=False, keep=(keep_named,)):
    """async body of an inherent async method — by default as an inlined view: the method together with the
    crate-private helpers it calls (rules/inline.py), so that moving code between the method and a private helper
    changes nothing"""
    co = p.async_body(p.method(adt, name, trait=trait))
    if raw or co is None:
        return co
    from . import inline
    return inline.inlined(p, co, keep=keep)


def find_aggs(body, adt_last_ident, variant=None):
    """(bb, idx, rvalue) of every aggregate construction of an ADT (by last identifier)"""
    out = []
    for bb, blk in enumerate(body.blocks):
        if blk["cleanup"]:
            continue
        for i, s in enumerate(blk["stmts"]):
            if s["k"] == "assign" and s["rv"]["k"] == "agg" and s["rv"].get("ak") == "adt":
                if s["rv"]["adt"].rsplit("::", 1)[-1] == adt_last_ident and (variant is None or s["rv"]["variant"] == variant):
                    out.append((bb, i, s["rv"]))
    return out


def place_reads(rv):
    """places read by an rvalue (JSON place objects)"""
    out = []

    def op(o):
        if o and o["k"] in ("copy", "move"):
            out.append(o["place"])

    k = rv["k"]
    if k in ("use", "cast", "repeat"):
        op(rv["op"])
    elif k in ("ref", "copyforderef", "rawptr", "discr"):
        out.append(rv["place"])
    elif k == "binop":
        op(rv["a"])
        op(rv["b"])
    elif k == "unop":
        op(rv["a"])
    elif k == "agg":
        for o in rv["ops"]:
            op(o)
    return out


def term_reads(t):
    out = []
    if t is None:
        return out
    k = t["k"]
    if k == "call":
        for a in t["args"]:
            if a["k"] in ("copy", "move"):
                out.append(a["place"])
        if t["func"]["k"] in ("copy", "move"):
            out.append(t["func"]["place"])
    elif k == "switch":
        if t["op"]["k"] in ("copy", "move"):
            out.append(t["op"]["place"])
    elif k == "assert":
        if t["cond"]["k"] in ("copy", "move"):
            out.append(t["cond"]["place"])
    elif k == "yield":
        if t["value"]["k"] in ("copy", "move"):
            out.append(t["value"]["place"])
    elif k == "drop":
        pass
    return out


def place_has_field(pj, adt_last_ident, field):
    for e in pj["p"]:
        if e["k"] == "field" and e["name"] == field and e.get("adt", "").rsplit("::", 1)[-1] == adt_last_ident:
            return True
    return False


def reads_field(body, adt_last_ident, field):
    """locals assigned from a read of <ADT>.<field> (seed set for forward taint)"""
    seeds = set()
    for bb, s in body.stmts():
        if s["k"] != "assign":
            continue
        for pj in place_reads(s["rv"]):
            if place_has_field(pj, adt_last_ident, field):
                seeds.add(s["place"]["l"])
    return seeds


def forward_taint(body, seeds, through_calls=True):
    """flow-insensitive forward closure over locals: dest of any statement/call using a tainted local"""
    tainted = set(seeds)
    changed = True
    while changed:
        changed = False
        for bb, blk in enumerate(body.blocks):
            if blk["cleanup"]:
                continue
            for s in blk["stmts"]:
                if s["k"] != "assign":
                    continue
                d = s["place"]["l"]
                if d in tainted:
                    continue
                if any(pj["l"] in tainted for pj in place_reads(s["rv"])):
                    tainted.add(d)
                    changed = True
            t = blk["term"]
            if through_calls and t and t["k"] == "call":
                d = t["dest"]["l"]
                if d not in tainted and any(pj["l"] in tainted for pj in term_reads(t)):
                    tainted.add(d)
                    changed = True
    return tainted


def upvar_names(p, co):
    """coroutine/closure body: upvar index -> user variable name (from `_n = move _1.<i>` copies)"""
    out = {}
    for bb, s in co.stmts():
        if s["k"] == "assign" and s["rv"]["k"] == "use":
            pl = flow.op_place(s["rv"]["op"])
            if pl and pl[0] == 1 and len(pl[1]) == 1 and isinstance(pl[1][0], str) and pl[1][0].isdigit():
                l = s["place"]["l"]
                n = co.local_name(l)
                if n:
                    out[int(pl[1][0])] = n
    return out


def term_fields(t):
    """sequence of field names along a chain field(field(base,a),b) -> (base, [a,b])"""
    fs = []
    while isinstance(t, tuple) and t and t[0] == "field":
        fs.append(t[2])
        t = t[1]
    return t, list(reversed(fs))


def is_upvar_field(t, idx, *fields):
    base, fs = term_fields(t)
    return base == ("upvar", idx) and fs == list(fields)


def accepted_counter_cut(p, ga, T=None):
    """get_assertion: is every Ok return behind (the stored counter is absent) or (update_credential's result was tested
    and found Ok)?  Idiom independent: the tests are located through flow.success_edges.
    -> (holds, update success edges, no-counter edges)"""
    from . import flow, names
    T = T or flow.Terms(p, ga)
    is_update = lambda x: isinstance(x, tuple) and len(x) == 4 and x[0] == "await" and names.is_(x[1], "CredentialStore::update_credential")
    is_counter = lambda x: isinstance(x, tuple) and len(x) == 3 and x[0] == "field" and x[2] == "counter"
    upd_ok, _ = flow.success_edges(p, ga, is_update, T)
    _, no_counter = flow.success_edges(p, ga, is_counter, T)
    oks = flow.ok_sites(p, ga, T)
    if not upd_ok or not oks:
        return False, upd_ok, no_counter
    return flow.cut_by_edges(ga, 0, oks, list(upd_ok) + list(no_counter)), upd_ok, no_counter


def lookup_rejects_empty_labels(p, body):
    """the given public lookup entry reaches ListProvider::public_suffix only when the whole input has no empty label;
    -> (holds, body view, call block, witness)"""
    from . import flow, names, normal, summary, inline
    et = inline.inlined(p, body)
    T = flow.Terms(p, et)
    calls = names.calls_to(et, "ListProvider::public_suffix")
    if len(calls) != 1:
        return False, et, None, "expected one public_suffix call"
    cb = calls[0][0]
    N = normal.Normalizer(p, summary.Summaries(p))
    ok, wit = empty_label_tests(p, N, normal.conditions(N, p, et, cb, T) or [], ("param", 2))
    return ok, et, cb, wit


def empty_label_tests(p, N, conds, whole):
    """do the necessary conditions of a lookup say that `whole` (the complete input) has no empty label?  The three tests
    — no leading dot, no trailing dot, no two dots in a row — on their false edges, in any spelling: starts_with / ends_with /
    contains on the string, first() / last() / windows(2) on its bytes, or a split on '.' whose labels are tested for
    emptiness.  -> (holds, witness)"""
    from . import flow, names
    def strip(x):
        while isinstance(x, tuple) and len(x) == 4 and x[0] == "call" and x[2] and any(names.is_(x[1], s) for s in ("str::as_bytes", "Deref::deref", "AsRef::as_ref", "String::as_str")):
            x = x[2][0]
        return x
    is_c = lambda x, *pats: isinstance(x, tuple) and len(x) == 4 and x[0] == "call" and any(names.is_(x[1], s) for s in pats)
    DOT = ("const", 46)
    some_dot = ("agg", "core::option::Option", "Some", (("0", DOT),))
    seen = set()
    split_form = False
    for sb, labs, t in conds:
        a, pol = flow.bool_atom(t, labs)
        if pol is False and is_c(a, "str::starts_with", "str::ends_with", "str::contains") and len(a[2]) == 2 and strip(a[2][0]) == whole:
            kind = a[1].rsplit("::", 1)[-1]
            if kind in ("starts_with", "ends_with") and a[2][1] in (DOT, ("const", ".")):
                seen.add(kind)
            if kind == "contains" and a[2][1] in (("const", ".."), ("const", b"..")):
                seen.add("contains")
        if pol is False and is_c(a, "Iterator::any"):
            src = a[2][0]
            if flow.term_contains(src, lambda y: is_c(y, "str::split") and strip(y[2][0]) == whole and y[2][1] == DOT):
                split_form = True
            if is_c(src, "slice::windows") and len(src[2]) == 2 and strip(src[2][0]) == whole and src[2][1] == ("const", 2):
                body = N.norm(N.apply(a[2][1], (("bound", 0),), 0))
                e = flow.eq_test(body, ("notin", "0"))
                if e is not None and e[1] is True and any(x in (("const", b".."), ("const", ".."), ("array", (DOT, DOT))) for x in e[0]) and any(flow.term_contains(x, lambda y: y == ("bound", 0)) for x in e[0]):
                    seen.add("contains")
        e = flow.eq_test(t, labs)
        if e is not None and e[1] is False and len(e[0]) == 2 and some_dot in e[0]:
            other = [x for x in e[0] if x != some_dot][0]
            if is_c(other, "slice::first") and strip(other[2][0]) == whole:
                seen.add("starts_with")
            if is_c(other, "slice::last") and strip(other[2][0]) == whole:
                seen.add("ends_with")
    ok = seen >= {"starts_with", "ends_with", "contains"} or split_form
    return ok, "the lookup is conditioned on the whole input passing %s" % (("no leading dot / no trailing dot / no '..': %s" % sorted(seen)) if not split_form else "split('.').any(empty) == false")


def etld_rejects_empty_labels(p):
    """ListProvider::effective_tld_plus_one: the table lookup is only reached when the *whole* input has no empty label.
    Accepted forms of the test (on the function's own domain parameter): the three string tests starts_with('.'),
    ends_with('.'), contains("..") on their false edges, or a split on '.' whose labels are tested for emptiness.
    -> (found, holds, body, call block, witness)"""
    from . import flow, names, normal, summary
    et = p.method("public_suffix::ListProvider", "effective_tld_plus_one", trait="public_suffix::EffectiveTLDProvider")
    if et is None:
        return False, False, None, None, "effective_tld_plus_one not found"
    from . import inline
    et = inline.inlined(p, et)
    T = flow.Terms(p, et)
    calls = names.calls_to(et, "ListProvider::public_suffix")
    if len(calls) != 1:
        return True, False, et, None, "expected one public_suffix call"
    cb = calls[0][0]
    N = normal.Normalizer(p, summary.Summaries(p))
    ok, wit = empty_label_tests(p, N, normal.conditions(N, p, et, cb, T) or [], ("param", 2))
    return True, ok, et, cb, wit


def u2f_body(p, name):
    """inlined view of <Authenticator as U2fApi>::<name>'s async body"""
    from . import inline
    tr = [t for t in p.traits.values() if t["path"].endswith("::U2fApi")]
    if not tr:
        return None
    return inline.inlined(p, p.async_body(p.method(AUTH, name, trait=tr[0]["path"])), keep=(keep_named,))


def record_fields(term):
    """members of a record-valued term: an aggregate, possibly with member updates applied (`with`)"""
    base, ups = term, {}
    while isinstance(base, tuple) and base and base[0] == "with":
        for pth, v in base[2]:
            if len(pth) == 1 and pth[0] not in ups:
                ups[pth[0]] = v
        base = base[1]
    if not (isinstance(base, tuple) and len(base) == 4 and base[0] == "agg"):
        return None
    d = dict(base[3])
    d.update(ups)
    return d


def saved_passkey(p, mc, T, N):
    """(fields of the Passkey record handed to save_credential in make_credential, call block) — the record as it is
    when it is stored, whether it was written as one literal or built up by member assignments"""
    from . import names
    sv = names.calls_to(mc, "CredentialStore::save_credential")
    if len(sv) != 1:
        return None, None
    bb, t = sv[0]
    return record_fields(N.norm(T.operand(t["args"][1], bb, "t"))), bb


def hmac_functions(p, crate="passkey_authenticator"):
    """the functions of the authenticator that derive PRF outputs: every function whose body (or a closure of it) calls
    hmac_sha256 — found by what it does, wherever it lives (free function, method, …)"""
    from . import names
    out = []
    for b in p.all_bodies:
        if b.crate != crate or b.path != b.root or b.def_kind not in ("Fn", "AssocFn"):
            continue
        if any(names.call_is(t, "crypto::hmac_sha256") or names.call_is(t, "hmac_sha256") for nb in p.nested_of(b) for _bb, t in nb.calls()):
            out.append(b)
    return out


def param_roles(body, **want):
    """parameter index by type: role=substring of the parameter's type; a role is None unless exactly one parameter matches"""
    n = body.j.get("arg_count", 0)
    tys = [(i, (body.j["locals"][i].get("ty") or "")) for i in range(1, n + 1)]
    out = {}
    for role, pat in want.items():
        m = [i for i, ty in tys if (ty == pat if pat == "bool" else ty.rstrip(">").endswith(pat) or ("::" + pat + ">") in ty or ty.endswith(pat))]
        out[role] = m[0] if len(m) == 1 else None
    return out


def altered_uses(term, targets, extra_wrappers=()):
    """Occurrences of a value that reach `term` altered.  A use of one of `targets` is *clean* when it gets where it goes as
    the same bytes: through borrows, clones, `to_vec`/`into`/`from` conversions, the `Bytes` newtype, `Some`, and selections
    all of whose (reachable) branches are clean.  It is *altered* when it is the base of an in-place update (`upd`: fill,
    copy_from_slice, element stores), of an index/slice projection, or one branch of a selection whose other branches are
    something else.  -> list of the offending sub-terms (empty = every use is clean).  Selection conditions are not uses."""
    from . import bytesview
    strip = flow.strip_sites
    tg = [strip(t) for t in targets if t is not None]
    wr = tuple(bytesview._SAME_BYTES) + tuple(extra_wrappers)
    mentions = lambda x: flow.term_contains(x, lambda y: isinstance(y, tuple) and strip(y) in tg)

    def clean(x, d=0):
        if not isinstance(x, tuple) or d > 40:
            return False
        if strip(x) in tg:
            return True
        if len(x) == 4 and x[0] == "call" and x[2] and isinstance(x[1], str) and any(names.is_(x[1], w) for w in wr):
            return clean(x[2][0], d + 1)
        if len(x) == 4 and x[0] == "agg" and len(x[3]) == 1 and (x[2] == "Some" or str(x[1]).rsplit("::", 1)[-1] in ("Bytes", "Value")):
            return clean(x[3][0][1], d + 1)
        if len(x) == 2 and x[0] == "payload":
            return clean(x[1], d + 1)
        if x and x[0] == "gamma":
            brs = [v for l, v in x[2] if v != ("never",)]
            return bool(brs) and all(clean(v, d + 1) for v in brs)
        if x and x[0] == "phi":
            brs = [v for v in x[1] if v != ("never",)]
            return bool(brs) and all(clean(v, d + 1) for v in brs)
        return False
    bad = []

    def walk(x, d=0):
        if not isinstance(x, (tuple, frozenset)) or d > 200 or not mentions(x):
            return
        if isinstance(x, frozenset):
            for y in x:
                walk(y, d + 1)
            return
        if clean(x):
            return
        if x and x[0] in ("gamma", "phi"):
            brs = [v for l, v in x[2]] if x[0] == "gamma" else list(x[1])
            if any(clean(v) for v in brs):
                bad.append(x)     # the value on one path, something else on another
                return
            for v in brs:
                walk(v, d + 1)
            return
        if x and x[0] == "upd" and len(x) == 4 and mentions(x[2]):
            bad.append(x)
            return
        if x and x[0] in ("with", "elem_at", "subslice_at") and len(x) > 1 and mentions(x[1]):
            bad.append(x)
            return
        if len(x) == 4 and x[0] == "call" and isinstance(x[1], str) and x[2] and (names.is_(x[1], "Index::index") or names.is_(x[1], "IndexMut::index_mut") or names.is_(x[1], "slice::get") or names.is_(x[1], "slice::split_at")) and mentions(x[2][0]):
            bad.append(x)
            return
        for y in x:
            if isinstance(y, (tuple, frozenset)):
                walk(y, d + 1)
    walk(term)
    return bad
