"""C02 — registration returns a credential that a standard relying party can verify (provenance clauses).

Value terms (reaching definitions + value numbering over the compiler's MIR) of every field of the returned aggregates are
traced back to their sources:
R1 client data   : type = ClientDataType::Create; challenge = encoding::base64url(request.challenge) and base64url encodes with
                   BASE64URL_NOPAD; origin = the caller's origin; the hash sent to the authenticator is the caller-supplied hash
                   or sha256 of the very JSON string that is returned.
R2 authData twice: response.authenticator_data and the attestation object's "authData" are to_vec of the same value; the
                   attestation object is built from the constants "fmt"="none", "attStmt", "authData".
R3 ids           : id = base64url(x) and rawId = x for the same attested credential id; in the authenticator the attested id
                   and the stored Passkey.credential_id are the same random_vec(configured length) value.
R4 keys          : the attested key is CoseKeyPair.public, the stored key CoseKeyPair.private of one from_secret_key call; DER key
                   and algorithm come from that attested key; from_secret_key builds `public` without the scalar.
R5 rpIdHash      : AuthenticatorData::new receives request.rp.id, hashes it with sha256; Passkey.rp_id is the same rp id.
R6 algorithm     : an empty preference list is replaced by the WebAuthn defaults; choose_algorithm is a forward first-match
                   search of the request list for membership in the authenticator's algorithms, its error precedes creation.
R7 one credential: exactly one save_credential, outside any loop, and Ok passes its success edge.
R8 id length     : CredentialIdLength's field is private; its constructors clamp to MIN=16..=MAX=64.
Not decided: validity of the P-256 point, DER≡COSE as byte strings, randomness quality.
"""
from . import core, flow, names, normal, summary
from .framework import where, short, api_name
from .common import AUTH, CLIENT, ceremony, find_aggs, term_fields

REV = ("Iterator::rev", "Iterator::last", "Iterator::max", "Iterator::min", "Iterator::max_by", "Iterator::min_by", "Iterator::max_by_key", "Iterator::min_by_key",
       "Iterator::rfind", "Iterator::rposition", "DoubleEndedIterator::rfind", "DoubleEndedIterator::next_back", "slice::last", "slice::reverse", "Iterator::nth", "Iterator::skip")


def has(t, pred):
    return flow.term_contains(t, pred)


def is_call(x, pat):
    return isinstance(x, tuple) and len(x) == 4 and x[0] in ("call", "await") and isinstance(x[1], str) and names.is_(x[1], pat)


def sub(t):
    yield t
    if isinstance(t, frozenset):
        for x in t:
            yield from sub(x)
    elif isinstance(t, tuple):
        for x in t:
            if isinstance(x, (tuple, frozenset)):
                yield from sub(x)


def find(t, pred):
    for x in sub(t):
        if pred(x):
            return x
    return None


def closure_ret(p, clo, subst=True):
    if not (isinstance(clo, tuple) and len(clo) == 3 and clo[0] == "closure" and clo[1] in p.bodies):
        return None
    cb = p.bodies[clo[1]]
    r = cb.return_blocks()
    if len(r) != 1:
        return None
    v = flow.simplify_term(flow.Terms(p, cb).place(0, (), r[0], "t"))
    if subst:
        for ci, cv in enumerate(clo[2]):
            v = summary.replace(v, ("field", ("param", 1), str(ci)), cv)
    return flow.simplify_term(v)


def client_data_impl_rule(chk, p, R):
    """the shipped implementations of ClientData::client_data_hash return either nothing (the client hashes the JSON it
    builds) or the caller's hash as it was supplied — never a transformation of it"""
    tr = [t for t in p.traits.values() if t["path"].endswith("::ClientData") and t["path"].startswith("passkey_client")]
    if not chk.require(R, "R1|ClientData", len(tr) == 1, "passkey_client", "trait ClientData not found"):
        return
    bad = []
    n = 0
    N = normal.Normalizer(p, summary.Summaries(p))
    for im in p.impls_of(trait=tr[0]["path"]):
        for item in im["items"]:
            if item["name"] != "client_data_hash":
                continue
            b = p.bodies.get(item["def"]) or p.by_id.get(item.get("def_id"))
            if b is None:
                continue
            n += 1
            chk.touched(b)
            for rt in b.return_blocks():
                v = N.inline(flow.Terms(p, b).place(0, (), rt, "t"))
                for cs, x in normal.cases_deep(v):
                    if x == normal.NONE or x == ("param", 1):
                        continue  # nothing supplied / `impl ClientData for Option<Vec<u8>>`: the option itself
                    ok = isinstance(x, tuple) and x[:3] == ("agg", "core::option::Option", "Some")
                    if ok:
                        inner = dict(x[3])["0"]
                        # the stored hash itself: a member of self, through clones / conversions that keep the bytes
                        y = inner
                        while isinstance(y, tuple) and len(y) == 4 and y[0] == "call" and y[2] and any(names.is_(y[1], s) for s in ("Clone::clone", "Into::into", "From::from", "slice::to_vec", "Vec::clone", "ToOwned::to_owned", "Deref::deref", "AsRef::as_ref")):
                            y = y[2][0]
                        ok = isinstance(y, tuple) and y and y[0] == "field" and has(y, lambda z: z == ("param", 1)) and not has(inner, lambda z: is_call(z, "sha256") or is_call(z, "Digest::digest") or is_call(z, "crypto::sha256"))
                    if not ok:
                        bad.append("%s returns %s" % (api_name(b), flow.term_str(x)[:120]))
    chk.ob(R, "R1|ClientData::client_data_hash|supplied-hash-unchanged", n >= 2 and not bad, tr[0]["path"],
           bad[0] if bad else "%d implementations return None or the hash they were given, unchanged" % n)


def origin_rendering_rule(chk, p, R):
    """`origin.to_string()` is what goes into the client data: for a web origin the Display impl must write the URL's own
    ASCII serialisation (scheme, punycode host, non-default port) — Url::as_str (trailing '/' trimmed), the Url's
    Display/Into<String>, or url.origin().ascii_serialization() — and nothing else of the URL (no unicode form, no slice that
    drops the port, no hand-assembled host)."""
    fm = [b for b in p.all_bodies if b.path.endswith("::fmt") and "core::fmt::Display" in b.path and "passkey_client::Origin" in b.path]
    if not chk.require(R, "R1|Origin::fmt", len(fm) == 1, "passkey_client::Origin", "impl Display for Origin not found"):
        return
    b = fm[0]
    chk.touched(b)
    T = flow.Terms(p, b)
    web = lambda x: x == ("field", ("field", ("param", 1), "as Web"), "0") or x == ("payload", ("param", 1)) or (isinstance(x, tuple) and len(x) == 3 and x[0] == "field" and x[2] == "0" and isinstance(x[1], tuple) and x[1][:1] == ("field",) and x[1][2] == "as Web")
    written = []
    for bb, t in b.calls():
        if names.call_is(t, "Argument::new_display", "Argument::new_debug", "Formatter::write_str", "Formatter::pad", "Display::fmt", "core::fmt::rt::Argument::new_display"):
            for a in t["args"]:
                x = flow.simplify_term(T.operand(a, bb, "t"))
                if has(x, web):
                    written.append((bb, x))
    # every url-crate function applied to the web URL in this impl
    used = set()
    for bb, t in b.calls():
        cal = core.callee_of(t)
        if cal.startswith("url::") and any(has(flow.simplify_term(T.operand(a, bb, "t")), web) for a in t["args"]):
            used.add(names.strip_generics(cal))
    good = True
    wit = []
    for bb, x in written:
        y = x
        while isinstance(y, tuple) and len(y) == 4 and y[0] == "call" and (names.is_(y[1], "str::trim_end_matches") or names.is_(y[1], "str::trim_matches") or names.is_(y[1], "String::as_str")) and (len(y[2]) < 2 or y[2][1] in (("const", 47), ("const", "/"))):
            y = y[2][0]
        ok = web(y) or (is_call(y, "Url::as_str") and web(y[2][0])) or (is_call(y, "Origin::ascii_serialization") and is_call(y[2][0], "Url::origin") and web(y[2][0][2][0]))
        good = good and ok
        wit.append(flow.term_str(x)[:120])
    allowed = {"url::Url::as_str", "url::Url::origin", "url::origin::Origin::ascii_serialization"}
    chk.ob(R, "R1|Origin::fmt|web-origin-is-the-url-ascii-serialisation", bool(written) and good and used <= allowed, where(b),
           "web origin written as %s ; url functions applied to it: %s" % (wit, sorted(used)))


def client_data_rules(chk, p, co, nm, ty_variant, target):
    """shared by C02 (register) and C03 (authenticate)"""
    T = flow.Terms(p, co)
    R = "R1 client data"
    ccd = find_aggs(co, "CollectedClientData")
    if not chk.require(R, "R1|Client::%s|CollectedClientData" % nm, len(ccd) == 1, where(co), "expected one CollectedClientData construction"):
        return None
    bb, i, rv = ccd[0]
    f = {k: flow.simplify_term(T.operand(o, bb, i)) for k, o in zip(rv["fields"], rv["ops"])}
    chk.ob(R, "R1|Client::%s|type" % nm, f["ty"][0] == "agg" and f["ty"][2] == ty_variant, where(co, line=co.blocks[bb]["stmts"][i]["line"]), "type = %s (expected %s)" % (flow.term_str(f["ty"]), ty_variant))
    ch = f["challenge"]
    okc = is_call(ch, "encoding::base64url") and ch[2][0][0] == "field" and ch[2][0][2] == "challenge" and has(ch[2][0], lambda x: x == ("upvar", 2))
    chk.ob(R, "R1|Client::%s|challenge" % nm, okc, where(co, line=co.blocks[bb]["stmts"][i]["line"]), "challenge = %s" % flow.term_str(ch))
    client_data_impl_rule(chk, p, R)
    chk.ob(R, "R1|Client::%s|origin" % nm, f["origin"] == ("upvar", 1), where(co, line=co.blocks[bb]["stmts"][i]["line"]), "origin = %s (the caller's origin rendered with Display)" % flow.term_str(f["origin"]))
    origin_rendering_rule(chk, p, R)
    # hash + returned json
    calls = names.calls_to(co, target)
    if not chk.require(R, "R1|Client::%s|authenticator-call" % nm, len(calls) == 1, where(co), "expected one %s call" % target):
        return None
    cb, ct = calls[0]
    req = flow.simplify_term(T.operand(ct["args"][1], cb, "t"))
    h = dict(req[3]).get("client_data_hash") if req[0] == "agg" else None
    json_term = None
    okh = False
    wit = "client_data_hash = %s" % (flow.term_str(h)[:200] if h else "?")
    if h is not None:
        # normal form: a selection on the presence of the caller-supplied hash — that hash when present, otherwise the
        # SHA-256 of the serialised client data (`unwrap_or_else`, `match`, `if let` alike)
        _N = normal.Normalizer(p, summary.Summaries(p))
        hn = _N.norm(h)
        sel, subj = flow.presence_selection(hn, lambda x: is_call(x, "ClientData::client_data_hash"))
        if subj is not None and set(sel) == {True, False} and sel[True] == ("payload", subj):
            r = sel[False]
            sh = r if (is_call(r, "crypto::sha256") or is_call(r, "sha256")) else None
            if sh is None and isinstance(r, tuple):
                # the digest converted to a Vec (to_vec / into) is still the digest
                inner = r
                while isinstance(inner, tuple) and len(inner) == 4 and inner[0] == "call" and inner[2] and not (is_call(inner, "crypto::sha256") or is_call(inner, "sha256")) and any(names.is_(inner[1], s) for s in ("slice::to_vec", "Into::into", "From::from", "Vec::from", "array::as_slice", "ToOwned::to_owned")):
                    inner = inner[2][0]
                sh = inner if (is_call(inner, "crypto::sha256") or is_call(inner, "sha256")) else None
            if sh is not None:
                json_term = sh[2][0]
                okh = True
                wit = "hash = caller-supplied or %s" % flow.term_str(r)[:160]
    chk.ob(R, "R1|Client::%s|hash-of-json" % nm, okh, where(co, cb), wit)
    return T, f, req, json_term, cb


def base64url_rule(chk, p):
    b = [x for x in p.all_bodies if x.path == "passkey_types::utils::encoding::base64url"]
    if chk.require("R1 client data", "R1|encoding::base64url", len(b) == 1, "passkey_types::utils::encoding", "encoding::base64url not found"):
        b = b[0]
        chk.touched(b)
        enc = [t for bb, t in b.calls() if names.call_is(t, "Encoding::encode")]
        consts = set()
        for bb, s in b.stmts():
            if s["k"] == "assign":
                for o in [s["rv"].get("op")] + list(s["rv"].get("ops", [])):
                    if isinstance(o, dict) and o["k"] == "const":
                        consts.add((o.get("uneval") or o.get("s") or "").rsplit("::", 1)[-1])
        for pb in b.promoted:
            for bb, s in pb.stmts():
                if s["k"] == "assign":
                    o = s["rv"].get("op")
                    if isinstance(o, dict) and o["k"] == "const":
                        consts.add((o.get("uneval") or o.get("s") or "").rsplit("::", 1)[-1])
        for bb, t in b.calls():
            for a in t["args"]:
                if a["k"] == "const":
                    consts.add((a.get("uneval") or a.get("s") or "").rsplit("::", 1)[-1])
        alph = {c for c in consts if c.startswith("BASE64")}
        chk.ob("R1 client data", "R1|encoding::base64url|alphabet", len(enc) == 1 and alph == {"BASE64URL_NOPAD"}, where(b), "encodes with %s" % sorted(alph))


def run(chk):
    p = core.load_program("all")
    chk.configs = ["all-features"]
    chk.explanation = __doc__
    # shared clause (C07 R8): "the store grows by exactly the new credential" needs the shipped stores' save to write the
    # record it is given under that record's id and to touch nothing else
    from .framework import borrow
    borrow(chk, "C07", ["R8|"], "C02: a successful registration adds exactly the new credential to the store")
    N_reg = normal.Normalizer(p, summary.Summaries(p))
    reg = ceremony(p, "register", adt=CLIENT)
    mc = ceremony(p, "make_credential")
    if not chk.require("R1 client data", "R1|bodies", reg is not None and mc is not None, CLIENT, "Client::register / Authenticator::make_credential not found"):
        return
    chk.touched(reg)
    chk.touched(mc)
    r = client_data_rules(chk, p, reg, "register", "Create", "Authenticator::make_credential")
    base64url_rule(chk, p)
    if r is None:
        return
    T, f, req, json_term, call_bb = r
    # response aggregate
    ar = find_aggs(reg, "AuthenticatorAttestationResponse")
    pk = find_aggs(reg, "PublicKeyCredential")
    if not chk.require("R2 authData twice", "R2|response", len(ar) == 1 and len(pk) == 1, where(reg), "response aggregates not found"):
        return
    bb, i, rv = ar[0]
    a = {k: flow.simplify_term(T.operand(o, bb, i)) for k, o in zip(rv["fields"], rv["ops"])}
    bb2, i2, rv2 = pk[0]
    c = {k: flow.simplify_term(T.operand(o, bb2, i2)) for k, o in zip(rv2["fields"], rv2["ops"])}
    site = where(reg, line=reg.blocks[bb]["stmts"][i]["line"])
    cj = N_reg.norm(a["client_data_json"])
    chk.ob("R1 client data", "R1|Client::register|returned-json-is-hashed-json", json_term is not None and cj == N_reg.norm(json_term) and has(cj, lambda x: is_call(x, "serde_json::ser::to_string") or is_call(x, "to_string")), site,
           "returned clientDataJSON = %s ; hashed = %s" % (flow.term_str(cj)[:120], flow.term_str(json_term)[:120] if json_term else "?"))
    # R2
    tv = [(b3, t) for b3, t in reg.calls() if names.call_is(t, "AuthenticatorData::to_vec")]
    for b in p.nested_of(reg):
        if b is not reg:
            tv += [(b3, t) for b3, t in b.calls() if names.call_is(t, "AuthenticatorData::to_vec")]
    ad = a["authenticator_data"]
    resp_ad = ad[2][0] if is_call(ad, "AuthenticatorData::to_vec") else None
    okad = resp_ad is not None and resp_ad[0] == "field" and resp_ad[2] == "auth_data" and has(resp_ad, lambda x: is_call(x, "Authenticator::make_credential"))
    chk.ob("R2 authData twice", "R2|response.authenticator_data", okad, site, "authenticator_data = %s" % flow.term_str(ad)[:200])
    ao = a["attestation_object"]
    in_ao = [x for x in sub(ao) if is_call(x, "AuthenticatorData::to_vec")]
    # the cbor! macro may wrap the value in a closure: look at captured operands too
    same = any(x[2][0] == resp_ad for x in in_ao) if resp_ad is not None else False
    if not same and resp_ad is not None:
        # captured by reference: the closure body calls to_vec on its capture
        for x in sub(ao):
            if isinstance(x, tuple) and len(x) == 3 and x[0] == "closure" and x[1] in p.bodies:
                cb = p.bodies[x[1]]
                if any(names.call_is(t, "AuthenticatorData::to_vec") for b3, t in cb.calls()):
                    rt = closure_ret(p, x)
                    if rt is not None and any(is_call(y, "AuthenticatorData::to_vec") and y[2][0] == resp_ad for y in sub(rt)):
                        same = True
                    # fall back: the capture itself is the response's auth_data
                    if any(cv == resp_ad or (isinstance(cv, tuple) and has(cv, lambda z: z == resp_ad)) for cv in x[2]):
                        same = True
    # ... and it gets there as the same bytes: no in-place update, projection or alternative value on the way
    from .common import altered_uses
    alt = altered_uses(ao, [resp_ad, ("call", "passkey_types::ctap2::attestation_fmt::AuthenticatorData::to_vec", (resp_ad,), None)] if resp_ad is not None else [], extra_wrappers=("AuthenticatorData::to_vec",))
    chk.ob("R2 authData twice", "R2|attestation-object-authData-same-value", same and not alt, site, "attestation object embeds to_vec of the same auth_data value: %s%s" % (same, (" ; but it is altered on the way: %s" % flow.term_str(alt[0])[:200]) if alt else ""))
    consts = set()
    from .c01 import body_consts
    # (the view's own blocks — private helpers are inlined in it — and every closure constructed in them)
    for b in p.nested_of(reg):
        body_consts(b, consts)
    need = {"fmt", "none", "attStmt", "authData"}
    chk.ob("R2 authData twice", "R2|attestation-object-keys", need <= consts, site, "constants used to build the attestation object: %s" % sorted(x for x in consts if x in need or x in ("packed", "None", "fido-u2f")))
    # R3
    idt, raw = c["id"], c["raw_id"]
    cid = lambda x: is_call(x, "AttestedCredentialData::credential_id")
    i1, i2_ = find(idt, cid), find(raw, cid)
    ok3 = i1 is not None and i2_ is not None and flow.strip_sites(i1) == flow.strip_sites(i2_) and is_call(idt, "encoding::base64url") and has(i1, lambda x: x == resp_ad)
    ok3 = ok3 and not altered_uses(idt, [i1]) and not altered_uses(raw, [i1])
    chk.ob("R3 ids", "R3|Client::register|id-rawId-same", ok3, where(reg, line=reg.blocks[bb2]["stmts"][i2]["line"]), "id = %s ; rawId = %s" % (flow.term_str(idt)[:140], flow.term_str(raw)[:140]))
    # R4 (client side)
    pkd = a["public_key"]
    alg = a["public_key_algorithm"]
    der = find(pkd, lambda x: is_call(x, "public_key_der_from_cose_key"))
    key_src = der[2][0] if der else None
    ok4 = key_src is not None and key_src[0] == "field" and key_src[2] == "key" and has(key_src, lambda x: x == resp_ad)
    # every value the reported algorithm can take is read from the attested key's own `alg` (a selection on key.alg is not
    # enough: the selected values count)
    okalg = key_src is not None
    if okalg:
        is_resp = lambda x: isinstance(x, tuple) and len(x) == 4 and x[0] == "await" and names.is_(x[1], "Authenticator::make_credential")
        opaque = lambda t: summary.replace_where(t, is_resp, ("authenticator-response",))
        att_alg = lambda x: isinstance(x, tuple) and len(x) == 3 and x[0] == "field" and x[2] == "alg" and isinstance(x[1], tuple) and len(x[1]) == 3 and x[1][0] == "field" and x[1][2] == "key" \
            and has(x[1][1], lambda y: isinstance(y, tuple) and len(y) == 3 and y[0] == "field" and y[2] == "attested_credential_data") and has(x[1][1], lambda y: y == ("authenticator-response",))
        vals = [opaque(v) for cs, v in normal.cases_deep(N_reg.norm(alg))]
        dead = lambda v: v == ("never",) or has(v, lambda x: isinstance(x, tuple) and len(x) == 4 and x[0] == "call" and ("unreachable" in x[1] or "panic" in x[1]))
        live = [v for v in vals if not dead(v)]
        okalg = bool(live) and all(has(v, att_alg) for v in live) \
            and not any(has(v, lambda x: isinstance(x, tuple) and len(x) == 3 and x[0] == "field" and x[2] in ("pub_key_cred_params", "public_key") and has(x, lambda y: y == ("upvar", 2))) for v in live)
    chk.ob("R4 keys", "R4|Client::register|der-from-attested-key", bool(ok4), site, "publicKey = %s" % flow.term_str(pkd)[:200])
    chk.ob("R4 keys", "R4|Client::register|alg-from-attested-key", bool(okalg), site, "publicKeyAlgorithm = %s" % flow.term_str(alg)[:200])
    # R6 (client side): default algorithms
    pp = dict(req[3]).get("pub_key_cred_params") if req[0] == "agg" else None
    # the list sent is selected by an emptiness test of the request's list: empty -> the WebAuthn defaults, non-empty -> the list
    is_req_list = lambda x: isinstance(x, tuple) and len(x) == 3 and x[0] == "field" and x[2] == "pub_key_cred_params"
    ok6 = False
    if pp is not None and pp[0] == "gamma":
        sel = {}
        for l, v in pp[2]:
            e = flow.emptiness_test(pp[1], l)
            if e is not None and is_req_list(e[0]):
                sel[e[1]] = v
        ok6 = set(sel) == {True, False} and is_call(sel[True], "PublicKeyCredentialParameters::default_algorithms") and is_req_list(sel[False])
    chk.ob("R6 algorithm", "R6|Client::register|defaults-iff-empty", bool(ok6), where(reg, call_bb),
           "pubKeyCredParams sent = %s ; the defaults are chosen exactly when the request list is empty: %s" % (flow.term_str(pp)[:200] if pp else "?", ok6))

    # ---------------- authenticator side
    Tm = flow.Terms(p, mc)
    from .common import saved_passkey
    pf, pb = saved_passkey(p, mc, Tm, N_reg)   # the record as it is stored (one literal or member assignments alike)
    acd = names.calls_to(mc, "AttestedCredentialData::new")
    adn = names.calls_to(mc, "AuthenticatorData::new")
    if not chk.require("R3 ids", "R3|make_credential|sites", pf is not None and len(acd) == 1 and len(adn) == 1, where(mc), "saved Passkey record / AttestedCredentialData::new / AuthenticatorData::new sites not found"):
        return
    ab, at = acd[0]
    aargs = [N_reg.norm(Tm.operand(x, ab, "t")) for x in at["args"]]
    rv_ok = is_call(pf["credential_id"], "random_vec") and pf["credential_id"] == aargs[1] and pf["credential_id"][2][0] == ("field", ("upvar", 0), "credential_id_length")
    chk.ob("R3 ids", "R3|make_credential|one-random-id", rv_ok, where(mc, ab), "stored id = %s ; attested id = %s" % (flow.term_str(pf["credential_id"]), flow.term_str(aargs[1])))
    # R4
    kp_pub, kp_priv = aargs[2], pf["key"]
    ok = kp_pub[0] == "field" and kp_pub[2] == "public" and kp_priv[0] == "field" and kp_priv[2] == "private" and kp_pub[1] == kp_priv[1] and is_call(kp_pub[1], "CoseKeyPair::from_secret_key")
    chk.ob("R4 keys", "R4|make_credential|public-attested-private-stored", ok, where(mc, ab), "attested key = %s ; stored key = %s" % (flow.term_str(kp_pub)[:120], flow.term_str(kp_priv)[:120]))
    fsk = p.method("passkey_authenticator::CoseKeyPair", "from_secret_key")
    if chk.require("R4 keys", "R4|from_secret_key", fsk, "passkey_authenticator::CoseKeyPair", "CoseKeyPair::from_secret_key not found"):
        chk.touched(fsk)
        Tk = flow.Terms(p, fsk)
        rt = flow.simplify_term(Tk.place(0, (), fsk.return_blocks()[0], "t"))
        d = dict(rt[3]) if rt[0] == "agg" else {}
        pub, priv = d.get("public"), d.get("private")
        scalar = lambda x: is_call(x, "SecretKey::to_bytes") or (isinstance(x, tuple) and len(x) == 4 and x[0] == "call" and x[1].endswith("to_bytes") and x[2] and x[2][0] == ("param", 1))
        ok = pub is not None and priv is not None and find(pub, lambda x: is_call(x, "CoseKeyBuilder::new_ec2_pub_key")) is not None and not has(pub, scalar) \
            and find(priv, lambda x: is_call(x, "CoseKeyBuilder::new_ec2_priv_key")) is not None and has(priv, scalar)
        chk.ob("R4 keys", "R4|from_secret_key|public-has-no-scalar", bool(ok), where(fsk), "public = %s" % (flow.term_str(pub)[:200] if pub else "?"))
        pe = find(priv, lambda x: is_call(x, "CoseKeyBuilder::new_ec2_priv_key")) if priv else None
        ok = pe is not None and len(pe[2]) == 4 and has(pe[2][3], scalar) and not any(has(pe[2][k], scalar) for k in (1, 2))
        chk.ob("R4 keys", "R4|from_secret_key|scalar-only-in-d", bool(ok), where(fsk), "new_ec2_priv_key args = %s" % ([flow.term_str(x)[:60] for x in pe[2]] if pe else "?"))
    # R5
    nb, nt = adn[0]
    a0 = flow.simplify_term(Tm.operand(nt["args"][0], nb, "t"))
    chk.ob("R5 rpIdHash", "R5|make_credential|rp-id-into-authdata", a0 == ("field", ("field", ("upvar", 1), "rp"), "id") and pf["rp_id"] == a0, where(mc, nb),
           "AuthenticatorData::new(rp_id = %s) ; Passkey.rp_id = %s" % (flow.term_str(a0), flow.term_str(pf["rp_id"])))
    adnew = p.method("passkey_types::ctap2::attestation_fmt::AuthenticatorData", "new")
    if chk.require("R5 rpIdHash", "R5|AuthenticatorData::new", adnew, "AuthenticatorData", "AuthenticatorData::new not found"):
        chk.touched(adnew)
        Tn = flow.Terms(p, adnew)
        ag = find_aggs(adnew, "AuthenticatorData")
        if ag:
            b3, i3, r3 = ag[0]
            h = flow.simplify_term(Tn.operand(r3["ops"][r3["fields"].index("rp_id_hash")], b3, i3))
            chk.ob("R5 rpIdHash", "R5|AuthenticatorData::new|sha256-of-rp-id", (is_call(h, "crypto::sha256") or is_call(h, "sha256")) and h[2][0] == ("param", 1), where(adnew), "rp_id_hash = %s" % flow.term_str(h))
    # R6 choose_algorithm
    ca = p.method(AUTH, "choose_algorithm")
    if chk.require("R6 algorithm", "R6|choose_algorithm", ca, AUTH, "choose_algorithm not found"):
        chk.touched(ca)
        # the decision table in normal form: Ok(the first element of the request list that the predicate accepts).alg / Err
        S = summary.Summaries(p)
        N = normal.Normalizer(p, S)
        rws = normal.rows(S, ca, N)
        # "the element": found by Iterator::find over the request list, or yielded by next() of a loop over it
        projected = [False]

        def list_iter(x):
            x = flow.iterator_source(x)
            while isinstance(x, tuple) and len(x) == 4 and x[0] == "call" and x[2]:
                if names.is_(x[1], "IntoIterator::into_iter") or x[1].endswith("::iter") or names.is_(x[1], "Iterator::copied") or names.is_(x[1], "Iterator::cloned"):
                    x = x[2][0]
                elif names.is_(x[1], "Iterator::map") and len(x[2]) == 2 and closure_ret(p, x[2][1]) == ("field", ("param", 2), "alg"):
                    # the list is first projected to its algorithm identifiers: the element *is* the alg
                    projected[0] = True
                    x = x[2][0]
                else:
                    break
            return x == ("param", 2)
        is_find = lambda x: (is_call(x, "Iterator::find") or is_call(x, "slice::Iter::find")) and list_iter(x[2][0])
        is_next = lambda x: is_call(x, "Iterator::next") and list_iter(x[2][0])
        is_elem = lambda x: is_find(x) or is_next(x)
        bad = [core.callee_of(t) for b in p.nested_of(ca) for bb3, t in b.calls() if names.call_is(t, *REV)]
        oks = [o for o in rws if o.variant[:1] == ("Ok",)]
        errs = [o for o in rws if o.variant[:1] == ("Err",)]

        def membership(t, elem):
            """t tests `elem.alg ∈ self.algs`: contains(algs, alg) or any(algs, |s| s == alg)"""
            has_algs = lambda y: has(y, lambda z: isinstance(z, tuple) and len(z) == 3 and z[0] == "field" and z[2] == "algs")
            alg = (("payload", elem) if projected[0] else ("field", ("payload", elem), "alg")) if elem is not None else None
            is_alg = (lambda y: y == alg) if alg is not None else (lambda y: y == ("param", 2) if projected[0] else (isinstance(y, tuple) and len(y) == 3 and y[0] == "field" and y[2] == "alg"))
            for x in sub(t):
                if (is_call(x, "slice::contains") or is_call(x, "Vec::contains")) and has_algs(x[2][0]) and has(x[2][1], is_alg):
                    return True
                if is_call(x, "Iterator::any") and has_algs(x[2][0]) and isinstance(x[2][1], tuple) and x[2][1][0] == "closure":
                    r = closure_ret(p, x[2][1])
                    e = flow.eq_test(r, ("notin", "0")) if r is not None else None
                    if e is not None and e[1] is True and any(y == ("param", 2) for y in e[0]) and any(has(y, is_alg) for y in e[0]):
                        return True
            return False
        pred_ok = sel_ok = err_ok = False
        fnd = None
        for o in oks:
            for t, l, f, w in o.conds:
                if flow.asserts_ok(t, l, is_elem):
                    fnd = [x for x in flow._subjects(flow.presence_test(t, l)[0], False) if is_elem(x)][0]
        if fnd is not None:
            if is_find(fnd):
                pr = closure_ret(p, fnd[2][1])
                pr = N.inline(pr) if pr is not None else None
                pred_ok = pr is not None and membership(pr, None)
            else:
                # loop form: the Ok row is taken on the true edge of the membership test of the yielded element
                pred_ok = all(any(membership(N.inline(t), fnd) and flow.bool_atom(t, l)[1] is True for t, l, f, w in o.conds) for o in oks)
            sel_ok = all(dict(o.value[3]).get("0") == (("payload", fnd) if projected[0] else ("field", ("payload", fnd), "alg")) and any(flow.asserts_ok(t, l, lambda x: x == fnd) for t, l, f, w in o.conds) for o in oks)
            err_ok = bool(errs) and all(has(o.value, lambda x: isinstance(x, tuple) and len(x) == 4 and x[0] == "agg" and x[2] == "UnsupportedAlgorithm") and any(flow.asserts_fail(t, l, is_elem) for t, l, f, w in o.conds) for o in errs)
        chk.ob("R6 algorithm", "R6|choose_algorithm|forward-first-match", fnd is not None and not bad and pred_ok and sel_ok and err_ok, where(ca),
               "table: %s ; reversing adaptors: %s ; predicate = membership in self.algs: %s ; Ok = found.alg: %s ; Err(UnsupportedAlgorithm) iff nothing found: %s"
               % (["%s <= %s" % (flow.term_str(o.value)[:60], o.cond_strs()) for o in rws][:3], bad or "none", pred_ok, sel_ok, err_ok))
    alg_arg = find(kp_pub, lambda x: is_call(x, "Authenticator::choose_algorithm"))
    chk.ob("R6 algorithm", "R6|make_credential|chosen-algorithm-used", alg_arg is not None and alg_arg[2][1] == ("field", ("upvar", 1), "pub_key_cred_params"), where(mc, ab),
           "key pair algorithm = %s" % (flow.term_str(alg_arg) if alg_arg else "?"))
    # error precedes creation
    gen = [bb3 for bb3, t in mc.calls() if names.call_is(t, "SecretKey::random", "CredentialStore::save_credential", "random_vec")]
    ok, edges = flow.cut_by_success(p, mc, lambda x: is_call(x, "Authenticator::choose_algorithm"), gen, Tm)
    chk.ob("R6 algorithm", "R6|make_credential|unsupported-fails-before-creation", ok, where(mc, edges[0][0]) if edges else where(mc), "key/id generation and save are cut by the success edge of the test on choose_algorithm's result: %s" % ok)
    # R7
    saves = names.calls_to(mc, "CredentialStore::save_credential")
    in_cycle = bool(saves) and saves[0][0] in mc.reachable(mc.succs(saves[0][0]), follow_yield_drop=False)
    chk.ob("R7 one credential", "R7|make_credential|one-save-of-that-passkey", len(saves) == 1 and not in_cycle and pf is not None and "credential_id" in pf, where(mc, saves[0][0]) if saves else where(mc),
           "save_credential sites: %d, inside a cycle: %s, saved value is the constructed Passkey" % (len(saves), in_cycle))
    # R8
    CIL = "passkey_authenticator::authenticator::CredentialIdLength"
    a8 = p.adts.get(CIL)
    if chk.require("R8 id length", "R8|CredentialIdLength", a8, CIL, "CredentialIdLength not found"):
        chk.ob("R8 id length", "R8|field-private", not a8["variants"][0]["fields"][0]["pub"], CIL, "tuple field visibility: %s" % a8["variants"][0]["fields"][0]["vis"])
        # the type's own bounds: its associated constants named MIN / MAX — or, if they go by other names, the smallest and
        # the largest of its associated constants (there is a default in between)
        mn, mx = p.const_bits(CIL + "::MIN"), p.const_bits(CIL + "::MAX")
        if mn is None or mx is None:
            pre = p.adts.resolve(CIL) + "::"
            vals = sorted(int(k["bits"]) for path_, k in p.consts.items() if path_.startswith(pre) and k.get("bits") is not None and str(k.get("ty")) == "u8")
            if len(vals) >= 2:
                mn, mx = vals[0], vals[-1]
        chk.ob("R8 id length", "R8|bounds", (mn, mx) == (16, 64), CIL, "MIN=%s MAX=%s" % (mn, mx))
        fr = p.method(CIL, "from", trait="core::convert::From")
        if fr is not None:
            chk.touched(fr)
            # whatever the spelling (min/max, an if-chain, clamp): every value that is wrapped lies in [MIN, MAX] — read from
            # the interval analysis at each construction site — and the argument itself is among them
            from . import intervals as _iv
            ivf = _iv.Intervals(p, fr)
            Tf8 = flow.Terms(p, fr)
            sites8 = find_aggs(fr, "CredentialIdLength")
            rng, uses_arg = [], False
            for b8, i8, rv8 in sites8:
                st8 = ivf.at(b8, i8)
                r8 = ivf.iv_operand(st8, rv8["ops"][0]) if st8 is not None else None
                rng.append(r8)
                uses_arg = uses_arg or flow.term_contains(flow.simplify_term(Tf8.operand(rv8["ops"][0], b8, i8)), lambda x: x == ("param", 1))
            ok = bool(sites8) and mn is not None and mx is not None and all(r8 is not None and r8.lo >= mn and r8.hi <= mx for r8 in rng) and uses_arg
            chk.ob("R8 id length", "R8|From<u8>-clamps", bool(ok), where(fr), "wrapped values lie in %s (bounds [%s, %s]); the argument is one of them: %s" % ([str(r8) for r8 in rng], mn, mx, uses_arg))
        rz = p.method(CIL, "randomized")
        if rz is not None:
            chk.touched(rz)
            rt = flow.simplify_term(flow.Terms(p, rz).place(0, (), rz.return_blocks()[0], "t"))
            v = dict(rt[3]).get("0") if rt[0] == "agg" else None
            rng = find(v, lambda x: is_call(x, "RangeInclusive::new")) if v else None
            ok = v is not None and is_call(v, "Rng::gen_range") and rng is not None and rng[2] == (("const", mn), ("const", mx))
            chk.ob("R8 id length", "R8|randomized-in-range", bool(ok), where(rz), "randomized = %s" % flow.term_str(rt))
        ctors = sorted({api_name(b) for b in p.all_bodies if b.crate == "passkey_authenticator" and find_aggs(b, "CredentialIdLength") and "clone" not in b.path.lower()})
        chk.ob("R8 id length", "R8|constructors", set(ctors) <= {"CredentialIdLength as From::from", "CredentialIdLength::randomized", "CredentialIdLength::DEFAULT"}, CIL, "constructed in: %s" % ctors)
    chk.floor("R1", 6)
    chk.floor("R2", 3)
    chk.floor("R3", 2)
    chk.floor("R4", 5)
    chk.floor("R5", 2)
    chk.floor("R6", 4)
    chk.floor("R7", 1)
    chk.floor("R8", 5)
    chk.assumptions = ["sha256, serde_json, ciborium, coset, p256 compute what their names say", "the store persists the Passkey it is given (C05/C07)"]
