"""Normal form of value terms: Option/Result/bool combinators are rewritten into the explicit selection they denote.

`x.ok_or(e)`, `x.map(f)`, `x.and_then(f)`, `b.then_some(v)`, `x.unwrap_or(d)`, `x.filter(f)` ... and the `match` / `if let` /
`if .. else` forms of the same computation (which the MIR value numbering renders as gated phis, flow.Terms._gamma) all
become

    ("gamma", <test term>, ((edge label, value), ...))      with explicit Some/None/Ok/Err aggregates and
    ("payload", x)                                          for the content of a present value,

closures applied to their argument (beta reduction through flow.Terms of the closure body).  `cases()` then flattens
the selections that sit at the root (or in aggregate fields) into rows (conditions, value): the same table whichever
idiom the source uses.  Nothing of the analysed repository is executed: this is term rewriting over the MIR facts.
"""
import re

from . import flow, names, summary

OPT = "core::option::Option"
RES = "core::result::Result"
NONE = ("agg", OPT, "None", ())
L0 = ("in", "0")
L1 = ("in", "1")


def some(x):
    return ("agg", OPT, "Some", (("0", x),))


def ok(x):
    return ("agg", RES, "Ok", (("0", x),))


def err(x):
    return ("agg", RES, "Err", (("0", x),))


def is_callee(t, *pats):
    return isinstance(t, tuple) and len(t) == 4 and t[0] == "call" and isinstance(t[1], str) and any(names.is_(t[1], p) for p in pats)


def _agg_variant(x):
    if isinstance(x, tuple) and len(x) == 4 and x[0] == "agg" and x[1] in (OPT, RES):
        return x[2], dict(x[3]).get("0")
    return None, None


def opt_case(x, some_fn, none_val):
    """value of `match x { Some(p) => some_fn(p), None => none_val }` with the selection pushed to the outside"""
    v, pl = _agg_variant(x)
    if v == "Some":
        return some_fn(pl)
    if v == "None":
        return none_val
    if isinstance(x, tuple) and x and x[0] == "gamma":
        return ("gamma", x[1], tuple((l, opt_case(b, some_fn, none_val)) for l, b in x[2]))
    return ("gamma", ("discr", x, "Option"), ((L0, none_val), (L1, some_fn(("payload", x)))))


def res_case(x, ok_fn, err_fn):
    v, pl = _agg_variant(x)
    if v == "Ok":
        return ok_fn(pl)
    if v == "Err":
        return err_fn(pl)
    if isinstance(x, tuple) and x and x[0] == "gamma":
        return ("gamma", x[1], tuple((l, res_case(b, ok_fn, err_fn)) for l, b in x[2]))
    return ("gamma", ("discr", x, "Result"), ((L0, ok_fn(("payload", x))), (L1, err_fn(("errpayload", x)))))


def bool_case(b, true_val, false_val):
    if b == ("const", 1):
        return true_val
    if b == ("const", 0):
        return false_val
    return ("gamma", b, ((L0, false_val), (("notin", "0"), true_val)))


def _not(x):
    """boolean negation pushed through selections and folded on constants"""
    if x == ("const", 0):
        return ("const", 1)
    if x == ("const", 1):
        return ("const", 0)
    if isinstance(x, tuple) and x and x[0] == "gamma":
        return ("gamma", x[1], tuple((l, _not(v)) for l, v in x[2]))
    if isinstance(x, tuple) and len(x) == 3 and x[0] == "unop" and x[1] == "Not":
        return x[2]
    return ("unop", "Not", x)


def _eq_fold(callee, x, y, negate, depth=0):
    """x == y (or !=) where a side is a selection or both are known Option/Result variants; None = leave as is"""
    if depth > 6:
        return None
    for a, b, swap in ((x, y, False), (y, x, True)):
        if isinstance(a, tuple) and a and a[0] == "gamma":
            brs = []
            for l, v in a[2]:
                r = _eq_fold(callee, v if not swap else b, b if not swap else v, negate, depth + 1)
                if r is None:
                    r = ("call", callee, (v, b) if not swap else (b, v), None)
                brs.append((l, r))
            return ("gamma", a[1], tuple(brs))
    vx, px = _agg_variant(x)
    vy, py = _agg_variant(y)
    if vx is not None and vy is not None:
        if vx != vy:
            return ("const", 1 if negate else 0)
        if px is None and py is None:
            return ("const", 0 if negate else 1)
        if px is not None and py is not None:
            return ("call", callee, (px, py), None)
    return None


def _fold_int_binop(op, a, b):
    """comparison / bit operation on two integer constants"""
    if not (isinstance(a, tuple) and len(a) == 2 and a[0] == "const" and isinstance(a[1], int) and not isinstance(a[1], bool)
            and isinstance(b, tuple) and len(b) == 2 and b[0] == "const" and isinstance(b[1], int) and not isinstance(b[1], bool)):
        return None
    x, y = a[1], b[1]
    cmpf = {"Lt": x < y, "Le": x <= y, "Gt": x > y, "Ge": x >= y, "Eq": x == y, "Ne": x != y}
    if op in cmpf:
        return ("const", 1 if cmpf[op] else 0)
    if op == "BitAnd":
        return ("const", x & y)
    if op == "BitOr":
        return ("const", x | y)
    if op == "BitXor":
        return ("const", x ^ y)
    return None


class Normalizer:
    def __init__(self, program, summaries=None, max_depth=6):
        self.p = program
        self.S = summaries
        self.max_depth = max_depth
        self.memo = {}

    # ---- closures / function values
    def apply(self, f, args, depth):
        """value of calling the function value `f` on argument terms"""
        p = self.p
        if isinstance(f, tuple) and len(f) == 3 and f[0] == "closure" and f[1] in p.bodies and depth < self.max_depth:
            cb = p.bodies[f[1]]
            rets = cb.return_blocks()
            if len(rets) == 1 and not cb.is_coroutine:
                v = flow.simplify_term(flow.Terms(p, cb).place(0, (), rets[0], "t"))
                v = self._bind_closure(v, f[2], args)
                return self.norm(v, depth + 1)
        if isinstance(f, tuple) and len(f) == 2 and f[0] == "const" and isinstance(f[1], str):
            # a tuple-variant / tuple-struct constructor used as a function: Adt::Variant(args) is the aggregate itself
            path = names.strip_generics(f[1])
            if "::" in path:
                adt_path, variant = path.rsplit("::", 1)
                a = p.adts.get(adt_path)
                if a is not None and any(v["name"] == variant for v in a.get("variants", [])):
                    return ("agg", adt_path, variant, tuple((str(i), x) for i, x in enumerate(args)))
                if adt_path in ("core::option::Option", "core::result::Result") and variant in ("Some", "Ok", "Err"):
                    return ("agg", adt_path, variant, tuple((str(i), x) for i, x in enumerate(args)))
            return ("call", f[1], tuple(args), None)
        return ("call", "apply", (f,) + tuple(args), None)

    def _bind_closure(self, v, captures, args):
        # captures: field(param 1, "i") ; arguments: param 2, 3, ...
        def sub(t):
            if isinstance(t, frozenset):
                return frozenset(sub(x) for x in t)
            if not isinstance(t, tuple) or not t:
                return t
            if t[0] == "field" and t[1] == ("param", 1) and isinstance(t[2], str) and t[2].isdigit() and int(t[2]) < len(captures):
                return captures[int(t[2])]
            if t[0] == "param" and len(t) == 2 and isinstance(t[1], int) and t[1] >= 2 and t[1] - 2 < len(args):
                return args[t[1] - 2]
            return tuple(sub(x) if isinstance(x, (tuple, frozenset)) else x for x in t)
        return flow.simplify_term(sub(v))

    def inline(self, t, depth=0):
        """look through workspace helpers: a call whose callee's table has a single unconditional row is replaced by
        that row's value (arguments substituted), recursively; then normalised"""
        if self.S is None or depth > 5:
            return self.norm(t)
        t = self.norm(t)
        skip = set()
        for _ in range(60):
            todo = None
            for c in summary.find_calls(t, self.p):
                if c[0] != "call" or c in skip:
                    continue
                cb = self.S.callee_body(c)
                outs = self.S.outcomes(cb) if cb is not None else []
                if len(outs) == 1 and not outs[0].conds:
                    todo = (c, outs[0])
                    break
                # a helper that only selects on one test of its arguments (`match opt { Some(x) => f(x), None => g }`):
                # the selection itself, with the arguments substituted
                if len(outs) > 1 and all(len(o.conds) == 1 for o in outs) and len({o.conds[0][0] for o in outs}) == 1 and len({o.conds[0][1] for o in outs}) == len(outs):
                    todo = (c, outs)
                    break
                skip.add(c)
            if todo is None:
                break
            c, o = todo
            if isinstance(o, list):
                test = flow.simplify_term(summary.subst(o[0].conds[0][0], c[2], None))
                v = ("gamma", test, tuple((x.conds[0][1], flow.simplify_term(summary.subst(x.value, c[2], None))) for x in o))
            else:
                v = flow.simplify_term(summary.subst(o.value, c[2], None))
            t = self.norm(summary.replace(t, c, self.inline(v, depth + 1)))
        return t

    # ---- the rewriting
    def norm(self, t, depth=0):
        if not isinstance(t, (tuple, frozenset)) or not t:
            return t
        key = t
        if key in self.memo:
            return self.memo[key]
        if depth == 0 and isinstance(t, tuple):
            t = flow.simplify_term(t)
        r = self._norm(t, depth)
        self.memo[key] = r
        return r

    def _norm(self, t, depth):
        if isinstance(t, frozenset):
            return frozenset(self.norm(x, depth) for x in t)
        k = t[0]
        if k == "const" and isinstance(t[1], str) and self.p is not None:
            # a named constant whose value is an aggregate (a table of ranges, an array of tuples): its initialiser's value
            cb = self.p.bodies.get(t[1])
            if cb is not None and "Const" in str(cb.def_kind) and cb.return_blocks() and depth < 4:
                v = self.norm(flow.Terms(self.p, cb).place(0, (), cb.return_blocks()[0], "t"), depth + 1)
                if isinstance(v, tuple) and v and v[0] in ("array", "agg"):
                    return v
            return t
        if k in ("const", "param", "upvar", "sym", "in", "opaque", "undef"):
            return t
        if k == "closure":
            return ("closure", t[1], tuple(self.norm(x, depth) for x in t[2]))
        if k == "agg":
            return ("agg", t[1], t[2], tuple((f, self.norm(v, depth)) for f, v in t[3]))
        if k == "gamma":
            return flow.simplify_term(("gamma", self.norm(t[1], depth), tuple((l, self.norm(v, depth)) for l, v in t[2])))
        if k == "phi":
            return flow.simplify_term(("phi", frozenset(self.norm(x, depth) for x in t[1])))
        if k == "field":
            return flow.simplify_term(("field", self.norm(t[1], depth), t[2]))
        if k in ("payload", "errpayload"):
            return self._payload(k, self.norm(t[1], depth))
        if k == "try":
            return self.norm(t[1], depth)  # `x?` continues with x's payload; the test is on x itself
        if k == "discr":
            if isinstance(t[1], tuple) and t[1] and t[1][0] == "try":
                # `x?`: the switch is on Try::branch(x); Continue (0) <=> x is Some/Ok
                return ("discr", self.norm(t[1][1], depth), "try")
            return ("discr", self.norm(t[1], depth)) + t[2:]
        if k == "unop" and t[1] == "Not":
            x = self.norm(t[2], depth)
            if isinstance(x, tuple) and len(x) == 4 and x[0] == "call" and names.is_(x[1], "Flags::is_empty") and len(x[2]) == 1:
                y = x[2][0]
                if isinstance(y, tuple) and len(y) == 4 and y[0] == "call" and (names.is_(y[1], "Flags::bitand") or names.is_(y[1], "BitAnd::bitand") or names.is_(y[1], "Flags::intersection")) and len(y[2]) == 2:
                    for f_, c_ in ((y[2][0], y[2][1]), (y[2][1], y[2][0])):
                        if self._single_bit_const(c_):
                            return ("call", x[1].replace("::is_empty", "::contains"), (f_, c_), 0)
            return flow.simplify_term(_not(x))
        if k in ("unop", "cast"):
            return t[:-1] + (self.norm(t[-1], depth),)
        if k == "binop":
            a_, b_ = self.norm(t[2], depth), self.norm(t[3], depth)
            f_ = _fold_int_binop(t[1], a_, b_)
            return f_ if f_ is not None else ("binop", t[1], a_, b_)
        if k == "with":
            return ("with", self.norm(t[1], depth), frozenset((pth, self.norm(v, depth)) for pth, v in t[2]))
        if k == "upd":
            return ("upd", t[1], self.norm(t[2], depth), tuple(self.norm(a, depth) for a in t[3]))
        if k in ("call", "await") and len(t) == 4:
            args = tuple(self.norm(a, depth) for a in t[2])
            if k == "call":
                r = self._combinator(t[1], args, depth)
                if r is not None:
                    return flow.simplify_term(r)
            return (k, t[1], args, t[3])
        return tuple(self.norm(x, depth) if isinstance(x, (tuple, frozenset)) else x for x in t)

    def _payload(self, k, x):
        v, pl = _agg_variant(x)
        if k == "payload" and v in ("Some", "Ok"):
            return pl
        if k == "errpayload" and v == "Err":
            return pl
        if isinstance(x, tuple) and x and x[0] == "gamma":
            return flow.simplify_term(("gamma", x[1], tuple((l, self._payload(k, b)) for l, b in x[2])))
        if v is not None:
            return ("never",)
        return (k, x)

    def _single_bit_const(self, c):
        """is the constant term a flag constant / literal with exactly one bit set?"""
        if not (isinstance(c, tuple) and len(c) == 2 and c[0] == "const"):
            return False
        v = c[1]
        if isinstance(v, str):
            k = self.p.consts.get(v) if self.p is not None else None
            try:
                v = int(k["bits"]) if k and k.get("bits") is not None else None
            except (TypeError, ValueError):
                v = None
        return isinstance(v, int) and not isinstance(v, bool) and v > 0 and v & (v - 1) == 0

    def _array_items(self, src, depth):
        """[("val", element) | ("opt", optional element)] when `src` iterates an array literal, possibly through
        map / filter / filter_map stages; None otherwise"""
        is_ = lambda t, *ps: isinstance(t, tuple) and len(t) == 4 and t[0] == "call" and any(names.is_(t[1], p) for p in ps)
        stages = []
        x = src
        for _ in range(8):
            if is_(x, "slice::iter", "IntoIterator::into_iter", "Iterator::copied", "Iterator::cloned", "array::iter", "Deref::deref", "array::as_slice", "Iterator::by_ref") and x[2]:
                x = x[2][0]
            elif is_(x, "Iterator::map", "Iterator::filter_map", "Iterator::filter") and len(x[2]) == 2:
                stages.append((x[1], x[2][1]))
                x = x[2][0]
            else:
                break
        if not (isinstance(x, tuple) and len(x) == 2 and x[0] == "array" and 0 < len(x[1]) <= 32):
            return None
        items = [("val", e) for e in x[1]]
        for callee, f in reversed(stages):
            out = []
            for k, e in items:
                if k != "val":
                    return None  # a stage after an optional element: keep it simple
                if names.is_(callee, "Iterator::map"):
                    out.append(("val", self.norm(self.apply(f, (e,), depth), depth + 1)))
                elif names.is_(callee, "Iterator::filter_map"):
                    out.append(("opt", self.norm(self.apply(f, (e,), depth), depth + 1)))
                else:
                    c = self.norm(self.apply(f, (e,), depth), depth + 1)
                    out.append(("opt", bool_case(c, some(e), NONE)))
            items = out
        return items

    def _combinator(self, callee, a, depth):
        is_ = lambda *ps: any(names.is_(callee, p) for p in ps)
        ap = lambda f, *xs: self.apply(f, xs, depth)
        n = len(a)
        if n == 0:
            return None
        x = a[0]
        # ---- operator traits on primitives (`&a & b` on references goes through the trait impl): the operator itself
        _OPS = {"core::ops::bit::BitAnd::bitand": "BitAnd", "core::ops::bit::BitOr::bitor": "BitOr", "core::ops::bit::BitXor::bitxor": "BitXor",
                "core::ops::arith::Add::add": "Add", "core::ops::arith::Sub::sub": "Sub", "core::ops::arith::Mul::mul": "Mul",
                "core::ops::bit::Shl::shl": "Shl", "core::ops::bit::Shr::shr": "Shr"}
        if callee in _OPS and n == 2 and _OPS[callee] in ("BitAnd", "BitOr", "BitXor"):
            return ("binop", _OPS[callee], a[0], a[1])
        if callee == "core::ops::bit::Not::not" and n == 1:
            return ("unop", "Not", a[0])
        # ---- an Option used as a zero-or-one element stream: `o.iter().flat_map(f)` is `o.map(f).into_iter().flatten()`
        if is_("Iterator::flat_map") and n == 2:
            return self.norm(("call", "core::iter::traits::iterator::Iterator::flatten", (("call", "core::iter::traits::iterator::Iterator::map", (a[0], a[1]), 0),), 0), depth + 1)
        if is_("Iterator::map") and n == 2:
            src_ = x
            while isinstance(src_, tuple) and len(src_) == 4 and src_[0] == "call" and src_[2] and any(names.is_(src_[1], q) for q in ("Iterator::cloned", "Iterator::copied")):
                src_ = src_[2][0]
            if isinstance(src_, tuple) and len(src_) == 4 and src_[0] == "call" and len(src_[2]) == 1 and any(names.is_(src_[1], q) for q in ("Option::iter", "Option::into_iter", "Option::iter_mut")):
                o_ = src_[2][0]
                return ("call", "core::iter::traits::collect::IntoIterator::into_iter", (opt_case(o_, lambda pl: some(ap(a[1], pl)), NONE),), 0)
        # ---- range membership on constants: `(a..=b).contains(&k)`
        if n == 2 and callee.endswith("::contains") and "::range::" in callee:
            r_, k_ = a[0], a[1]
            lo_ = hi_ = None
            # a named constant range (`const R: RangeInclusive<u8> = a..=b; R.contains(&k)`): read the constant's
            # initialiser body — the range it builds is the range tested
            if isinstance(r_, tuple) and len(r_) == 2 and r_[0] == "const" and isinstance(r_[1], str) and r_[1] in self.p.bodies and depth < self.max_depth:
                cb_ = self.p.bodies[r_[1]]
                rb_ = cb_.return_blocks()
                if len(rb_) == 1:
                    r_ = self.norm(flow.simplify_term(flow.Terms(self.p, cb_).place(0, (), rb_[0], "t")), depth + 1)
            ci = lambda z: z[1] if isinstance(z, tuple) and len(z) == 2 and z[0] == "const" and isinstance(z[1], int) else None
            if isinstance(r_, tuple) and len(r_) == 4 and r_[0] == "call" and r_[1].endswith("RangeInclusive::<Idx>::new") and len(r_[2]) == 2:
                lo_, hi_ = ci(r_[2][0]), ci(r_[2][1])
            elif isinstance(r_, tuple) and len(r_) == 4 and r_[0] == "agg":
                d_ = dict(r_[3])
                kind_ = str(r_[1]).rsplit("::", 1)[-1]
                if kind_ == "RangeInclusive":
                    lo_, hi_ = ci(d_.get("start")), ci(d_.get("end"))
                elif kind_ == "Range" and ci(d_.get("end")) is not None:
                    lo_, hi_ = ci(d_.get("start")), ci(d_.get("end")) - 1
                elif kind_ == "RangeFrom":
                    lo_, hi_ = ci(d_.get("start")), 1 << 70
                elif kind_ == "RangeToInclusive":
                    lo_, hi_ = 0, ci(d_.get("end"))
                elif kind_ == "RangeTo" and ci(d_.get("end")) is not None:
                    lo_, hi_ = 0, ci(d_.get("end")) - 1
            if lo_ is not None and hi_ is not None and ci(k_) is not None:
                return ("const", 1 if lo_ <= ci(k_) <= hi_ else 0)
        # ---- iteration over an array literal: a constant table walked by all/any/fold is the unrolled expression
        if is_("Iterator::all", "Iterator::any") and n == 2:
            items = self._array_items(x, depth)
            if items is not None and all(k == "val" for k, v in items):
                res = ("const", 1 if is_("Iterator::all") else 0)
                for k, e in reversed(items):
                    c = self.norm(ap(a[1], e), depth + 1)
                    res = bool_case(c, res, ("const", 0)) if is_("Iterator::all") else bool_case(c, ("const", 1), res)
                return res
        if is_("Iterator::fold") and n == 3:
            items = self._array_items(x, depth)
            if items is not None:
                acc = a[1]
                for k, e in items:
                    if k == "val":
                        acc = self.norm(ap(a[2], acc, e), depth + 1)
                    else:
                        acc0 = acc
                        acc = opt_case(e, lambda pl, _acc=acc0: self.norm(ap(a[2], _acc, pl), depth + 1), acc0)
                return acc
        # ---- integers: `a.saturating_add(b)` is `a.checked_add(b).unwrap_or(MAX)`
        m_ = re.match(r"^core::num::<impl (u8|u16|u32|u64|usize)>::saturating_add$", callee)
        if m_ and n == 2:
            mx = {"u8": 2**8 - 1, "u16": 2**16 - 1, "u32": 2**32 - 1, "u64": 2**64 - 1, "usize": 2**64 - 1}[m_.group(1)]
            ca = ("call", callee.replace("saturating_add", "checked_add"), (a[0], a[1]), 0)
            return ("gamma", ("discr", ca, "Option"), ((("in", "0"), ("const", mx)), (("in", "1"), ("payload", ca))))
        m_ = re.match(r"^core::num::<impl (u8|u16|u32|u64|usize)>::checked_add$", callee)
        if m_ and n == 2:
            return ("call", callee, (a[0], a[1]), 0)  # one site-independent term per (a, b)
        # ---- flag sets: for a single-bit constant C, `!(f & C).is_empty()`, `f.intersects(C)` and `f.contains(C)` agree
        if is_("Flags::intersects") and n == 2 and self._single_bit_const(a[1]):
            return ("call", callee.replace("::intersects", "::contains"), (a[0], a[1]), 0)
        # ---- Option
        if is_("Option::ok_or") and n == 2:
            return opt_case(x, ok, err(a[1]))
        if is_("Option::ok_or_else") and n == 2:
            return opt_case(x, ok, err(ap(a[1])))
        if is_("Option::map") and n == 2:
            return opt_case(x, lambda pl: some(ap(a[1], pl)), NONE)
        if is_("Option::and_then") and n == 2:
            return opt_case(x, lambda pl: ap(a[1], pl), NONE)
        if is_("Option::filter") and n == 2:
            return opt_case(x, lambda pl: bool_case(ap(a[1], pl), some(pl), NONE), NONE)
        if is_("Option::is_some_and") and n == 2:
            return opt_case(x, lambda pl: ap(a[1], pl), ("const", 0))
        if is_("Option::is_none_or") and n == 2:
            return opt_case(x, lambda pl: ap(a[1], pl), ("const", 1))
        if is_("Option::unwrap_or") and n == 2:
            return opt_case(x, lambda pl: pl, a[1])
        if is_("Option::unwrap_or_default") and n == 1:
            return opt_case(x, lambda pl: pl, ("default",))
        if is_("Option::unwrap_or_else") and n == 2:
            return opt_case(x, lambda pl: pl, ap(a[1]))
        if is_("Option::map_or") and n == 3:
            return opt_case(x, lambda pl: ap(a[2], pl), a[1])
        if is_("Option::map_or_else") and n == 3:
            return opt_case(x, lambda pl: ap(a[2], pl), ap(a[1]))
        if is_("Option::or") and n == 2:
            return opt_case(x, some, a[1])
        if is_("Option::or_else") and n == 2:
            return opt_case(x, some, ap(a[1]))
        if is_("Option::and") and n == 2:
            return opt_case(x, lambda pl: a[1], NONE)
        if is_("Option::is_some") and n == 1:
            return opt_case(x, lambda pl: ("const", 1), ("const", 0))
        if is_("Option::is_none") and n == 1:
            return opt_case(x, lambda pl: ("const", 0), ("const", 1))
        if is_("Option::flatten") and n == 1:
            return opt_case(x, lambda pl: pl, NONE)
        if is_("Option::transpose") and n == 1:
            return opt_case(x, lambda pl: res_case(pl, lambda q: ok(some(q)), err), ok(NONE))
        if is_("Option::unwrap", "Option::expect"):
            return self._payload("payload", x)
        # ---- Result
        if is_("Result::map") and n == 2:
            return res_case(x, lambda pl: ok(ap(a[1], pl)), err)
        if is_("Result::map_err") and n == 2:
            return res_case(x, ok, lambda e: err(ap(a[1], e)))
        if is_("Result::and_then") and n == 2:
            return res_case(x, lambda pl: ap(a[1], pl), err)
        if is_("Result::ok") and n == 1:
            return res_case(x, some, lambda e: NONE)
        if is_("Result::err") and n == 1:
            return res_case(x, lambda pl: NONE, some)
        if is_("Result::is_ok") and n == 1:
            return res_case(x, lambda pl: ("const", 1), lambda e: ("const", 0))
        if is_("Result::is_ok_and") and n == 2:
            return res_case(x, lambda pl: ap(a[1], pl), lambda e: ("const", 0))
        if is_("Result::is_err_and") and n == 2:
            return res_case(x, lambda pl: ("const", 0), lambda e: ap(a[1], e))
        if is_("Result::is_err") and n == 1:
            return res_case(x, lambda pl: ("const", 0), lambda e: ("const", 1))
        if is_("Result::unwrap_or_default") and n == 1:
            return res_case(x, lambda pl: pl, lambda e: ("default",))
        if is_("Result::map_or") and n == 3:
            return res_case(x, lambda pl: ap(a[2], pl), lambda e: a[1])
        if is_("Result::map_or_else") and n == 3:
            return res_case(x, lambda pl: ap(a[2], pl), lambda e: ap(a[1], e))
        if is_("Result::unwrap_or") and n == 2:
            return res_case(x, lambda pl: pl, lambda e: a[1])
        if is_("Result::unwrap_or_else") and n == 2:
            return res_case(x, lambda pl: pl, lambda e: ap(a[1], e))
        if is_("Result::or_else") and n == 2:
            return res_case(x, ok, lambda e: ap(a[1], e))
        if is_("Result::transpose") and n == 1:
            return res_case(x, lambda pl: opt_case(pl, lambda q: some(ok(q)), NONE), lambda e: some(err(e)))
        if is_("Result::unwrap", "Result::expect"):
            return self._payload("payload", x)
        # ---- equality of Option/Result values: distribute over selections, fold on known variants
        if is_("PartialEq::eq", "PartialEq::ne") and n == 2:
            r = _eq_fold(callee, a[0], a[1], is_("PartialEq::ne"))
            if r is not None:
                return r
        # ---- bool
        if is_("bool::then_some") and n == 2:
            return bool_case(x, some(a[1]), NONE)
        if is_("bool::then") and n == 2:
            return bool_case(x, some(ap(a[1])), NONE)
        return None


# --------------------------------------------------------------------------
# rows


def cases(t, cap=64, depth=0):
    """flatten the selections at the root of t (and inside aggregate fields / payload positions) into
    [(conditions [(test term, label)], value)]"""
    if not isinstance(t, tuple) or not t or depth > 4:
        return [([], t)]
    if t[0] == "gamma":
        out = []
        for l, v in t[2]:
            for cs, v2 in cases(v, cap, depth):
                out.append(([(t[1], l)] + cs, v2))
                if len(out) > cap:
                    return [([], t)]
        return out
    if t[0] == "agg" and depth < 3:
        rows = [([], [])]
        for f, v in t[3]:
            sub = cases(v, cap, depth + 1)
            new = []
            for cs, vals in rows:
                for cs2, v2 in sub:
                    new.append((cs + cs2, vals + [(f, v2)]))
            rows = new
            if len(rows) > cap:
                return [([], t)]
        return [(cs, ("agg", t[1], t[2], tuple(vals))) for cs, vals in rows]
    return [([], t)]


def _first_gamma(t, depth=0):
    """outermost-first search for a selection sub-term"""
    if depth > 30 or not isinstance(t, (tuple, frozenset)):
        return None
    if isinstance(t, tuple) and t and t[0] == "gamma":
        return t
    for x in t:
        if isinstance(x, (tuple, frozenset)):
            g = _first_gamma(x, depth + 1)
            if g is not None:
                return g
    return None


def cases_deep(t, max_rows=64):
    """like cases(), but splits on selections anywhere inside the value (operands of operators and calls too):
    the full table of the value over every test that influences it"""
    rows = [([], t)]
    for _ in range(12):
        new = []
        changed = False
        for cs, v in rows:
            g = _first_gamma(v)
            if g is None:
                new.append((cs, v))
                continue
            changed = True
            for l, b in g[2]:
                v2 = summary.replace(v, g, b)
                for c0, l0 in cs + [(g[1], l)]:
                    v2 = flow._resolve_nested(v2, c0, l0)
                new.append((cs + [(g[1], l)], flow.simplify_term(v2)))
        rows = new
        if not changed or len(rows) > max_rows:
            break
    out = []
    for cs, v in rows:
        flat = []
        dead = False
        for c, l in cs:
            r = norm_cond(c, l)
            if r is None:
                dead = True
                break
            flat += r
        if not dead and not contradictory(flat):
            out.append((flat, v))
    return out


def norm_cond(c, labs, depth=0):
    """A switch on a selection is a switch on the selecting tests:  γ(g){l1→v1, l2→v2} ∈ labs  ==>  g ∈ li ∧ (vi ∈ labs)
    when exactly one branch can satisfy `labs`.  Returns a conjunction [(test term, label)]; [] = always true;
    None = never true."""
    if depth > 8:
        return [(c, labs)]
    if isinstance(c, tuple) and c and c[0] == "gamma":
        inner = c
        wrap = lambda v: v
    elif isinstance(c, tuple) and c and c[0] == "discr" and isinstance(c[1], tuple) and c[1] and c[1][0] == "gamma":
        inner = c[1]
        wrap = lambda v: ("discr", v) + c[2:]
    elif isinstance(c, tuple) and c and c[0] == "unop" and c[1] == "Not" and isinstance(c[2], tuple) and c[2] and c[2][0] == "gamma":
        return norm_cond(c[2], flow._flip(labs), depth + 1)
    else:
        d = flow._decide_label(c, labs)
        if d is True:
            return []
        if d is False:
            return None
        return [(c, labs)]
    alive = []
    for l, v in inner[2]:
        r = norm_cond(flow.simplify_term(wrap(v)), labs, depth + 1)
        if r is not None:
            alive.append((l, r))
    if not alive:
        return None
    if len(alive) == 1:
        l, r = alive[0]
        head = norm_cond(inner[1], l, depth + 1)
        if head is None:
            return None
        return head + r
    if len(alive) == len(inner[2]) and all(r == [] for l, r in alive):
        return []
    return [(c, labs)]


def dnf_cond(c, labs, depth=0):
    """like norm_cond, but a selection with several branches that can satisfy `labs` is split: the result is a disjunction
    (list) of conjunctions; [] = never true, [[]] = always true"""
    if depth > 8:
        return [[(c, labs)]]
    if isinstance(c, tuple) and c and c[0] == "gamma":
        inner, wrap = c, (lambda v: v)
    elif isinstance(c, tuple) and c and c[0] == "discr" and isinstance(c[1], tuple) and c[1] and c[1][0] == "gamma":
        inner, wrap = c[1], (lambda v: ("discr", v) + c[2:])
    elif isinstance(c, tuple) and c and c[0] == "unop" and c[1] == "Not" and isinstance(c[2], tuple) and c[2] and c[2][0] == "gamma":
        return dnf_cond(c[2], flow._flip(labs), depth + 1)
    else:
        d = flow._decide_label(c, labs)
        if d is True:
            return [[]]
        if d is False:
            return []
        return [[(c, labs)]]
    per = []
    for l, v in inner[2]:
        rs = dnf_cond(flow.simplify_term(wrap(v)), labs, depth + 1)
        if rs:
            per.append((l, rs))
    if len(per) == len(inner[2]) and all(rs == [[]] for l, rs in per):
        return [[]]
    out = []
    for l, rs in per:
        for h in dnf_cond(inner[1], l, depth + 1):
            for r in rs:
                if not contradictory(h + r):
                    out.append(h + r)
    return out


def conditions(N, program, body, target, terms=None, start=0, inline=False):
    """flow.conditions in normal form: necessary (test term, label) pairs for reaching `target`; None if unreachable"""
    out = []
    for sb, labs, t in flow.conditions(program, body, target, terms, start):
        r = norm_cond(N.inline(t) if inline else N.norm(t), labs)
        if r is None:
            return None
        for t2, l2 in r:
            out.append((sb, l2, t2))
    return out


def conditions_dnf(N, program, body, target, terms=None, start=0, inline=False, cap=32, raw=False):
    """like conditions(), but a test on a selection with several feasible branches is split: a list of alternatives, each a
    list of (switch block, label, test term) — with raw=True (switch block, label, test term, label of the CFG edge);
    [] if the target is unreachable"""
    alts = [[]]
    for sb, labs, t in flow.conditions(program, body, target, terms, start):
        tn = N.inline(t) if inline else N.norm(t)
        ds = dnf_cond(tn, labs)
        if len(ds) * len(alts) > cap:
            r = norm_cond(tn, labs)
            ds = [] if r is None else [r]
        new = []
        for a in alts:
            for d in ds:
                cand = a + [((sb, l2, t2, labs) if raw else (sb, l2, t2)) for t2, l2 in d]
                if not contradictory([(c_[2], c_[1]) for c_ in cand]):
                    new.append(cand)
        alts = new
        if not alts:
            return []
    return alts


def path_conditions(N, program, body, target, start=0, cap=256, indexed=False):
    """Sufficient-and-necessary conditions of reaching `target`, path by path: every acyclic decision path start ->* target
    with the switch operands evaluated under *that path's* reaching definitions (edges the path did not take removed), paths
    with a decided-false test dropped and decided-true tests omitted.  -> list of alternatives [(switch bb, label, test
    term)], [] when unreachable, None when there are more than `cap` paths.  (conditions()/conditions_dnf() give the tests
    every path shares; after inlining and return threading a guard inside a helper is on *some* copy of the path only.)"""
    paths = flow.decision_paths(body, target, start=start, cap=cap)
    if paths is None:
        return None
    out = []
    for dec in paths:
        rd = flow.ReachingDefs(body, removed_edges=flow.contradicting_edges(body, dec))
        Tp = flow.Terms(program, body, rd)
        Tp.indexed = indexed
        alt, feasible = [], True
        for b2, s2 in dec:
            tt = N.norm(Tp.operand(body.term(b2)["op"], b2, "t"))
            l = flow.edge_label(body, b2, s2)
            d = flow._decide_label(tt, l)
            if d is False:
                feasible = False
                break
            if d is None:
                alt.append((b2, l, tt))
        if feasible and not contradictory([(c_[2], c_[1]) for c_ in alt]):
            out.append(alt)
    return out


def canon_cond(t, l):
    """boolean tests as positive atoms: (Not(x), l) ==> (x, flipped l)"""
    while isinstance(t, tuple) and len(t) == 3 and t[0] == "unop" and t[1] == "Not" and (flow.lab_true(l) or flow.lab_false(l)):
        t, l = t[2], flow._flip(l)
        l = ("notin", "0") if flow.lab_true(l) else ("in", "0")
    return t, l


def contradictory(conds):
    """the same test required on two incompatible edges (boolean tests compared modulo negation)"""
    by = {}
    for t, l in conds:
        t, l = canon_cond(t, l)
        by.setdefault(t, []).append(l)
    for t, ls in by.items():
        pos = [set(l[1:]) for l in ls if l[0] == "in"]
        neg = [set(l[1:]) for l in ls if l[0] == "notin"]
        if pos:
            inter = set.intersection(*pos)
            for n in neg:
                inter -= n
            if not inter:
                return True
    return False


def _has_gamma(t):
    return flow.term_contains(t, lambda x: isinstance(x, tuple) and x and x[0] == "gamma")


def _with_context(conds):
    """the tests already decided in a row decide the selections on the same tests inside its other conditions"""
    for _ in range(4):
        facts = [(t, l) for t, l, f, w in conds if not _has_gamma(t)]
        changed = False
        out = []
        for t, l, f, w in conds:
            if not _has_gamma(t):
                out.append((t, l, f, w))
                continue
            t2 = t
            for ft, fl in facts:
                t2 = flow._resolve_nested(t2, ft, fl)
            t2 = flow.simplify_term(t2)
            if t2 != t:
                changed = True
            r = norm_cond(t2, l)
            if r is None:
                return None
            if r != [(t, l)]:
                changed = changed or True
            out += [(a, b, f, w) for a, b in r]
        # drop duplicates, keep order
        seen, ded = set(), []
        for c in out:
            if (c[0], c[1]) not in seen:
                seen.add((c[0], c[1]))
                ded.append(c)
        conds = ded
        if not changed:
            break
    return conds


def rows(S, body, N=None, expand=True, deep=False):
    """decision table of `body`: summary outcomes with values and conditions in normal form, selections flattened;
    expand=False keeps calls to workspace functions as calls (the table of this body alone); deep=True also splits on
    selections nested inside operators/calls of the value"""
    N = N or Normalizer(S.p, S)
    out = []
    for o in (S.outcomes(body) if expand else S.local_outcomes(body)):
        v = N.norm(o.value)
        alts = [[]]
        for t, l, f, w in o.conds:
            tn = N.norm(t)
            if deep:
                ds = dnf_cond(tn, l)
                if len(ds) * len(alts) > 64:
                    r = norm_cond(tn, l)
                    ds = [] if r is None else [r]
            else:
                r = norm_cond(tn, l)
                ds = [] if r is None else [r]
            alts = [a + [(t2, l2, f, w) for t2, l2 in d] for a in alts for d in ds]
            if not alts:
                break
        for base in alts:
          for cs, v2 in (cases_deep(v) if deep else cases(v)):
              extra = []
              dead = False
              for t, l in cs:
                  r = norm_cond(t, l)
                  if r is None:
                      dead = True
                      break
                  extra += [(t2, l2, o.fn, "%s:%d" % (o.site[0].file, o.site[2])) for t2, l2 in r]
              if dead:
                  continue
              allc = _with_context(base + extra)
              if allc is None or contradictory([(t, l) for t, l, f, w in allc]):
                  continue
              seen_c, ded = set(), []
              for t, l, f, w in allc:
                  t, l = canon_cond(t, l)
                  if (t, l) not in seen_c:
                      seen_c.add((t, l))
                      ded.append((t, l, f, w))
              allc = ded
              for t, l, f, w in allc:
                  v2 = flow._resolve_nested(v2, t, l)
              v2 = flow.simplify_term(v2)
              vp, _ = summary.variant_path(v2)
              out.append(summary.Outcome(vp, v2, allc, o.site, o.fn))
    return out


def evaluate(S, body, N, binding, deep=False):
    """rows of the (expanded, normal-form) decision table of `body` that stay feasible when the terms in `binding` — typically
    parameters — are replaced by abstract values (aggregates with symbolic leaves); decided conditions are dropped.
    Evaluating the extracted table on abstract inputs: no code of the repository runs."""
    out = []
    for o in rows(S, body, N, expand=True, deep=deep):
        conds, dead = [], False
        for t, l, f, w in o.conds:
            t2 = t
            for old, new in binding.items():
                t2 = summary.replace(t2, old, new)
            r = norm_cond(Normalizer(S.p, S).norm(t2) if False else N.norm(t2), l)
            if r is None:
                dead = True
                break
            conds += [(a, b, f, w) for a, b in r]
        if dead or contradictory([(a, b) for a, b, f, w in conds]):
            continue
        v = o.value
        for old, new in binding.items():
            v = summary.replace(v, old, new)
        v = N.norm(v)
        vp, _ = summary.variant_path(v)
        out.append(summary.Outcome(vp, v, conds, o.site, o.fn))
    return out


def abstract(p, adt_path, **fields):
    """an aggregate of a workspace struct whose unspecified members are symbolic"""
    a = p.adts.get(adt_path)
    names_ = [f["name"] for f in a["variants"][0]["fields"]] if a else list(fields)
    variant = a["variants"][0]["name"] if a else adt_path.rsplit("::", 1)[-1]
    return ("agg", adt_path, variant, tuple((f, fields.get(f, ("sym", f))) for f in names_))


def under(value, conds):
    """a value as seen at a program point: selections on tests that the point's necessary conditions already decide
    are resolved (`if x.is_some() { use(x.map(f)) }` sees Some(f(payload x)))"""
    for c in conds:
        t, l = (c[2], c[1]) if len(c) == 3 and isinstance(c[0], int) else (c[0], c[1])
        value = flow._resolve_nested(value, t, l)
    return flow.simplify_term(value)


def rebuilds(t, r, residual_ok=False):
    """is `t` the value `r` taken apart and put together again unchanged?  `r` itself, or a selection on the presence of
    r whose every branch re-wraps r's own payload in the same variant:  match r { Ok(v) => Ok(v), Err(e) => Err(e) },
    `Ok(r?)` (the error branch then goes through From — identity only when the error types agree: residual_ok)."""
    if t == r:
        return True
    if not (isinstance(t, tuple) and t and t[0] == "gamma"):
        return False
    seen = set()
    for l, v in t[2]:
        pt = flow.presence_test(t[1], l)
        if pt is None or pt[1] is None or pt[0] != r:
            return False
        if not (isinstance(v, tuple) and len(v) == 4 and v[0] == "agg"):
            # a nested selection on the same value is not expected after normalisation
            return False
        variant = v[2]
        if pt[1]:
            if variant not in ("Ok", "Some") or len(v[3]) != 1 or v[3][0][1] != ("payload", r):
                return False
        else:
            if variant == "None" and not v[3]:
                pass
            elif variant == "Err" and len(v[3]) == 1 and (v[3][0][1] == ("errpayload", r) or (residual_ok and v[3][0][1] == ("residual", ("errpayload", r)))):
                pass
            else:
                return False
        seen.add(pt[1])
    return seen == {True, False}


def min_of(t):
    """frozenset{a, b} when t is the smaller of a and b — `a.min(b)`, `cmp::min(a, b)`, `if a < b { a } else { b }` and the
    other spellings of the comparison; None otherwise"""
    if isinstance(t, tuple) and len(t) == 4 and t[0] == "call" and (names.is_(t[1], "Ord::min") or names.is_(t[1], "cmp::min")) and len(t[2]) == 2:
        return frozenset(t[2])
    if isinstance(t, tuple) and t and t[0] == "gamma" and len(t[2]) == 2 and isinstance(t[1], tuple) and t[1][:1] == ("binop",) and t[1][1] in ("Lt", "Le", "Gt", "Ge"):
        op, a, b = t[1][1], t[1][2], t[1][3]
        tv = fv = None
        for l, v in t[2]:
            if flow.lab_true(l):
                tv = v
            elif flow.lab_false(l):
                fv = v
        if tv is None or fv is None:
            return None
        # on the true edge of a < b / a <= b the smaller is a; of a > b / a >= b it is b
        small, big = (a, b) if op in ("Lt", "Le") else (b, a)
        if tv == small and fv == big:
            return frozenset((a, b))
    return None


def finite_table(S, body, N, param, domain, deep=True):
    """Evaluate the expanded decision table of `body` for every value of a finite domain of one integer parameter:
    {value: row}.  The rows are extracted once; for each value the parameter is replaced by the constant in every
    condition, which is then folded (comparisons, range tests, `any` over constant tables).  A value for which not
    exactly one row stays feasible, or a condition stays undecided, maps to None.  Nothing of the repository runs."""
    rws = rows(S, body, N, expand=True, deep=deep)
    out = {}
    for k in domain:
        kc = ("const", k)
        hit = []
        undecided = False
        for o in rws:
            dead = False
            for t, l, f, w in o.conds:
                t2 = N.norm(summary.replace(t, param, kc))
                ds = dnf_cond(t2, l)
                if ds == []:
                    dead = True
                    break
                if ds != [[]]:
                    undecided = True
                    dead = True
                    break
            if not dead:
                hit.append(o)
        vals = {flow.strip_sites(N.norm(summary.replace(o.value, param, kc))) for o in hit}
        out[k] = (hit[0], next(iter(vals))) if len(vals) == 1 and not undecided else None
    return out
