"""C11 — discoverability follows request and store capability and is reported truthfully.

All tables are read off the MIR decision trees (outcome summaries), then composed over the complete finite product.
T1 Client::map_rk                      : Required→true, Preferred→authenticator rk option, Discouraged→false,
                                          absent→requireResidentKey, no criteria→false.
T2 DiscoverabilitySupport::is_passkey_discoverable : Full→rk, OnlyNonDiscoverable→false, ForcedDiscoverable→true.
T3 get_info.options.rk                 : store capability ≠ OnlyNonDiscoverable.
R4 refusal       : make_credential returns UnsupportedOption exactly on rk ∧ ¬get_info.rk, before key generation.
R5 stored handle : Passkey.user_handle = Some(request user id) exactly on the true edge of
                   is_passkey_discoverable(store.get_info().discoverability, options.rk).
R6 credProps     : present iff requested == Some(true); its value is is_passkey_discoverable(store info, rk) with the same
                   rk that went into Options.rk and the same store's get_info.
R7 assertion     : Response.user is the map of the used credential's user_handle (Some iff stored), id taken from it; the
                   client's user_handle is user.id.
Composition: the product capability(3) × residentKey(4) × requireResidentKey(2) is evaluated from the extracted tables.
"""
from . import core, flow, names, normal, summary
from .framework import where, short, api_name
from .common import AUTH, CLIENT, ceremony, find_aggs, term_fields, param_roles

DS = "passkey_authenticator::credential_store::DiscoverabilitySupport"
RKR = "passkey_types::webauthn::attestation::ResidentKeyRequirement"


def has(t, pred):
    return flow.term_contains(t, pred)


def is_call(x, pat):
    return isinstance(x, tuple) and len(x) == 4 and x[0] in ("call", "await") and isinstance(x[1], str) and names.is_(x[1], pat)


def variants_of(p, path):
    a = p.adts.get(path)
    if a is None:
        c = [x for k, x in p.adts.items() if k.rsplit("::", 1)[-1] == path.rsplit("::", 1)[-1]]
        a = c[0] if len(c) == 1 else None
    return {v["discr"]: v["name"] for v in a["variants"]} if a else {}


def closure_ret(p, clo):
    if not (isinstance(clo, tuple) and len(clo) == 3 and clo[0] == "closure" and clo[1] in p.bodies):
        return None
    cb = p.bodies[clo[1]]
    r = cb.return_blocks()
    return flow.simplify_term(flow.Terms(p, cb).place(0, (), r[0], "t")) if len(r) == 1 else None


presence_selection = flow.presence_selection


def run(chk):
    p = core.load_program("all")
    chk.configs = ["all-features"]
    chk.explanation = __doc__
    # shared clause (C07 R7): what an assertion writes back is the stored record with only its counter advanced — the
    # user handle included, or later assertions stop reporting it
    from .framework import borrow
    borrow(chk, "C07", ["R7|"], "C11: the stored user handle survives the counter write-back of an assertion")
    # capability truthfulness through the lock wrappers: each tokio wrapper impl of CredentialStore has its own
    # get_info that asks the wrapped store exactly once (a provided default would report a constant capability)
    _st = [t for t in p.traits.values() if t["path"].startswith("passkey_authenticator::") and t["path"].endswith("::CredentialStore")]
    if chk.require("R0 wrappers report the wrapped store's capability", "R0|trait", len(_st) == 1, "passkey_authenticator", "trait CredentialStore not found"):
        _wr = [im for im in p.impls_of(trait=_st[0]["path"]) if "tokio::sync" in im["self_ty"]]
        if p.config != "default":
            chk.require("R0 wrappers report the wrapped store's capability", "R0|wrappers", len(_wr) >= 4, _st[0]["path"], "expected 4 lock-wrapper impls (counted by hand), found %d" % len(_wr))
        import re as _re
        for im in _wr:
            stn = _re.sub(r"\b[a-z_0-9]+::", "", im["self_ty"])
            gi = [it for it in im["items"] if it["name"] == "get_info" and it["kind"] == "AssocFn"]
            co = p.async_body(p.bodies.get(gi[0]["def"])) if gi else None
            inner = names.calls_to(co, "CredentialStore::get_info") if co is not None else []
            if co is not None:
                chk.touched(co)
            chk.ob("R0 wrappers report the wrapped store's capability", "R0|%s|get_info-forwarded" % stn, bool(gi) and len(inner) == 1, im["def"],
                   "own get_info: %s; calls of the wrapped store's get_info in it: %d" % (bool(gi), len(inner)))
    S = summary.Summaries(p)
    N = normal.Normalizer(p, S)

    # ---------------- T1
    T1 = {}
    mr = p.method(CLIENT, "map_rk")
    if chk.require("T1 map_rk", "T1|map_rk", mr, CLIENT, "Client::map_rk not found"):
        chk.touched(mr)
        # (private helper: its parameters are taken by type, not by position)
        ro_mr = param_roles(mr, crit="AuthenticatorSelectionCriteria", info="get_info::Response")
        P_CRIT, P_INFO = ("param", ro_mr["crit"] or 2), ("param", ro_mr["info"] or 3)
        # evaluate the extracted decision table on the finite product of abstract inputs
        ASC = "passkey_types::webauthn::attestation::AuthenticatorSelectionCriteria"
        asc = p.adts.get(ASC)
        chk.require("T1 map_rk", "T1|AuthenticatorSelectionCriteria", asc, ASC, "AuthenticatorSelectionCriteria not found")
        fields = [f["name"] for f in asc["variants"][0]["fields"]] if asc else []
        some = lambda x: ("agg", "core::option::Option", "Some", (("0", x),))
        none = ("agg", "core::option::Option", "None", ())

        def classify(v):
            if v == ("const", 1):
                return "true"
            if v == ("const", 0):
                return "false"
            if v == ("sym", "require_resident_key"):
                return "require"
            if is_call(v, "Option::is_some_and") and has(v, lambda x: x == ("field", P_INFO, "options")):
                r = closure_ret(p, v[2][1])
                return "supports" if r == ("field", ("param", 2), "rk") else "?"
            return "?"

        is_opts = lambda x: x == ("field", P_INFO, "options")

        def supports(rows):
            """the rows say: the authenticator's own `rk` option when it reports options, false when it reports none —
            as one value (`is_some_and`, a selection) or as two rows split on the presence of the options"""
            sel = {}
            for r in rows:
                v = N.norm(r.value)
                if not r.conds:
                    s2, subj = presence_selection(v, is_opts)
                    if subj is None:
                        return False
                    sel.update(s2)
                    continue
                pol = None
                for t, l, f, w in r.conds:
                    if flow.asserts_ok(t, l, is_opts):
                        pol = True
                    elif flow.asserts_fail(t, l, is_opts):
                        pol = False
                    else:
                        return False
                if pol is None or pol in sel:
                    return False
                sel[pol] = v
            if set(sel) != {True, False}:
                return False
            rk_of = sel[True]
            while isinstance(rk_of, tuple) and len(rk_of) == 4 and rk_of[0] == "call" and rk_of[2] and (names.is_(rk_of[1], "Deref::deref") or names.is_(rk_of[1], "Clone::clone")):
                rk_of = rk_of[2][0]
            return sel[False] == ("const", 0) and isinstance(rk_of, tuple) and len(rk_of) == 3 and rk_of[0] == "field" and rk_of[2] == "rk" and flow.is_payload_of(rk_of[1], is_opts)

        def supports2(rows):
            """the same statement as a truth table over {options reported, their rk}: every row's conditions are presence tests
            of the options or tests of their `rk`, its value a constant or that `rk`; for each of the three cases (absent;
            present with rk false / true) the rows that apply agree on `present ∧ rk`"""
            is_rk = lambda x: isinstance(x, tuple) and len(x) == 3 and x[0] == "field" and x[2] == "rk" and flow.is_payload_of(x[1], is_opts)
            table = []
            for r in rows:
                cs = []
                for t, l, f, w in r.conds:
                    if flow.asserts_ok(t, l, is_opts):
                        cs.append(("P", True))
                    elif flow.asserts_fail(t, l, is_opts):
                        cs.append(("P", False))
                    else:
                        a_, pol = flow.bool_atom(t, l)
                        a_ = N.norm(a_) if a_ is not None else None
                        while isinstance(a_, tuple) and len(a_) == 4 and a_[0] == "call" and a_[2] and (names.is_(a_[1], "Deref::deref") or names.is_(a_[1], "Clone::clone")):
                            a_ = a_[2][0]
                        if pol is None or not is_rk(a_):
                            return False
                        cs.append(("R", pol))
                v = N.norm(r.value)
                while isinstance(v, tuple) and len(v) == 4 and v[0] == "call" and v[2] and (names.is_(v[1], "Deref::deref") or names.is_(v[1], "Clone::clone")):
                    v = v[2][0]
                if v in (("const", 0), ("const", 1)):
                    val = bool(v[1])
                elif is_rk(v):
                    val = "R"
                else:
                    return False
                table.append((cs, val))
            for P_, R_ in ((False, False), (True, False), (True, True)):
                env = {"P": P_, "R": R_}
                hit = [val for cs, val in table if all(env[k] == pol for k, pol in cs if not (k == "R" and not P_))
                       and not (not P_ and any(k == "R" for k, pol in cs) and not any(k == "P" for k, pol in cs))]
                if not hit:
                    return False
                for val in hit:
                    if val == "R" and not P_:
                        return False
                    if (R_ if val == "R" else val) != (P_ and R_):
                        return False
            return True

        def run_input(crit):
            rows = S.evaluate(mr, {P_CRIT: crit})
            if supports(rows) or supports2(rows):
                return "supports"
            rows = [r for r in rows if not r.conds]
            vals = {classify(r.value) for r in rows}
            return vals.pop() if len(vals) == 1 else "?%s" % sorted(vals)

        for name, rk in (("Required", some(("agg", RKR, "Required", ()))), ("Preferred", some(("agg", RKR, "Preferred", ()))),
                         ("Discouraged", some(("agg", RKR, "Discouraged", ()))), ("absent", none)):
            crit = ("agg", ASC, "AuthenticatorSelectionCriteria", tuple((f, rk if f == "resident_key" else ("sym", f)) for f in fields))
            T1[name] = run_input(some(crit))
        no_criteria = run_input(none)
        exp = {"Required": "true", "Preferred": "supports", "Discouraged": "false", "absent": "require"}
        chk.ob("T1 map_rk", "T1|map_rk|table", T1 == exp, where(mr), "decision table evaluated on residentKey ∈ {required, preferred, discouraged, absent}: %s ; WebAuthn mapping %s" % (T1, exp))
        chk.ob("T1 map_rk", "T1|map_rk|no-criteria-means-defaults", no_criteria == "false", where(mr),
               "without authenticatorSelection the result is %s (residentKey absent and requireResidentKey false → false)" % no_criteria)

    # ---------------- T2
    T2 = {}
    ipd = p.method(DS, "is_passkey_discoverable")
    if chk.require("T2 is_passkey_discoverable", "T2|fn", ipd, DS, "is_passkey_discoverable not found"):
        chk.touched(ipd)
        dv = variants_of(p, DS)
        for o in S.outcomes(ipd):
            key = None
            for t, labs, fn, w in o.conds:
                if flow.is_discr(t, ("param", 1)) and labs[0] == "in" and len(labs) == 2:
                    key = dv.get(labs[1])
            v = o.value
            T2[key] = "rk" if v == ("param", 2) else ("true" if v == ("const", 1) else ("false" if v == ("const", 0) else "?"))
        exp = {"Full": "rk", "OnlyNonDiscoverable": "false", "ForcedDiscoverable": "true"}
        chk.ob("T2 is_passkey_discoverable", "T2|table", T2 == exp, where(ipd), "extracted %s ; expected %s" % (T2, exp))

    # ---------------- T3
    gi = ceremony(p, "get_info")
    t3_ok = False
    if chk.require("T3 get_info rk", "T3|get_info", gi, AUTH, "Authenticator::get_info not found"):
        chk.touched(gi)
        T = flow.Terms(p, gi)
        # the `rk` member of the options in the returned Response (a struct literal, or defaults with members assigned)
        ag = [x for x in find_aggs(gi, "Response") if "options" in x[2]["fields"]]
        if chk.require("T3 get_info rk", "T3|options", len(ag) == 1, where(gi), "get_info::Response construction not found"):
            bb, i, rv = ag[0]
            rk = N.inline(("field", ("payload", T.operand(rv["ops"][rv["fields"].index("options")], bb, i)), "rk"))
            # rk = "the store's capability is not OnlyNonDiscoverable" (`!=`, `!matches!`, a match with constant arms alike)
            vb = flow.variant_bool(rk)
            t3_ok = False
            if vb is not None and vb[2] is False and vb[1] == "OnlyNonDiscoverable":
                cap = vb[0]
                t3_ok = isinstance(cap, tuple) and len(cap) == 3 and cap[0] == "field" and cap[2] == "discoverability" and has(cap, lambda x: is_call(x, "CredentialStore::get_info")) and has(cap, lambda x: x == ("field", ("upvar", 0), "store"))
            chk.ob("T3 get_info rk", "T3|rk", t3_ok, where(gi, bb), "options.rk = %s" % flow.term_str(rk))

    # ---------------- R4 / R5
    mc = ceremony(p, "make_credential")
    if chk.require("R4 refusal", "R4|make_credential", mc, AUTH, "make_credential not found"):
        chk.touched(mc)
        T = flow.Terms(p, mc)
        sites = find_aggs(mc, "Ctap2Error", "UnsupportedOption")
        found = None
        REQ = ("field", ("field", ("upvar", 1), "options"), "rk")
        from_info = lambda x: has(x, lambda y: is_call(y, "Authenticator::get_info"))

        def classify(c_):
            """'req' — the request asks for a resident key; 'unsupported' — the authenticator's own options say no resident
            keys (its `rk` read false, or there are no options at all and the default says false); None otherwise"""
            sb, l, t = c_[0], c_[1], c_[2]
            a_, pol = flow.bool_atom(t, l)
            if a_ == REQ and pol is True:
                return "req"
            if pol is False and isinstance(a_, tuple) and len(a_) == 3 and a_[0] == "field" and a_[2] == "rk" and from_info(a_):
                return "unsupported"
            pt = flow.presence_test(t, l)
            if pt is not None and pt[1] is False and from_info(pt[0]) and has(pt[0], lambda y: isinstance(y, tuple) and len(y) == 3 and y[0] == "field" and y[2] == "options"):
                # no options reported: Options::default().rk is false (tables: get_info_option_defaults)
                return "unsupported"
            return None
        for bb, i, rv in sites:
            alts = normal.conditions_dnf(N, p, mc, bb, T, raw=True)
            if alts and all(any(classify(c_) == "req" for c_ in alt) and any(classify(c_) == "unsupported" for c_ in alt) for alt in alts):
                found = (bb, alts)
        chk.ob("R4 refusal", "R4|make_credential|rk-and-not-supported", found is not None, where(mc, found[0]) if found else where(mc),
               "UnsupportedOption under: %s" % ([[flow.term_str(c_[2])[-70:] + " " + str(c_[1]) for c_ in alt if classify(c_)] for alt in found[1]] if found else "no site conditioned on options.rk ∧ ¬get_info().options.rk"))
        gen = [bb for bb, t in mc.calls() if names.call_is(t, "SecretKey::random", "CredentialStore::save_credential", "random_vec")]
        if found:
            # once the refusing edges of the decision are taken nothing is created, and nothing was created before it
            after_decision = set()
            last = None
            for alt in found[1]:
                dec = [c_ for c_ in alt if classify(c_)]
                sb, l2, t2, raw_l = dec[-1]
                last = sb
                for sc in set(mc.succs(sb)):
                    if flow.edge_label(mc, sb, sc) == raw_l:
                        after_decision |= mc.reachable(sc, follow_yield_drop=False)
            reach_after = [g for g in gen if g in after_decision]
            before = [g for g in gen if found[0] in mc.reachable(g, follow_yield_drop=False)]
            chk.ob("R4 refusal", "R4|make_credential|before-creation", not reach_after and not before and len(gen) >= 3, where(mc, last if last is not None else found[0]),
                   "key/id generation and save: not reachable once the refusing edges of the rk decision are taken (%s), and none of them precedes the refusal (%s)" % (not reach_after, not before))
        # R5
        from .common import saved_passkey
        rec, bb = saved_passkey(p, mc, T, N)
        if chk.require("R5 stored handle", "R5|Passkey", rec is not None and "user_handle" in rec, where(mc), "saved Passkey record not found"):
            uh = rec["user_handle"]
            # normal form: a selection on one boolean test with Some(value) on its true edge and None on its false edge
            sel = {}
            cond = None
            for cs, v in normal.cases(uh):
                for t, l in cs:
                    a, pol = flow.bool_atom(t, l)
                    cond = a if cond in (None, a) else ("mixed",)
                    sel[pol] = v
            ok = set(sel) == {True, False} and sel[False] == normal.NONE and sel[True][0] == "agg" and sel[True][2] == "Some"
            c_ok = ok and cond is not None and is_call(cond, "DiscoverabilitySupport::is_passkey_discoverable") and cond[2][1] == ("field", ("field", ("upvar", 1), "options"), "rk") \
                and has(cond[2][0], lambda x: is_call(x, "CredentialStore::get_info")) and has(cond[2][0], lambda x: x == ("field", ("upvar", 0), "store")) and cond[2][0][0] == "field" and cond[2][0][2] == "discoverability"
            val = dict(sel[True][3]).get("0") if ok else None
            v_ok = val is not None and val == ("field", ("field", ("upvar", 1), "user"), "id")
            chk.ob("R5 stored handle", "R5|user_handle|condition", bool(ok and c_ok), where(mc, bb), "user_handle = %s" % flow.term_str(uh)[:260])
            chk.ob("R5 stored handle", "R5|user_handle|value", bool(v_ok), where(mc, bb), "stored value = %s" % (flow.term_str(val) if val else "?"))

    # ---------------- R6
    reo = p.method(CLIENT, "registration_extension_outputs")
    if chk.require("R6 credProps", "R6|registration_extension_outputs", reo, CLIENT, "registration_extension_outputs not found"):
        chk.touched(reo)
        outs = normal.rows(S, reo, N, expand=False)
        ro_reo = param_roles(reo, req="AuthenticationExtensionsClientInputs", info="StoreInfo", disc="DiscoverabilitySupport", rk="bool")
        P_REQ6, P_INFO6, P_RK6 = ("param", ro_reo["req"] or 2), ("param", ro_reo["info"] or 3), ("param", ro_reo["rk"] or 4)
        # the store's capability: the `discoverability` member of the store info, or handed over by itself
        DISC6 = ("param", ro_reo["disc"]) if ro_reo["info"] is None and ro_reo["disc"] is not None else ("field", P_INFO6, "discoverability")
        present, absent = [], []
        for o in outs:
            cp = dict(o.value[3]).get("cred_props") if o.value[0] == "agg" else None
            if cp is None:
                continue
            (present if cp[0] == "agg" and cp[2] == "Some" else absent).append((o, cp))
        ok = len(present) >= 1 and len(absent) >= 1
        w = ""
        some_true = normal.some(("const", 1))

        def requested(o):
            """the row asserts request.cred_props == Some(true); -> the tested member term or None"""
            for t, l, fn, w2 in o.conds:
                e = flow.eq_test(t, l)
                if e is not None and e[1] is True and some_true in e[0]:
                    other = [x for x in e[0] if x != some_true]
                    if other:
                        return other[0]
            # `match m { Some(true) => .. }` / `m.is_some_and(|b| b)`: m is present and its content is true
            for t, l, fn, w2 in o.conds:
                a, pol = flow.bool_atom(t, l)
                m = flow.payload_subject(a)
                if pol is True and m is not None and any(flow.asserts_ok(t2, l2, lambda x: x == m) for t2, l2, f2, w3 in o.conds):
                    return m
            return None
        clo_ok = bool(present)
        for o, cp in present:
            member = requested(o)
            inner = dict(cp[3]).get("0")
            disc = dict(inner[3]).get("discoverable") if inner and inner[0] == "agg" else None
            v = dict(disc[3]).get("0") if disc and disc[0] == "agg" and disc[2] == "Some" else None
            vok = v is not None and is_call(v, "DiscoverabilitySupport::is_passkey_discoverable") and v[2][0] == DISC6 and v[2][1] == P_RK6
            ok = ok and member is not None and vok
            clo_ok = clo_ok and member is not None and member[0] == "field" and member[2] == "cred_props" and has(member, lambda x: x == P_REQ6)
            w = "credProps = %s under %s" % (flow.term_str(cp)[:160], [c[-70:] for c in o.cond_strs()])
        for o, cp in absent:
            ok = ok and requested(o) is None
        chk.ob("R6 credProps", "R6|present-iff-requested-true|value", ok, where(reo), w or "rows not recognised")
        chk.ob("R6 credProps", "R6|requested-flag-is-credProps", clo_ok, where(reo), "the tested request member is `cred_props`: %s" % clo_ok)
    reg = ceremony(p, "register", adt=CLIENT)
    if chk.require("R6 credProps", "R6|register", reg, CLIENT, "Client::register not found"):
        chk.touched(reg)
        T = flow.Terms(p, reg)
        c1 = names.calls_to(reg, "Client::registration_extension_outputs")
        c2 = names.calls_to(reg, "Authenticator::make_credential")
        if chk.require("R6 credProps", "R6|register|sites", len(c1) == 1 and len(c2) == 1, where(reg), "call sites not found"):
            a = c1[0][1]["args"]
            ro6 = param_roles(reo, info="StoreInfo", disc="DiscoverabilitySupport", rk="bool") if reo is not None else {"info": 3, "rk": 4, "disc": None}
            rk_arg = flow.simplify_term(T.operand(a[(ro6["rk"] or 4) - 1], c1[0][0], "t"))
            si_arg = flow.simplify_term(T.operand(a[(ro6["info"] or ro6["disc"] or 3) - 1], c1[0][0], "t"))
            req = flow.simplify_term(T.operand(c2[0][1]["args"][1], c2[0][0], "t"))
            opts = dict(req[3]).get("options") if req[0] == "agg" else None
            rk_sent = dict(opts[3]).get("rk") if opts and opts[0] == "agg" else None
            chk.ob("R6 credProps", "R6|register|same-rk", rk_arg == rk_sent and is_call(rk_arg, "Client::map_rk"), where(reg, c1[0][0]),
                   "credProps rk = %s ; Options.rk = %s" % (flow.term_str(rk_arg)[:100], flow.term_str(rk_sent)[:100] if rk_sent else "?"))
            same_store = has(si_arg, lambda x: is_call(x, "CredentialStore::get_info")) and has(si_arg, lambda x: is_call(x, "Authenticator::store")) and has(si_arg, lambda x: x == ("field", ("upvar", 0), "authenticator"))
            chk.ob("R6 credProps", "R6|register|same-store-info", same_store, where(reg, c1[0][0]), "store info = %s" % flow.term_str(si_arg)[:160])

    # ---------------- R7
    ga = ceremony(p, "get_assertion")
    if chk.require("R7 assertion user handle", "R7|get_assertion", ga, AUTH, "get_assertion not found"):
        chk.touched(ga)
        T = flow.Terms(p, ga)
        ag = find_aggs(ga, "Response")
        if chk.require("R7 assertion user handle", "R7|Response", len(ag) == 1, where(ga), "Response construction not found"):
            bb, i, rv = ag[0]
            u = N.inline(T.operand(rv["ops"][rv["fields"].index("user")], bb, i))
            is_handle = lambda x: isinstance(x, tuple) and len(x) == 3 and x[0] == "field" and x[2] == "user_handle"
            sel, handle = presence_selection(u, is_handle)
            ok = set(sel) == {True, False} and sel[False] == normal.NONE and sel[True][0] == "agg" and sel[True][2] == "Some"
            ent = dict(sel[True][3]).get("0") if ok else None
            idok = ent is not None and ent[0] == "agg" and dict(ent[3]).get("id") == ("payload", handle)
            cred = N.inline(T.operand(rv["ops"][rv["fields"].index("credential")], bb, i))
            same = ok and handle is not None and has(cred, lambda x: x == handle[1])
            chk.ob("R7 assertion user handle", "R7|get_assertion|user-iff-handle", bool(ok and idok), where(ga, bb), "Response.user = %s" % flow.term_str(u)[:260])
            chk.ob("R7 assertion user handle", "R7|get_assertion|handle-of-used-credential", bool(same), where(ga, bb), "user handle and Response.credential derive from the same credential: %s" % same)
    au = ceremony(p, "authenticate", adt=CLIENT)
    if chk.require("R7 assertion user handle", "R7|authenticate", au, CLIENT, "Client::authenticate not found"):
        chk.touched(au)
        T = flow.Terms(p, au)
        ag = find_aggs(au, "AuthenticatorAssertionResponse")
        if chk.require("R7 assertion user handle", "R7|client-response", len(ag) == 1, where(au), "AuthenticatorAssertionResponse construction not found"):
            bb, i, rv = ag[0]
            u = N.inline(T.operand(rv["ops"][rv["fields"].index("user_handle")], bb, i))
            is_user = lambda x: isinstance(x, tuple) and len(x) == 3 and x[0] == "field" and x[2] == "user" and has(x, lambda y: is_call(y, "Authenticator::get_assertion"))
            sel, user = presence_selection(u, is_user)
            ok = set(sel) == {True, False} and sel[False] == normal.NONE and sel[True] == normal.some(("field", ("payload", user), "id"))
            chk.ob("R7 assertion user handle", "R7|authenticate|user_handle", bool(ok), where(au, bb), "user_handle = %s" % flow.term_str(u)[:200])

    # ---------------- composition over the finite product (table algebra)
    if T1 and T2 and t3_ok:
        bad = []
        n = 0
        for cap in ("Full", "OnlyNonDiscoverable", "ForcedDiscoverable"):
            info_rk = cap != "OnlyNonDiscoverable"  # T3
            for rkreq in ("absent", "Discouraged", "Preferred", "Required"):
                for rrk in (False, True):
                    n += 1
                    m = T1.get(rkreq)
                    rk = {"true": True, "false": False, "supports": info_rk, "require": rrk}.get(m)
                    if rk is None:
                        bad.append((cap, rkreq, rrk, "unmapped"))
                        continue
                    refused = rk and not info_rk  # R4
                    d = T2.get(cap)
                    stored = {"rk": rk, "true": True, "false": False}.get(d)
                    expected = {"Full": rk, "OnlyNonDiscoverable": False, "ForcedDiscoverable": True}[cap]
                    if cap == "OnlyNonDiscoverable" and rkreq == "Required" and not refused:
                        bad.append((cap, rkreq, rrk, "a required resident key is not refused"))
                    if not refused and stored != expected:
                        bad.append((cap, rkreq, rrk, "stored=%s expected=%s" % (stored, expected)))
        chk.ob("composition", "composition|capability×residentKey×requireResidentKey", not bad, "extracted tables T1,T2,T3 + R4,R5,R6", "%d combinations evaluated from the tables; mismatches: %s" % (n, bad or "none"))
        chk.extra["product_size"] = n
    chk.floor("T1", 2)
    chk.floor("T2", 1)
    chk.floor("T3", 1)
    chk.floor("R4", 2)
    chk.floor("R5", 2)
    chk.floor("R6", 4)
    chk.floor("R7", 3)
    chk.floor("composition", 1)
    chk.assumptions = ["stores report their capability truthfully in get_info", "credProps requested=false/absent needs no output"]


def _sub(t):
    yield t
    if isinstance(t, frozenset):
        for x in t:
            yield from _sub(x)
    elif isinstance(t, tuple):
        for x in t:
            if isinstance(x, (tuple, frozenset)):
                yield from _sub(x)
