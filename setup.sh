#!/bin/bash
# Builds the verification engines offline from files on disk only.
set -euo pipefail
cd "$(dirname "$0")"
export CARGO_NET_OFFLINE=true
(cd engines/mirfacts && cargo build --release --offline 2>&1 | tail -2)
test -x engines/mirfacts/target/release/mirfacts
mkdir -p evidence .cache
echo "setup ok"
